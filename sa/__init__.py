"""Static analysis framework for sqlparse properties C01-C20.

Nothing in this package imports or executes sqlparse: every check parses the
source text of /repo/sqlparse with the standard library ``ast`` module.
"""
