"""Syntax-directed helpers (DESIGN 2.4): structured path enumeration with
guard facts, dominating-guard contexts, exit analysis."""
import ast

from .model import FUNC_NODES, AnalysisError


def src(node):
    return ast.unparse(node) if node is not None else ''


def is_name(n, *ids):
    return isinstance(n, ast.Name) and (not ids or n.id in ids)


def is_attr(n, attr=None, base=None):
    return isinstance(n, ast.Attribute) and (attr is None or n.attr == attr) \
        and (base is None or (isinstance(n.value, ast.Name) and n.value.id == base))


def call_name(n):
    """'f' for f(...), 'x.m' dotted text for attribute calls, else None"""
    if not isinstance(n, ast.Call):
        return None
    return src(n.func)


def attr_chain(n):
    out = []
    while isinstance(n, ast.Attribute):
        out.append(n.attr)
        n = n.value
    if isinstance(n, ast.Name):
        out.append(n.id)
        return out[::-1]
    return None


# ---------------------------------------------------------------------------
# facts

def atoms(test, pol=True):
    """Decompose a branch test taken with polarity `pol` into atomic facts
    [(expr_src, polarity)] that all hold (conjunction).  A disjunction taken
    positively yields one compound fact ('or', [...])."""
    if isinstance(test, ast.UnaryOp) and isinstance(test.op, ast.Not):
        return atoms(test.operand, not pol)
    if isinstance(test, ast.BoolOp):
        if isinstance(test.op, ast.And) == pol:
            out = []
            for v in test.values:
                out += atoms(v, pol)
            return out
        # disjunction: keep as alternatives
        return [('|', tuple(tuple(atoms(v, pol)) for v in test.values))]
    if isinstance(test, ast.Compare) and len(test.ops) == 1:
        op = test.ops[0]
        neg = {ast.IsNot: ast.Is, ast.NotIn: ast.In, ast.NotEq: ast.Eq}
        for k, v in neg.items():
            if isinstance(op, k):
                t2 = ast.Compare(left=test.left, ops=[v()], comparators=test.comparators)
                return [(src(t2), not pol)]
    return [(src(test), pol)]


def exits_always(stmts):
    """True if the block cannot fall through (return/raise/continue/break on every path)."""
    for s in stmts:
        if isinstance(s, (ast.Return, ast.Raise, ast.Continue, ast.Break)):
            return True
        if isinstance(s, ast.If):
            if s.orelse and exits_always(s.body) and exits_always(s.orelse):
                return True
        if isinstance(s, ast.Try):
            if exits_always(s.finalbody):
                return True
            if exits_always(s.body + s.orelse) and all(exits_always(h.body) for h in s.handlers):
                return True
        if isinstance(s, ast.With):
            if exits_always(s.body):
                return True
    return False


def after_if(s):
    """facts that hold when control falls out of an if/elif chain"""
    if exits_always(s.body):
        out = list(atoms(s.test, False))
        if s.orelse:
            if len(s.orelse) == 1 and isinstance(s.orelse[0], ast.If):
                out += after_if(s.orelse[0])
        return out
    if s.orelse and exits_always(s.orelse):
        return list(atoms(s.test, True))
    return []


class Guards:
    """Dominating guard context of every statement and expression of a function.

    facts(node) = tuple of atomic facts known to hold whenever `node` is
    evaluated: tests of enclosing if/while/IfExp/comprehension-if, earlier
    operands of a short-circuit and/or, and the negation of earlier sibling
    `if`s whose body always exits (early-exit idiom)."""

    def __init__(self, fnode):
        self.fnode = fnode
        self.map = {}
        self.loops = {}      # id(node) -> tuple of enclosing loop nodes
        self.stmt_of = {}    # id(expr node) -> enclosing statement
        body = fnode.body if isinstance(fnode.body, list) else None
        if body is None:
            self._expr(fnode.body, (), None)
        else:
            self._block(body, (), ())

    def facts(self, node):
        return self.map.get(id(node), ())

    def has(self, node, expr_src, pol=True):
        return fact_in((expr_src, pol), self.facts(node))

    def _block(self, stmts, facts, loops):
        facts = tuple(facts)
        for s in stmts:
            self._stmt(s, facts, loops)
            if isinstance(s, ast.If):
                facts = facts + tuple(after_if(s))
            elif isinstance(s, ast.Assert):
                facts = facts + tuple(atoms(s.test, True))
            # a (re)assignment invalidates facts that mention the assigned names
            killed = assigned_names(s)
            if killed:
                facts = tuple(f for f in facts if not mentions(f, killed))

    def _stmt(self, s, facts, loops):
        self.map[id(s)] = facts
        self.loops[id(s)] = loops
        if isinstance(s, ast.If):
            self._expr(s.test, facts, s)
            self._block(s.body, facts + tuple(atoms(s.test, True)), loops)
            self._block(s.orelse, facts + tuple(atoms(s.test, False)), loops)
        elif isinstance(s, ast.While):
            killed = set()
            for b in s.body:
                for n in ast.walk(b):
                    killed |= assigned_names(n) if isinstance(n, ast.stmt) else set()
            f0 = tuple(f for f in facts if not mentions(f, killed))
            self._expr(s.test, f0, s)
            self._block(s.body, f0 + tuple(atoms(s.test, True)), loops + (s,))
            self._block(s.orelse, f0, loops)
        elif isinstance(s, (ast.For, ast.AsyncFor)):
            self._expr(s.iter, facts, s)
            killed = set(n.id for n in ast.walk(s.target) if isinstance(n, ast.Name))
            for b in s.body:
                for n in ast.walk(b):
                    killed |= assigned_names(n) if isinstance(n, ast.stmt) else set()
            f0 = tuple(f for f in facts if not mentions(f, killed))
            self._block(s.body, f0, loops + (s,))
            self._block(s.orelse, f0, loops)
        elif isinstance(s, ast.Try):
            self._block(s.body, facts, loops)
            for h in s.handlers:
                self.map[id(h)] = facts
                self._block(h.body, facts, loops)
            self._block(s.orelse, facts, loops)
            self._block(s.finalbody, facts, loops)
        elif isinstance(s, (ast.With, ast.AsyncWith)):
            for it in s.items:
                self._expr(it.context_expr, facts, s)
            self._block(s.body, facts, loops)
        elif isinstance(s, FUNC_NODES + (ast.ClassDef,)):
            pass
        else:
            for ch in ast.iter_child_nodes(s):
                if isinstance(ch, ast.expr):
                    self._expr(ch, facts, s)

    def _expr(self, e, facts, stmt):
        if e is None:
            return
        self.map[id(e)] = facts
        self.stmt_of[id(e)] = stmt
        if isinstance(e, ast.BoolOp):
            f = facts
            for v in e.values:
                self._expr(v, f, stmt)
                f = f + tuple(atoms(v, isinstance(e.op, ast.And)))
        elif isinstance(e, ast.IfExp):
            self._expr(e.test, facts, stmt)
            self._expr(e.body, facts + tuple(atoms(e.test, True)), stmt)
            self._expr(e.orelse, facts + tuple(atoms(e.test, False)), stmt)
        elif isinstance(e, (ast.ListComp, ast.SetComp, ast.GeneratorExp, ast.DictComp)):
            f = facts
            for g in e.generators:
                self._expr(g.iter, f, stmt)
                for c in g.ifs:
                    self._expr(c, f, stmt)
                    f = f + tuple(atoms(c, True))
            for ch in ([e.elt] if not isinstance(e, ast.DictComp) else [e.key, e.value]):
                self._expr(ch, f, stmt)
        elif isinstance(e, ast.Lambda):
            self._expr(e.body, (), stmt)
        else:
            for ch in ast.iter_child_nodes(e):
                if isinstance(ch, ast.expr):
                    self._expr(ch, facts, stmt)
                elif isinstance(ch, ast.keyword):
                    self._expr(ch.value, facts, stmt)
                elif isinstance(ch, ast.comprehension):
                    pass


def fact_in(fact, facts):
    for f in facts:
        if f == fact:
            return True
    return False


def assigned_names(s):
    """names rebound by a statement: plain names, and dotted paths (`self.x`) for attribute targets"""
    out = set()
    tg = []
    if isinstance(s, ast.Assign):
        tg = s.targets
    elif isinstance(s, (ast.AugAssign, ast.AnnAssign)):
        tg = [s.target]
    elif isinstance(s, (ast.For,)):
        tg = [s.target]
    elif isinstance(s, ast.With):
        tg = [i.optional_vars for i in s.items if i.optional_vars is not None]
    for t in tg:
        for n in ([t] if not isinstance(t, (ast.Tuple, ast.List)) else t.elts):
            if isinstance(n, ast.Name):
                out.add(n.id)
            elif isinstance(n, ast.Attribute):
                out.add(src(n))
            elif isinstance(n, ast.Subscript):
                out.add(src(n.value) + '[')
            elif isinstance(n, ast.Starred) and isinstance(n.value, ast.Name):
                out.add(n.value.id)
    return out


def mentions(fact, names):
    import re as _re
    if fact[0] == '|':
        return any(mentions(a, names) for alt in fact[1] for a in alt)
    text = fact[0]
    for nm in names:
        if '.' in nm or nm.endswith('['):
            if nm in text:
                return True
        elif _re.search(r'(?<![\w.])' + _re.escape(nm) + r'(?!\w)', text):
            return True
    return False


# ---------------------------------------------------------------------------
# path enumeration (small functions / loop bodies only)

class Path:
    __slots__ = ('events', 'exit')

    def __init__(self, events, exit_):
        self.events, self.exit = events, exit_

    def stmts(self):
        return [e[1] for e in self.events if e[0] == 'stmt']

    def tests(self):
        return [(e[1], e[2]) for e in self.events if e[0] == 'test']

    def facts(self):
        out = []
        for e in self.events:
            if e[0] == 'test':
                out += atoms(e[1], e[2])
        return out


def enum_paths(stmts, limit=4000):
    """Acyclic paths through a block.  Events: ('stmt', node) for simple
    statements, ('test', expr, polarity), ('enter', loopnode)/('leave', loopnode).
    Loops are taken 0 or 1 times.  exit in {'fall','return','raise','break','continue'}."""
    out = []

    def seq(i, stmts, ev, k):
        if len(out) > limit:
            raise AnalysisError('path explosion in enum_paths')
        if i == len(stmts):
            k(ev)
            return
        s = stmts[i]
        nxt = lambda ev2: seq(i + 1, stmts, ev2, k)
        if isinstance(s, ast.If):
            seq(0, s.body, ev + [('test', s.test, True)], nxt)
            seq(0, s.orelse, ev + [('test', s.test, False)], nxt)
        elif isinstance(s, (ast.For, ast.While)):
            hdr = ('enter', s)
            # zero iterations
            if isinstance(s, ast.While):
                seq(0, s.orelse, ev + [('test', s.test, False)], nxt)
            else:
                seq(0, s.orelse, ev + [('stmt', s.iter), ('skip', s)], nxt)
            # one iteration; break skips orelse; continue/fall re-join after loop (+orelse)
            pre = ev + ([('test', s.test, True)] if isinstance(s, ast.While) else [('stmt', s.iter)]) + [hdr]

            def body_done(ev2):
                seq(0, s.orelse, ev2 + [('leave', s)], nxt)
            inner_out = []
            _block_paths(s.body, pre, inner_out, limit)
            for p in inner_out:
                if p.exit in ('fall', 'continue'):
                    body_done(p.events)
                elif p.exit == 'break':
                    nxt(p.events + [('leave', s)])
                else:
                    out.append(p)
        elif isinstance(s, ast.Try):
            def after_try(ev2):
                seq(0, s.orelse, ev2, lambda ev3: seq(0, s.finalbody, ev3, nxt))
            seq(0, s.body, ev, after_try)
            for h in s.handlers:
                seq(0, h.body, ev + [('except', h)], lambda ev3: seq(0, s.finalbody, ev3, nxt))
        elif isinstance(s, ast.With):
            seq(0, s.body, ev + [('stmt', s)], nxt)
        elif isinstance(s, ast.Return):
            out.append(Path(ev + [('stmt', s)], 'return'))
        elif isinstance(s, ast.Raise):
            out.append(Path(ev + [('stmt', s)], 'raise'))
        elif isinstance(s, ast.Break):
            out.append(Path(ev, 'break'))
        elif isinstance(s, ast.Continue):
            out.append(Path(ev, 'continue'))
        elif isinstance(s, FUNC_NODES + (ast.ClassDef,)):
            nxt(ev)
        else:
            nxt(ev + [('stmt', s)])

    def _block_paths(stmts, ev, sink, limit):
        saved = out[:]
        del out[:]
        seq(0, stmts, ev, lambda ev2: out.append(Path(ev2, 'fall')))
        sink.extend(out)
        del out[:]
        out.extend(saved)

    seq(0, stmts, [], lambda ev: out.append(Path(ev, 'fall')))
    return out


def find_calls(node, pred):
    return [n for n in ast.walk(node) if isinstance(n, ast.Call) and pred(n)]


def yields_in(node):
    return [n for n in ast.walk(node) if isinstance(n, (ast.Yield, ast.YieldFrom))]


def contains(node, target):
    return any(n is target for n in ast.walk(node))


def local_defs(fnode):
    """name -> list of value nodes assigned (simple single-target assignments,
    tuple targets map each element name to ('unpack', value, index))."""
    from .model import own_nodes
    defs = {}
    for n in own_nodes(fnode):
        if isinstance(n, ast.Assign):
            for t in n.targets:
                if isinstance(t, ast.Name):
                    defs.setdefault(t.id, []).append(n.value)
                elif isinstance(t, (ast.Tuple, ast.List)):
                    for i, e in enumerate(t.elts):
                        if isinstance(e, ast.Name):
                            defs.setdefault(e.id, []).append(('unpack', n.value, i, n))
        elif isinstance(n, ast.AugAssign) and isinstance(n.target, ast.Name):
            defs.setdefault(n.target.id, []).append(('aug', n))
        elif isinstance(n, (ast.For,)):
            for e in ast.walk(n.target):
                if isinstance(e, ast.Name):
                    defs.setdefault(e.id, []).append(('iter', n.iter, n))
    return defs


# ---------------------------------------------------------------------------
# linear forms and straight-line symbolic substitution

def lin(expr):
    """linear form of an integer expression: {term_src: coeff, '': const}; None if not linear"""
    if isinstance(expr, ast.BinOp) and isinstance(expr.op, (ast.Add, ast.Sub)):
        a, b = lin(expr.left), lin(expr.right)
        if a is None or b is None:
            return None
        s = 1 if isinstance(expr.op, ast.Add) else -1
        out = dict(a)
        for k, v in b.items():
            out[k] = out.get(k, 0) + s * v
        return {k: v for k, v in out.items() if v}
    if isinstance(expr, ast.UnaryOp) and isinstance(expr.op, ast.USub):
        a = lin(expr.operand)
        return None if a is None else {k: -v for k, v in a.items()}
    if isinstance(expr, ast.Constant) and isinstance(expr.value, bool):
        return {'': int(expr.value)} if expr.value else {}
    if isinstance(expr, ast.Constant) and isinstance(expr.value, int):
        return {'': expr.value} if expr.value else {}
    if expr is None:
        return None
    return {src(expr): 1}


def lin_diff(a, b):
    """lin(a) - lin(b) or None"""
    la, lb = lin(a), lin(b)
    if la is None or lb is None:
        return None
    out = dict(la)
    for k, v in lb.items():
        out[k] = out.get(k, 0) - v
    return {k: v for k, v in out.items() if v}


class _Subst(ast.NodeTransformer):
    def __init__(self, env):
        self.env = env

    def visit_Name(self, node):
        if isinstance(node.ctx, ast.Load) and node.id in self.env:
            import copy
            return copy.deepcopy(self.env[node.id])
        return node

    def visit_Lambda(self, node):
        return node


def subst(expr, env):
    import copy
    return _Subst(env).visit(copy.deepcopy(expr))


def sym_path(path, env=None):
    """Walk the statements of a Path with copy propagation.  Yields
    (kind, node, substituted_node, env_snapshot) for 'stmt' and 'test' events.
    Names without an entry denote their value on entry (parameters)."""
    env = dict(env or {})
    out = []
    for ev in path.events:
        if ev[0] == 'test':
            out.append(('test', ev[1], subst(ev[1], env), ev[2]))
            continue
        if ev[0] != 'stmt':
            out.append((ev[0], ev[1], None, None))
            continue
        s = ev[1]
        if isinstance(s, ast.Assign) and len(s.targets) == 1 and isinstance(s.targets[0], ast.Name):
            v = subst(s.value, env)
            out.append(('assign', s, v, s.targets[0].id))
            env[s.targets[0].id] = v
        elif isinstance(s, ast.Assign) and len(s.targets) == 1 and isinstance(s.targets[0], (ast.Tuple, ast.List)) \
                and all(isinstance(e, ast.Name) for e in s.targets[0].elts):
            v = subst(s.value, env)
            out.append(('unpack', s, v, [e.id for e in s.targets[0].elts]))
            if isinstance(v, (ast.Tuple, ast.List)) and len(v.elts) == len(s.targets[0].elts):
                for e, x in zip(s.targets[0].elts, v.elts):
                    env[e.id] = x
            else:
                for i, e in enumerate(s.targets[0].elts):
                    env[e.id] = ast.Subscript(value=v, slice=ast.Constant(value=i), ctx=ast.Load())
        elif isinstance(s, ast.AugAssign) and isinstance(s.target, ast.Name):
            cur = env.get(s.target.id, ast.Name(id=s.target.id, ctx=ast.Load()))
            v = ast.BinOp(left=cur, op=s.op, right=subst(s.value, env))
            out.append(('assign', s, v, s.target.id))
            env[s.target.id] = v
        elif isinstance(s, ast.stmt):
            out.append(('stmt', s, subst(s, env), None))
        else:
            out.append(('expr', s, subst(s, env), None))
    return out, env


# ---------------------------------------------------------------------------
# local aliases of pure attribute/subscript chains (tokens = tlist.tokens)

def alias_map(fnode):
    """{name: source text} for locals with exactly one definition that is a pure Attribute/Subscript/Name chain"""
    if isinstance(fnode, ast.Lambda):
        return {}
    out = {}

    # names stored anywhere in the function, with the line of the last store; nodes that lie inside a loop
    last_store = {}
    in_loop = set()
    for n_ in ast.walk(fnode):
        if isinstance(n_, ast.Name) and isinstance(n_.ctx, (ast.Store, ast.Del)):
            last_store[n_.id] = max(last_store.get(n_.id, 0), n_.lineno)
        if isinstance(n_, (ast.For, ast.While)):
            for b_ in n_.body + n_.orelse:
                for x_ in ast.walk(b_):
                    in_loop.add(id(x_))

    def stable_index(sl, at):
        """an index expression over locals and constants none of which is assigned again after line `at`"""
        if isinstance(sl, (ast.Constant,)):
            return True
        if isinstance(sl, ast.UnaryOp):
            return stable_index(sl.operand, at)
        if isinstance(sl, ast.BinOp) and isinstance(sl.op, (ast.Add, ast.Sub)):
            return stable_index(sl.left, at) and stable_index(sl.right, at)
        if isinstance(sl, ast.Name):
            return last_store.get(sl.id, 0) < at and id(sl) not in in_loop
        return False

    def pure(e):
        if isinstance(e, ast.Name):
            return True
        if isinstance(e, ast.Attribute):
            return pure(e.value)
        if isinstance(e, ast.Subscript):
            return pure(e.value) and (isinstance(e.slice, (ast.Constant, ast.UnaryOp)) or stable_index(e.slice, getattr(e, 'lineno', 0)))
        return False
    for name, defs in local_defs(fnode).items():
        if len(defs) == 1 and isinstance(defs[0], ast.AST) and isinstance(defs[0], (ast.Attribute, ast.Subscript)) and pure(defs[0]):
            out[name] = src(defs[0])
        elif len(defs) == 1 and isinstance(defs[0], tuple) and defs[0][0] == 'unpack' and isinstance(defs[0][1], ast.Tuple) \
                and defs[0][2] < len(defs[0][1].elts):
            # a, b = X.P, X.Q
            e = defs[0][1].elts[defs[0][2]]
            if isinstance(e, (ast.Attribute, ast.Subscript)) and pure(e):
                out[name] = src(e)
    return out


def canon_text(text, amap):
    import re as _re
    for _ in range(4):
        changed = False
        for name, val in amap.items():
            new = _re.sub(r'(?<![\w.])' + _re.escape(name) + r'(?!\w)', val, text)
            if new != text:
                text, changed = new, True
        if not changed:
            break
    return text


def path_feasible(path):
    """False when the path tests a local flag against the constant it was assigned earlier on the same path
    (`flag = True ... if not flag:`); everything else is considered feasible."""
    known = {}
    for ev in path.events:
        if ev[0] == 'stmt':
            s = ev[1]
            if isinstance(s, ast.Assign):
                for t in s.targets:
                    for n in ast.walk(t):
                        if isinstance(n, ast.Name):
                            known.pop(n.id, None)
                if len(s.targets) == 1 and isinstance(s.targets[0], ast.Name) and isinstance(s.value, ast.Constant) \
                        and (isinstance(s.value.value, bool) or s.value.value is None):
                    known[s.targets[0].id] = s.value.value
            elif isinstance(s, (ast.AugAssign, ast.AnnAssign)):
                for n in ast.walk(s.target):
                    if isinstance(n, ast.Name):
                        known.pop(n.id, None)
            elif isinstance(s, (ast.For, ast.With)):
                for n in ast.walk(s):
                    if isinstance(n, ast.Name) and isinstance(n.ctx, ast.Store):
                        known.pop(n.id, None)
        elif ev[0] == 'test':
            e, pol = ev[1], ev[2]
            neg = False
            while isinstance(e, ast.UnaryOp) and isinstance(e.op, ast.Not):
                e, neg = e.operand, not neg
            if isinstance(e, ast.Name) and e.id in known:
                val = bool(known[e.id])
                if neg:
                    val = not val
                if val != pol:
                    return False
            elif isinstance(e, ast.Compare) and len(e.ops) == 1 and isinstance(e.left, ast.Name) and e.left.id in known \
                    and isinstance(e.ops[0], (ast.Is, ast.IsNot)) and isinstance(e.comparators[0], ast.Constant) and e.comparators[0].value is None:
                val = known[e.left.id] is None
                if isinstance(e.ops[0], ast.IsNot):
                    val = not val
                if neg:
                    val = not val
                if val != pol:
                    return False
    return True
