"""Call graph (DESIGN 2.3): class-hierarchy analysis by attribute name with
receiver refinements and the three repo idioms X1 (@recurse), X2 (getattr
dispatch), X3 (callbacks handed to _group)."""
import ast

from .astutil import src, is_name, is_attr
from .model import AnalysisError, FUNC_NODES, Func, Cls, own_nodes

LIST_METHODS = {'append', 'extend', 'insert', 'remove', 'pop', 'clear', 'sort', 'reverse', 'index', 'count', 'copy'}
STR_RESULT_ATTRS = {'value', 'normalized'}


class CallGraph:
    def __init__(self, repo, folder=None):
        self.repo = repo
        self.edges = {q: set() for q in repo.funcs}
        self.sites = {}            # (caller qname) -> list of (call node, [callee qnames])
        self.methods_by_name = {}
        self.props_by_name = {}
        for c in repo.classes.values():
            for name, f in c.methods.items():
                self.methods_by_name.setdefault(name, []).append(f)
                if any(is_name(d, 'property') for d in f.node.decorator_list):
                    self.props_by_name.setdefault(name, []).append(f)
        self.decorated = {}        # qname of decorated func -> list of wrapper Funcs that replace it
        self.dispatch = {}         # qname -> {'prefix':..., 'targets':[Func], 'default': Func|None}
        self.reflection = []       # inventory for A0
        self._prepare_decorators()
        for f in repo.funcs.values():
            self._scan(f)
        self._bind_callbacks()

    # ------------------------------------------------------------------
    def _prepare_decorators(self):
        for f in self.repo.funcs.values():
            if isinstance(f.node, ast.Lambda):
                continue
            for d in f.node.decorator_list:
                target = d.func if isinstance(d, ast.Call) else d
                r = self._resolve_name_value(target, f.parent or None, f.mod, f.cls)
                for t in r:
                    if isinstance(t, Func):
                        wrappers = self._all_nested(t)
                        self.decorated.setdefault(f.qname, []).extend(wrappers + [t])

    def _all_nested(self, f):
        out = []
        for n in list(f.nested.values()) + f.lambdas:
            out.append(n)
            out += self._all_nested(n)
        return out

    # ------------------------------------------------------------------
    def _resolve_name_value(self, node, func, mod, cls=None):
        """Functions/classes a Name or dotted expression may denote (list of Func/Cls)."""
        repo = self.repo
        if isinstance(node, ast.Name):
            f = func
            while f is not None:
                if node.id in f.nested:
                    return [f.nested[node.id]]
                f = f.parent
            if node.id in mod.funcs:
                return [mod.funcs[node.id]]
            if node.id in mod.classes:
                return [mod.classes[node.id]]
            imp = mod.imports.get(node.id)
            if imp and imp[0] == 'object':
                m = repo.modules.get(imp[1])
                if m is not None:
                    if imp[2] in m.funcs:
                        return [m.funcs[imp[2]]]
                    c = repo.resolve_class_expr(node, mod)
                    if c is not None:
                        return [c]
            return []
        if isinstance(node, ast.Attribute):
            m = repo.resolve_module_expr(node.value, mod)
            if m is not None:
                if node.attr in m.funcs:
                    return [m.funcs[node.attr]]
                c = repo.resolve_class_expr(node, mod)
                if c is not None:
                    return [c]
                imp = m.imports.get(node.attr)
                if imp and imp[0] == 'object' and imp[1] in repo.modules and imp[2] in repo.modules[imp[1]].funcs:
                    return [repo.modules[imp[1]].funcs[imp[2]]]
                return []
            c = repo.resolve_class_expr(node.value, mod)
            if c is not None:
                mth = repo.lookup_method(c, node.attr)
                return [mth] if mth is not None else []
        return []

    def _expand(self, f):
        """a reference to function f really denotes f or its decorator wrappers"""
        out = [f]
        out += self.decorated.get(f.qname, [])
        return out

    def _ctor(self, c):
        out = []
        init = self.repo.lookup_method(c, '__init__')
        if init is not None:
            out.append(init)
        return out

    def _enclosing_class(self, f):
        g = f
        while g is not None:
            if g.cls is not None:
                return g.cls
            g = g.parent
        return None

    def _self_methods(self, cls, name):
        """self.name on an instance of cls or of one of its subclasses"""
        out = []
        m = self.repo.lookup_method(cls, name)
        if m is not None:
            out.append(m)
        for sc in self.repo.subclasses(cls):
            m2 = self.repo.lookup_method(sc, name)
            if m2 is not None and m2 not in out:
                out.append(m2)
        return out

    def _handles_tokens(self, mod):
        """modules that can hold token objects: sql.py itself or importers of sqlparse.sql / the package root API"""
        if mod.name in ('sqlparse.sql', 'sqlparse'):
            return True
        return any(imp[0] == 'module' and imp[1] == 'sqlparse.sql' for imp in mod.imports.values()) or \
            any(imp[0] == 'object' and imp[1] == 'sqlparse.sql' for imp in mod.imports.values())

    # receiver classification -------------------------------------------
    def _receiver_kind(self, recv, f, localdefs):
        """'list' | 'str' | 'regex' | 'stdlib' | None (unknown -> CHA)"""
        if isinstance(recv, ast.Attribute) and recv.attr == 'tokens':
            return 'list'
        if isinstance(recv, ast.Attribute) and recv.attr in STR_RESULT_ATTRS:
            return 'str'
        if isinstance(recv, ast.Constant):
            return 'str' if isinstance(recv.value, str) else 'stdlib'
        if isinstance(recv, (ast.List, ast.ListComp, ast.Dict, ast.Set, ast.Tuple)):
            return 'list'
        if isinstance(recv, ast.JoinedStr):
            return 'str'
        if isinstance(recv, ast.Call):
            fn = recv.func
            if is_name(fn, 'list', 'sorted', 'reversed', 'tuple', 'dict', 'set', 'iter', 'enumerate', 'range'):
                return 'list'
            if is_name(fn, 'str', 'repr'):
                return 'str'
            if isinstance(fn, ast.Attribute) and isinstance(fn.value, ast.Name) and f.mod.imports.get(fn.value.id) == ('module', 're'):
                return 'regex'
            if isinstance(fn, ast.Attribute) and fn.attr in ('upper', 'lower', 'strip', 'format', 'join', 'replace', 'rstrip',
                                                             'lstrip', 'capitalize', 'split', 'splitlines', 'group', 'groups'):
                return 'str'
        if isinstance(recv, ast.Name):
            if recv.id in f.mod.assigns and isinstance(f.mod.assigns[recv.id], ast.Call) \
                    and src(f.mod.assigns[recv.id].func) == 're.compile':
                return 'regex'
            imp = f.mod.imports.get(recv.id)
            if imp and imp[0] == 'module' and imp[1] not in self.repo.modules and not imp[1].startswith('sqlparse'):
                return 'stdlib'
            kinds = set()
            for d in localdefs.get(recv.id, []):
                if isinstance(d, ast.AST):
                    kinds.add(self._receiver_kind(d, f, {}))
                else:
                    kinds.add(None)
            if len(kinds) == 1:
                return kinds.pop()
        return None

    # ------------------------------------------------------------------
    def _scan(self, f):
        from .astutil import local_defs
        repo = self.repo
        E = self.edges[f.qname]
        sites = self.sites.setdefault(f.qname, [])
        cls = self._enclosing_class(f)
        ldefs = local_defs(f.node) if not isinstance(f.node, ast.Lambda) else {}
        params = set(f.params)
        g = f.parent
        outer_params = set()
        while g is not None:
            outer_params |= set(g.params)
            g = g.parent
        nodes = own_nodes(f.node, include_lambdas=False)
        # lambdas / nested defs created here are values of this function
        for lf in f.lambdas:
            E.add(lf.qname)
        called_unknown = []
        for n in nodes:
            if isinstance(n, ast.Call):
                callees = self._resolve_call(n, f, cls, ldefs, params | outer_params, called_unknown)
                for c in callees:
                    E.add(c.qname)
                sites.append((n, [c.qname for c in callees]))
            elif isinstance(n, ast.Name) and isinstance(n.ctx, ast.Load):
                for t in self._resolve_name_value(n, f, f.mod, cls):
                    if isinstance(t, Func):
                        for x in self._expand(t):
                            E.add(x.qname)
            elif isinstance(n, ast.Attribute) and isinstance(n.ctx, ast.Load):
                if n.attr in self.props_by_name:
                    if is_name(n.value, 'self') and cls is not None:
                        for m in self._self_methods(cls, n.attr):
                            E.add(m.qname)
                    else:
                        for m in self.props_by_name[n.attr]:
                            E.add(m.qname)
                else:
                    for t in self._resolve_name_value(n, f, f.mod, cls):
                        if isinstance(t, Func):
                            for x in self._expand(t):
                                E.add(x.qname)
            elif isinstance(n, ast.JoinedStr):
                if self._handles_tokens(f.mod) and any(
                        isinstance(v, ast.FormattedValue) and self._receiver_kind(v.value, f, ldefs) is None for v in n.values):
                    for m in self.methods_by_name.get('__str__', []):
                        E.add(m.qname)
            elif isinstance(n, (ast.For, ast.comprehension)):
                it = n.iter
                if self._receiver_kind(it, f, ldefs) is None and not isinstance(it, ast.Call):
                    for m in self.methods_by_name.get('__iter__', []):
                        E.add(m.qname)
            elif isinstance(n, ast.Subscript) and isinstance(n.ctx, ast.Load):
                if self._receiver_kind(n.value, f, ldefs) is None:
                    for m in self.methods_by_name.get('__getitem__', []):
                        E.add(m.qname)
            elif isinstance(n, ast.With):
                pass
        f._called_unknown = called_unknown

    def _resolve_call(self, n, f, cls, ldefs, params, called_unknown):
        repo = self.repo
        fn = n.func
        out = []
        if isinstance(fn, ast.Name):
            name = fn.id
            if name in ('getattr', 'setattr', 'exec', 'eval', 'globals', 'vars', '__import__', 'delattr'):
                self.reflection.append((f, n))
            if name in ('str', 'print', 'repr'):
                if (name == 'str' or self._handles_tokens(f.mod)) and not (
                        n.args and self._receiver_kind(n.args[0], f, ldefs) is not None and name != 'print'):
                    out += self.methods_by_name.get('__str__', []) + self.methods_by_name.get('__repr__', [])
                return out
            if name == 'map' and n.args and is_name(n.args[0], 'str'):
                return list(self.methods_by_name.get('__str__', []))
            if name in ('iter', 'list', 'tuple', 'enumerate', 'reversed', 'sorted') and n.args \
                    and self._receiver_kind(n.args[0], f, ldefs) is None:
                out += self.methods_by_name.get('__iter__', [])
                return out
            if name == 'super':
                return out
            r = self._resolve_name_value(fn, f, f.mod, cls)
            if r:
                for t in r:
                    if isinstance(t, Func):
                        out += self._expand(t)
                    elif isinstance(t, Cls):
                        out += self._ctor(t)
                return out
            # local callable: X2 dispatch, parameter callback, loop variable over callbacks
            disp = self._dispatch_targets(name, f, cls, ldefs)
            if disp is not None:
                return disp
            if name in params or name in ldefs:
                called_unknown.append((name, n))
            return out
        if isinstance(fn, ast.Attribute):
            name = fn.attr
            recv = fn.value
            # super().m()
            if isinstance(recv, ast.Call) and is_name(recv.func, 'super') and cls is not None:
                for b in repo.mro(cls)[1:]:
                    if name in b.methods:
                        return [b.methods[name]]
                return out
            if is_name(recv, 'self', 'cls') and cls is not None and (recv.id in f.params or (f.parent and recv.id in params)):
                ms = self._self_methods(cls, name)
                if ms:
                    return ms
                # attribute holding a callable (self.convert)
                return out
            r = self._resolve_name_value(fn, f, f.mod, cls)
            if r:
                for t in r:
                    if isinstance(t, Func):
                        out += self._expand(t)
                    elif isinstance(t, Cls):
                        out += self._ctor(t)
                return out
            if repo.resolve_module_expr(recv, f.mod) is not None:
                return out
            kind = self._receiver_kind(recv, f, ldefs)
            if kind is not None:
                if name == 'join' and n.args and isinstance(n.args[0], ast.Call) and is_name(n.args[0].func, 'map'):
                    pass
                return out
            # CHA by name: every method of that name in the package
            out += self.methods_by_name.get(name, [])
            return out
        return out

    def _dispatch_targets(self, name, f, cls, ldefs):
        """X2: `func = getattr(self, <f'prefix_{...}'.lower()>, self.default); func(x)`"""
        defs = ldefs.get(name, [])
        for d in defs:
            if isinstance(d, ast.Call) and is_name(d.func, 'getattr') and len(d.args) >= 2 and is_name(d.args[0], 'self') \
                    and cls is not None:
                prefix = self._fstring_prefix(d.args[1], ldefs)
                if prefix is None:
                    raise AnalysisError(f'{f.mod.relpath}:{d.lineno}: dynamic getattr(self, ...) with a name the analysis cannot '
                                        'resolve (assumption A0)')
                targets = []
                classes = [cls] + [c for c in self.repo.subclasses(cls) if c is not cls]
                for c in classes:
                    for c2 in self.repo.mro(c):
                        for mname, m in c2.methods.items():
                            if mname.startswith(prefix) and m not in targets:
                                targets.append(m)
                default = None
                if len(d.args) == 3 and is_attr(d.args[2], None, 'self'):
                    dm = self.repo.lookup_method(cls, d.args[2].attr)
                    if dm is not None:
                        default = dm
                        if dm not in targets:
                            targets.append(dm)
                self.dispatch[f.qname] = {'prefix': prefix, 'targets': targets, 'default': default, 'node': d, 'cls': cls}
                return targets
        return None

    def _fstring_prefix(self, node, ldefs):
        # func_name.lower()  /  func_name  / f'_process_{...}'
        if isinstance(node, ast.Call) and isinstance(node.func, ast.Attribute) and node.func.attr in ('lower',) and not node.args:
            return self._fstring_prefix(node.func.value, ldefs)
        if isinstance(node, ast.Name):
            ds = ldefs.get(node.id, [])
            if len(ds) == 1 and isinstance(ds[0], ast.AST):
                return self._fstring_prefix(ds[0], ldefs)
            return None
        if isinstance(node, ast.JoinedStr) and node.values and isinstance(node.values[0], ast.Constant):
            return node.values[0].value
        if isinstance(node, ast.Constant) and isinstance(node.value, str):
            return node.value
        return None

    # ------------------------------------------------------------------
    def _bind_callbacks(self):
        """A call of a local name inside F that is a parameter of F (or of an
        enclosing function), or a local derived from one, may call every
        function/class value that flows into that parameter at some call site
        (values are forwarded through parameters to a fixpoint)."""
        repo = self.repo
        from .astutil import local_defs
        passed = {}     # (callee qname, param name) -> set of Func/Cls

        def param_map(callee, call, bound):
            """[(param name, arg expr)] for a call of Func `callee`"""
            ps = list(callee.params)
            if bound and ps and ps[0] in ('self', 'cls'):
                ps = ps[1:]
            out = []
            for i, a in enumerate(call.args):
                if isinstance(a, ast.Starred):
                    continue
                if i < len(ps):
                    out.append((ps[i], a))
            for k in call.keywords:
                if k.arg is not None:
                    out.append((k.arg, k.value))
            return out

        ldefs_cache = {}

        def ldefs_of(f):
            if f.qname not in ldefs_cache:
                ldefs_cache[f.qname] = local_defs(f.node) if not isinstance(f.node, ast.Lambda) else {}
            return ldefs_cache[f.qname]

        def owner_of_param(f, name):
            g = f
            while g is not None:
                if name in g.params:
                    return g
                g = g.parent
            return None

        # decorators: the decorated function flows into the wrapper factory
        for dq, wrappers in self.decorated.items():
            d = repo.funcs[dq]
            for w in wrappers:
                if w.params and w.params[0] not in ('self', 'cls'):
                    passed.setdefault((w.qname, w.params[0]), set()).add(d)
        changed = True
        rounds = 0
        while changed:
            changed = False
            rounds += 1
            if rounds > 50:
                raise AnalysisError('callback binding did not converge')
            for caller, sites in self.sites.items():
                cf = repo.funcs[caller]
                cls = self._enclosing_class(cf)
                ld = ldefs_of(cf)
                for call, callees in sites:
                    for cq in callees:
                        callee = repo.funcs[cq]
                        bound = isinstance(call.func, ast.Attribute) or callee.name == '__init__'
                        for pname, a in param_map(callee, call, bound):
                            vals = set(self._func_values(a, cf, cls, ld, 0))
                            if isinstance(a, ast.Name):
                                o = owner_of_param(cf, a.id)
                                if o is not None:
                                    vals |= passed.get((o.qname, a.id), set())
                            if vals:
                                s = passed.setdefault((cq, pname), set())
                                n0 = len(s)
                                s |= vals
                                if len(s) != n0:
                                    changed = True
        self.passed = passed
        for f in repo.funcs.values():
            unknown = getattr(f, '_called_unknown', [])
            ld = ldefs_of(f)
            cls = self._enclosing_class(f)
            for name, call in unknown:
                pool = set()
                seen = set()
                work = [name]
                while work:
                    nm = work.pop()
                    if nm in seen:
                        continue
                    seen.add(nm)
                    o = owner_of_param(f, nm)
                    if o is not None:
                        pool |= passed.get((o.qname, nm), set())
                    g = f
                    while g is not None:
                        for d in ldefs_of(g).get(nm, []):
                            expr = d if isinstance(d, ast.AST) else d[1] if d[0] in ('unpack', 'iter') else None
                            if expr is None:
                                continue
                            pool |= set(self._func_values(expr, g, cls, ldefs_of(g), 0))
                            for n2 in ast.walk(expr):
                                if isinstance(n2, ast.Name):
                                    work.append(n2.id)
                                elif isinstance(n2, ast.Lambda):
                                    for lf in g.lambdas:
                                        if lf.node is n2:
                                            pool.add(lf)
                        g = g.parent
                targets = []
                for t in pool:
                    if isinstance(t, Func):
                        targets.append(t)
                    elif isinstance(t, Cls):
                        targets += self._ctor(t)
                for t in targets:
                    self.edges[f.qname].add(t.qname)
                for i, (c, cs) in enumerate(self.sites[f.qname]):
                    if c is call:
                        self.sites[f.qname][i] = (c, sorted(set(cs) | {t.qname for t in targets}))

    def _func_values(self, a, cf, cls, ldefs, depth):
        out = []
        if depth > 3:
            return out
        if isinstance(a, ast.Lambda):
            for lf in cf.lambdas:
                if lf.node is a:
                    out.append(lf)
        elif isinstance(a, (ast.Name, ast.Attribute)):
            r = self._resolve_name_value(a, cf, cf.mod, cls)
            for t in r:
                if isinstance(t, Func):
                    out += self._expand(t)
                elif isinstance(t, Cls):
                    out.append(t)
            if not r and isinstance(a, ast.Name):
                for d in ldefs.get(a.id, []):
                    if isinstance(d, ast.AST):
                        out += self._func_values(d, cf, cls, ldefs, depth + 1)
        elif isinstance(a, (ast.Tuple, ast.List)):
            for e in a.elts:
                out += self._func_values(e, cf, cls, ldefs, depth + 1)
        elif isinstance(a, ast.ListComp):
            out += self._func_values(a.elt, cf, cls, ldefs, depth + 1)
        elif isinstance(a, ast.IfExp):
            out += self._func_values(a.body, cf, cls, ldefs, depth + 1) + self._func_values(a.orelse, cf, cls, ldefs, depth + 1)
        return out

    # ------------------------------------------------------------------
    def reachable(self, roots):
        seen = set()
        work = [r if isinstance(r, str) else r.qname for r in roots]
        while work:
            a = work.pop()
            if a in seen:
                continue
            seen.add(a)
            work.extend(self.edges.get(a, ()))
        return seen

    def callees_of_call(self, caller_q, call):
        for c, cs in self.sites.get(caller_q, []):
            if c is call:
                return cs
        return []

    def sccs(self):
        from .rx import _scc
        nodes = list(self.edges)
        comp = _scc(nodes, lambda v: [w for w in self.edges[v] if w in self.edges])
        groups = {}
        for v, c in comp.items():
            groups.setdefault(c, []).append(v)
        return [sorted(g) for g in groups.values()]

    def recursive_functions(self):
        rec = set()
        for g in self.sccs():
            if len(g) > 1 or g[0] in self.edges[g[0]]:
                rec.update(g)
        return rec

    def path(self, a, targets):
        """a shortest call path a -> some t in targets (list of qnames) or None"""
        prev = {a: None}
        work = [a]
        while work:
            nxt = []
            for v in work:
                if v in targets and v != a:
                    out = []
                    while v is not None:
                        out.append(v)
                        v = prev[v]
                    return out[::-1]
                for w in sorted(self.edges.get(v, ())):
                    if w not in prev:
                        prev[w] = v
                        nxt.append(w)
            work = nxt
        return None


def get_cg(ctx):
    return ctx.shared('cg', lambda: CallGraph(ctx.repo, ctx.folder))
