"""Constant folder over the AST (DESIGN 2.2).

Folds string/tuple/list/dict literals, implicit concatenation, ``+`` on
strings/tuples/lists, attribute chains rooted at the ``tokens`` module
(token types), module-level and class-level name references, and
``re.compile(<const>, <flags>)``.  Anything else raises NotConst."""
import ast
import re

from .model import AnalysisError, Cls, Func, Mod


class NotConst(Exception):
    pass


class TT(tuple):
    """A token type = the tuple of its attribute path under tokens.Token.
    ``x in T.Keyword`` is prefix containment, ``is`` is path equality
    (mirrors _TokenType.__contains__; re-checked by check_tokentype_semantics)."""

    def contains(self, other):
        return other is not None and isinstance(other, TT) and tuple(other[:len(self)]) == tuple(self)

    def __repr__(self):
        return 'Token' + ('.' if self else '') + '.'.join(self)

    __str__ = __repr__


class Marker:
    def __init__(self, name):
        self.name = name

    def __repr__(self):
        return f'<marker {self.name}>'


class Rx:
    def __init__(self, pattern, flags):
        self.pattern, self.flags = pattern, flags

    def __repr__(self):
        return f'Rx({self.pattern!r}, {self.flags})'


class ClsRef:
    def __init__(self, cls):
        self.cls = cls

    def __eq__(self, o):
        return isinstance(o, ClsRef) and o.cls is self.cls

    def __hash__(self):
        return hash(self.cls.qname)

    def __repr__(self):
        return f'<class {self.cls.qname}>'


class FuncRef:
    def __init__(self, func):
        self.func = func

    def __repr__(self):
        return f'<func {self.func.qname}>'


class ModRef:
    def __init__(self, mod):
        self.mod = mod


RE_FLAGS = {'IGNORECASE': re.IGNORECASE, 'I': re.IGNORECASE, 'UNICODE': re.UNICODE, 'U': re.UNICODE,
            'VERBOSE': re.VERBOSE, 'X': re.VERBOSE, 'MULTILINE': re.MULTILINE, 'M': re.MULTILINE,
            'DOTALL': re.DOTALL, 'S': re.DOTALL, 'ASCII': re.ASCII, 'A': re.ASCII}


class Folder:
    def __init__(self, repo):
        self.repo = repo
        self.tokens_mod = repo.modules.get('sqlparse.tokens')
        if self.tokens_mod is None:
            raise AnalysisError('sqlparse/tokens.py not found')
        self._modcache = {}
        self._inprogress = set()
        self._check_tokens_module()

    # ------------------------------------------------------------------
    def _check_tokens_module(self):
        """tokens.Token must be an instance of the tuple-subclass whose
        __getattr__ creates child types by path extension."""
        m = self.tokens_mod
        tok = m.assigns.get('Token')
        ok = isinstance(tok, ast.Call) and isinstance(tok.func, ast.Name) and not tok.args \
            and tok.func.id in m.classes
        if not ok:
            raise AnalysisError('tokens.Token is no longer `_TokenType()`')
        self.tokentype_cls = m.classes[tok.func.id]

    def module_value(self, mod, name):
        key = (mod.name, name)
        if key in self._modcache:
            return self._modcache[key]
        if key in self._inprogress:
            raise NotConst(f'cyclic definition {key}')
        self._inprogress.add(key)
        try:
            v = self._module_value(mod, name)
        finally:
            self._inprogress.discard(key)
        self._modcache[key] = v
        return v

    def _module_value(self, mod, name):
        if mod is self.tokens_mod and name == 'Token':
            return TT(())
        if name in mod.assigns:
            return self.eval(mod.assigns[name], mod)
        if name in mod.classes:
            return ClsRef(mod.classes[name])
        if name in mod.funcs:
            return FuncRef(mod.funcs[name])
        imp = mod.imports.get(name)
        if imp:
            if imp[0] == 'module':
                m = self.repo.modules.get(imp[1])
                if m is not None:
                    return ModRef(m)
                if imp[1] == 're':
                    return ModRef(None)
                raise NotConst(f'external module {imp[1]}')
            m = self.repo.modules.get(imp[1])
            if m is not None:
                sub = self.repo.modules.get(f'{imp[1]}.{imp[2]}')
                if sub is not None and imp[2] not in m.assigns and imp[2] not in m.classes:
                    return ModRef(sub)
                return self.module_value(m, imp[2])
            raise NotConst(f'external object {imp[1]}.{imp[2]}')
        raise NotConst(f'name {name} not a module-level constant of {mod.name}')

    # ------------------------------------------------------------------
    def eval(self, node, mod, env=None, cls=None):
        """env: dict local name -> value (already folded) ; cls: Cls for self.X"""
        ev = lambda n: self.eval(n, mod, env, cls)
        if isinstance(node, ast.Constant):
            return node.value
        if isinstance(node, ast.Tuple):
            return tuple(ev(e) for e in node.elts)
        if isinstance(node, ast.List):
            return [ev(e) for e in node.elts]
        if isinstance(node, ast.Set):
            return set(ev(e) for e in node.elts)
        if isinstance(node, ast.Dict):
            if any(k is None for k in node.keys):
                raise NotConst('dict unpacking')
            return {ev(k): ev(v) for k, v in zip(node.keys, node.values)}
        if isinstance(node, ast.JoinedStr):
            raise NotConst('f-string')
        if isinstance(node, ast.Name):
            if env is not None and node.id in env:
                return env[node.id]
            if node.id in ('True', 'False', 'None'):
                return {'True': True, 'False': False, 'None': None}[node.id]
            if cls is not None and node.id not in ('self', 'cls'):
                # a class-level statement refers to earlier class-level names directly
                v, owner = self.repo.lookup_class_attr(cls, node.id)
                if v is not None and getattr(self, '_cls_depth', 0) < 6:
                    self._cls_depth = getattr(self, '_cls_depth', 0) + 1
                    try:
                        return self.eval(v, owner.mod, None, owner)
                    except NotConst:
                        pass
                    finally:
                        self._cls_depth -= 1
            return self.module_value(mod, node.id)
        if isinstance(node, ast.Attribute):
            if isinstance(node.value, ast.Name) and node.value.id in ('self', 'cls') and cls is not None \
                    and not (env and node.value.id in env):
                v, owner = self.repo.lookup_class_attr(cls, node.attr)
                if v is None:
                    raise NotConst(f'self.{node.attr} is not a class-level constant')
                return self.eval(v, owner.mod, None, owner)
            base = ev(node.value)
            return self.getattr(base, node.attr)
        if isinstance(node, ast.BinOp):
            l, r = ev(node.left), ev(node.right)
            if isinstance(node.op, ast.Add):
                if isinstance(l, TT) or isinstance(r, TT):
                    raise NotConst('arithmetic on token type')
                if type(l) is type(r) and isinstance(l, (str, tuple, list, int)):
                    return l + r
            if isinstance(node.op, ast.BitOr) and isinstance(l, int) and isinstance(r, int):
                return l | r
            if isinstance(node.op, ast.Mult) and isinstance(l, (str, int)) and isinstance(r, int):
                return l * r
            if isinstance(node.op, ast.Sub) and isinstance(l, int) and isinstance(r, int):
                return l - r
            if isinstance(node.op, ast.Mod) and isinstance(l, str) and isinstance(r, (str, int, tuple)) and not isinstance(r, TT):
                if isinstance(r, tuple) and not all(isinstance(x, (str, int)) for x in r):
                    raise NotConst('format operand')
                try:
                    return l % r
                except (TypeError, ValueError):
                    raise NotConst('%-format')
            raise NotConst(ast.dump(node.op))
        if isinstance(node, ast.UnaryOp) and isinstance(node.op, ast.USub):
            v = ev(node.operand)
            if isinstance(v, int):
                return -v
            raise NotConst('unary')
        if isinstance(node, ast.Call):
            f = node.func
            # re.compile(...)
            if isinstance(f, ast.Attribute) and f.attr == 'compile' and isinstance(f.value, ast.Name) \
                    and mod.imports.get(f.value.id) == ('module', 're'):
                pat = ev(node.args[0])
                flags = 0
                if len(node.args) > 1:
                    flags = self._flags(node.args[1], mod)
                for kw in node.keywords:
                    if kw.arg == 'flags':
                        flags = self._flags(kw.value, mod)
                if isinstance(pat, bytes):
                    pat = pat.decode('latin-1')
                if not isinstance(pat, str):
                    raise NotConst('pattern')
                return Rx(pat, flags)
            if isinstance(f, ast.Name) and f.id == 'object' and not node.args:
                return Marker(f'object()@{mod.name}:{node.lineno}')
            if isinstance(f, ast.Name) and f.id in ('tuple', 'list') and len(node.args) == 1:
                v = ev(node.args[0])
                return tuple(v) if f.id == 'tuple' else list(v)
            # pure string methods on a constant
            if isinstance(f, ast.Attribute) and f.attr in ('join', 'upper', 'lower', 'format', 'strip', 'replace') \
                    and (not node.keywords or f.attr == 'format') and all(k.arg is not None for k in node.keywords):
                base = ev(f.value)
                if isinstance(base, str):
                    args = [ev(a) for a in node.args]
                    if f.attr == 'format' and node.keywords:
                        kw = {k.arg: ev(k.value) for k in node.keywords}
                        if all(isinstance(x, (str, int)) for x in list(kw.values()) + args):
                            try:
                                return base.format(*args, **kw)
                            except (KeyError, IndexError, ValueError):
                                raise NotConst('format')
                        raise NotConst('format operand')
                    if f.attr == 'join' and len(args) == 1 and isinstance(args[0], (tuple, list)) and all(isinstance(x, str) for x in args[0]):
                        return base.join(args[0])
                    if f.attr in ('upper', 'lower', 'strip') and not args:
                        return getattr(base, f.attr)()
                    if f.attr in ('format', 'replace') and all(isinstance(x, (str, int)) for x in args):
                        return getattr(base, f.attr)(*args)
            # a module-level builder function (string/table fragments evaluated at import)
            if isinstance(f, ast.Name) and f.id in getattr(mod, 'funcs', {}) and not (env and f.id in env):
                fn = mod.funcs[f.id].node
                a = fn.args
                if not a.kwarg and not any(isinstance(x, ast.Starred) for x in node.args) and not fn.decorator_list \
                        and all(k.arg is not None for k in node.keywords):
                    args = [ev(x) for x in node.args]
                    params = [x.arg for x in a.posonlyargs + a.args]
                    e2 = {}
                    if len(args) > len(params) and not a.vararg:
                        raise NotConst('call arity')
                    for p_, v in zip(params, args):
                        e2[p_] = v
                    for k in node.keywords:
                        if k.arg in e2 or k.arg not in params + [x.arg for x in a.kwonlyargs]:
                            raise NotConst('call keyword')
                        e2[k.arg] = ev(k.value)
                    for p_, d in zip(params[len(params) - len(a.defaults):], a.defaults):
                        if p_ not in e2:
                            e2[p_] = self.eval(d, mod, None, cls)
                    for p_, d in zip(a.kwonlyargs, a.kw_defaults):
                        if p_.arg not in e2 and d is not None:
                            e2[p_.arg] = self.eval(d, mod, None, cls)
                    if any(p_ not in e2 for p_ in params):
                        raise NotConst('call arity')
                    if a.vararg:
                        e2[a.vararg.arg] = tuple(args[len(params):])
                    self._depth = getattr(self, '_depth', 0) + 1
                    try:
                        if self._depth > 8:
                            raise NotConst('helper recursion')
                        return self._run_helper(fn, mod, e2, cls)
                    finally:
                        self._depth -= 1
            raise NotConst('call')
        if isinstance(node, ast.Subscript):
            base = ev(node.value)
            idx = ev(node.slice) if not isinstance(node.slice, ast.Slice) else None
            if idx is not None and isinstance(base, (tuple, list, str, dict)):
                try:
                    return base[idx]
                except Exception:
                    raise NotConst('subscript')
            raise NotConst('subscript')
        if isinstance(node, ast.IfExp):
            if env is None:
                raise NotConst('conditional')
            t = ev(node.test)
            if not isinstance(t, (bool, int, str, type(None), tuple, list)) or isinstance(t, TT):
                raise NotConst('conditional on a non-constant')
            return ev(node.body) if t else ev(node.orelse)
        if env is not None and isinstance(node, ast.UnaryOp) and isinstance(node.op, ast.Not):
            v = ev(node.operand)
            if isinstance(v, (bool, int, str, type(None))):
                return not v
        if env is not None and isinstance(node, ast.Compare) and len(node.ops) == 1:
            l, r = ev(node.left), ev(node.comparators[0])
            if all(isinstance(x, (bool, int, str, type(None))) for x in (l, r)):
                op = node.ops[0]
                if isinstance(op, ast.Eq):
                    return l == r
                if isinstance(op, ast.NotEq):
                    return l != r
                if isinstance(op, ast.Is):
                    return l is r
                if isinstance(op, ast.IsNot):
                    return l is not r
        if env is not None and isinstance(node, ast.BoolOp):
            last = None
            for v_ in node.values:
                last = ev(v_)
                if not isinstance(last, (bool, int, str, type(None))):
                    raise NotConst('boolean operand')
                if isinstance(node.op, ast.And) and not last:
                    return last
                if isinstance(node.op, ast.Or) and last:
                    return last
            return last
        raise NotConst(type(node).__name__)

    def _run_helper(self, fn, mod, e2, cls):
        """a module-level builder function with a straight-line / if-else body over constants (evaluated at import in the
        real program): assignments to names, `+=` on strings, if/else on foldable tests, one return per path"""
        class _Ret(Exception):
            def __init__(self, v):
                self.v = v

        def block(stmts):
            for s_ in stmts:
                if isinstance(s_, ast.Expr) and isinstance(s_.value, ast.Constant):
                    continue
                if isinstance(s_, ast.Return):
                    raise _Ret(self.eval(s_.value, mod, e2, cls) if s_.value is not None else None)
                if isinstance(s_, ast.Assign) and len(s_.targets) == 1 and isinstance(s_.targets[0], ast.Name):
                    e2[s_.targets[0].id] = self.eval(s_.value, mod, e2, cls)
                elif isinstance(s_, ast.AugAssign) and isinstance(s_.target, ast.Name) and isinstance(s_.op, ast.Add):
                    cur = self.eval(ast.Name(id=s_.target.id, ctx=ast.Load()), mod, e2, cls)
                    v = self.eval(s_.value, mod, e2, cls)
                    if type(cur) is not type(v) or not isinstance(cur, (str, tuple, list, int)):
                        raise NotConst('augmented assignment')
                    e2[s_.target.id] = cur + v
                elif isinstance(s_, ast.If):
                    t = self.eval(s_.test, mod, e2, cls)
                    if not isinstance(t, (bool, int, str, type(None), tuple, list)) or isinstance(t, TT):
                        raise NotConst('helper branches on a non-constant')
                    block(s_.body if t else s_.orelse)
                elif isinstance(s_, ast.For) and not s_.orelse and isinstance(s_.target, (ast.Name, ast.Tuple)):
                    it = s_.iter
                    if isinstance(it, ast.Call) and isinstance(it.func, ast.Name) and it.func.id == 'range' and not it.keywords and 'range' not in e2:
                        ra = [self.eval(a_, mod, e2, cls) for a_ in it.args]
                        if not ra or not all(type(x) is int for x in ra):
                            raise NotConst('range operand')
                        seq = list(range(*ra))
                    else:
                        seq = self.eval(it, mod, e2, cls)
                    if not isinstance(seq, (tuple, list, str)) or len(seq) > 256:
                        raise NotConst('helper loops over a non-constant')
                    for item in seq:
                        if isinstance(s_.target, ast.Name):
                            e2[s_.target.id] = item
                        else:
                            if not isinstance(item, (tuple, list)) or len(item) != len(s_.target.elts) or not all(isinstance(x, ast.Name) for x in s_.target.elts):
                                raise NotConst('helper loop target')
                            for x, v in zip(s_.target.elts, item):
                                e2[x.id] = v
                        block(s_.body)
                else:
                    raise NotConst(f'helper statement {type(s_).__name__}')
        try:
            block(fn.body)
        except _Ret as r:
            return r.v
        return None

    def _flags(self, node, mod):
        if isinstance(node, ast.BinOp) and isinstance(node.op, ast.BitOr):
            return self._flags(node.left, mod) | self._flags(node.right, mod)
        if isinstance(node, ast.Attribute) and isinstance(node.value, ast.Name) \
                and mod.imports.get(node.value.id) == ('module', 're') and node.attr in RE_FLAGS:
            return RE_FLAGS[node.attr]
        if isinstance(node, ast.Constant) and isinstance(node.value, int):
            return node.value
        if isinstance(node, ast.Name):
            # local FLAGS = re.I | re.U is handled by callers through env; a module-level constant is folded here
            if node.id in mod.assigns:
                return self._flags(mod.assigns[node.id], mod)
            raise NotConst('flags name')
        raise NotConst('flags')

    def getattr(self, base, attr):
        if isinstance(base, TT):
            if attr.startswith('__'):
                raise NotConst('dunder on token type')
            # alias attributes set on the root: Token.String = String, ...
            if base == () :
                al = self._root_aliases().get(attr)
                if al is not None:
                    return al
            return TT(tuple(base) + (attr,))
        if isinstance(base, ModRef):
            if base.mod is None:
                raise NotConst('stdlib attr')
            return self.module_value(base.mod, attr)
        if isinstance(base, ClsRef):
            v, owner = self.repo.lookup_class_attr(base.cls, attr)
            if v is not None:
                return self.eval(v, owner.mod, None, owner)
            m = self.repo.lookup_method(base.cls, attr)
            if m is not None:
                return FuncRef(m)
            raise NotConst(f'{base.cls.qname}.{attr}')
        raise NotConst(f'attribute {attr} of {type(base).__name__}')

    def _root_aliases(self):
        """`Token.String = String` style assignments in tokens.py."""
        if not hasattr(self, '_aliases'):
            self._aliases = {}
            for s in self.tokens_mod.tree.body:
                if isinstance(s, ast.Assign) and len(s.targets) == 1 and isinstance(s.targets[0], ast.Attribute) \
                        and isinstance(s.targets[0].value, ast.Name) and s.targets[0].value.id == 'Token':
                    try:
                        self._aliases[s.targets[0].attr] = self.eval(s.value, self.tokens_mod)
                    except NotConst:
                        pass
        return self._aliases

    # convenience -------------------------------------------------------
    def try_eval(self, node, mod, env=None, cls=None, default=None):
        try:
            return self.eval(node, mod, env, cls)
        except NotConst:
            return default


def tt_repr(v):
    if isinstance(v, TT):
        return repr(v)
    if isinstance(v, (tuple, list)):
        return '(' + ', '.join(tt_repr(x) for x in v) + ')'
    return repr(v)
