"""Effect extraction (DESIGN 2.5)."""
import ast

from .astutil import src, is_name, is_attr, local_defs
from .model import own_nodes, Cls, Func

MUTATORS = {'append', 'extend', 'insert', 'remove', 'pop', 'clear', 'sort', 'reverse', '__setitem__', '__delitem__'}
TREE_API = {'group_tokens', 'insert_before', 'insert_after'}


class Effect:
    __slots__ = ('kind', 'node', 'func', 'detail', 'recv', 'attr')

    def __init__(self, kind, node, func, detail='', recv=None, attr=None):
        self.kind, self.node, self.func, self.detail, self.recv, self.attr = kind, node, func, detail, recv, attr

    @property
    def loc(self):
        return f'{self.func.mod.relpath}:{self.node.lineno}'

    def __repr__(self):
        return f'<{self.kind} {self.detail} @{self.loc}>'


def tokens_aliases(fnode):
    """local names bound to `<x>.tokens` (aliases of a child list)"""
    out = {}
    for name, defs in local_defs(fnode).items():
        for d in defs:
            if isinstance(d, ast.Attribute) and d.attr == 'tokens':
                out[name] = d
    return out


def is_tokens_expr(e, aliases):
    if isinstance(e, ast.Attribute) and e.attr == 'tokens':
        return True
    if isinstance(e, ast.Name) and e.id in aliases:
        return True
    return False


def effects_of(func, cg=None):
    """list of Effect for one function (own nodes, lambdas included)."""
    if isinstance(func.node, ast.Lambda):
        nodes = own_nodes(func.node)
        aliases = {}
    else:
        nodes = own_nodes(func.node, include_lambdas=False)
        aliases = tokens_aliases(func.node)
    out = []
    repo_classes = None
    for n in nodes:
        if isinstance(n, (ast.Assign, ast.AugAssign, ast.AnnAssign)):
            tg = n.targets if isinstance(n, ast.Assign) else [n.target]
            for t0 in tg:
                for t in (t0.elts if isinstance(t0, (ast.Tuple, ast.List)) else [t0]):
                    if isinstance(t, ast.Attribute):
                        if t.attr == 'tokens':
                            out.append(Effect('tokens-rebind', n, func, src(n), src(t.value), 'tokens'))
                        else:
                            out.append(Effect('attr-store', n, func, src(n), src(t.value), t.attr))
                    elif isinstance(t, ast.Subscript):
                        if is_tokens_expr(t.value, aliases):
                            out.append(Effect('list-mut', n, func, src(n), src(t.value), 'setitem'))
                        else:
                            out.append(Effect('item-store', n, func, src(n), src(t.value), 'setitem'))
        elif isinstance(n, ast.Delete):
            for t in n.targets:
                if isinstance(t, ast.Subscript) and is_tokens_expr(t.value, aliases):
                    out.append(Effect('list-mut', n, func, src(n), src(t.value), 'del'))
                elif isinstance(t, ast.Attribute):
                    out.append(Effect('attr-store', n, func, src(n), src(t.value), t.attr))
        elif isinstance(n, ast.Call):
            f = n.func
            if isinstance(f, ast.Attribute):
                if f.attr in MUTATORS and is_tokens_expr(f.value, aliases):
                    out.append(Effect('list-mut', n, func, src(n), src(f.value), f.attr))
                elif f.attr in TREE_API:
                    out.append(Effect('tree-api', n, func, src(n), src(f.value), f.attr))
            elif is_name(f, 'setattr') and len(n.args) == 3:
                a = n.args[1]
                attr = a.value if isinstance(a, ast.Constant) else None
                out.append(Effect('attr-store', n, func, src(n), src(n.args[0]), attr))
            # constructions of token classes
            if cg is not None:
                r = cg._resolve_name_value(f, func, func.mod, cg._enclosing_class(func)) if isinstance(f, (ast.Name, ast.Attribute)) else []
                for t in r:
                    if isinstance(t, Cls) and t.mod.name == 'sqlparse.sql':
                        out.append(Effect('construct', n, func, src(n), None, t.name))
                if isinstance(f, ast.Name) and not r:
                    # class-valued parameter called: grp_cls(subtokens) / type(x)(...)
                    vals = set()
                    g = func
                    while g is not None:
                        vals |= cg.passed.get((g.qname, f.id), set())
                        g = g.parent
                    if any(isinstance(v, Cls) and v.mod.name == 'sqlparse.sql' for v in vals):
                        out.append(Effect('construct', n, func, src(n), None, f.id))
        elif isinstance(n, ast.Raise):
            out.append(Effect('raise', n, func, src(n)))
        elif isinstance(n, ast.Global):
            out.append(Effect('global-decl', n, func, src(n)))
    return out
