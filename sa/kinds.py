"""Predicate evaluation over token kinds (DESIGN 2.7): the operand-kind matrix
of the _group clients."""
import ast

from . import miniev as ME
from .astutil import src, is_name, is_attr, local_defs
from .cg import get_cg
from .fold import TT, NotConst, ClsRef
from .model import own_nodes, Func, Cls

GENERIC = '⟂generic⟂'


def check_imt_shape(ctx):
    """miniev.Evaluator.imt mirrors utils.imt; re-check the source shape it mirrors."""
    f = ctx.repo.func('sqlparse.utils.imt')
    text = ' '.join(src(f.node).split())
    needed = ['if token is None: return False', 'if i and isinstance(token, i): return True',
              'any((token.match(*pattern) for pattern in m))', 'elif token.match(*m): return True',
              'any((token.ttype in ttype for ttype in t))', 'elif token.ttype in t: return True', 'return False']
    missing = [n for n in needed if n not in text]
    ctx.need(not missing, f'utils.imt changed shape (missing {missing}): the abstract evaluator must be updated')
    g = ctx.repo.func('sqlparse.tokens._TokenType.__contains__')
    t2 = ' '.join(src(g.node).split())
    ctx.need('item is not None and (self is item or item[:len(self)] == self)' in t2,
             '_TokenType.__contains__ changed shape: prefix containment is assumed by the folder')


def group_classes(ctx):
    repo = ctx.repo
    tl = repo.cls('sqlparse.sql.TokenList')
    return [c for c in repo.classes.values() if c.mod.name == 'sqlparse.sql' and tl in repo.mro(c)]


def leaf_kinds(ctx, T, extra_words=()):
    """abstract leaves: one generic kind per token type the lexer can emit, plus concrete punctuation / keywords"""
    repo = ctx.repo
    kinds = []
    types = set()
    for r in T.lex:
        if isinstance(r.action, TT):
            types.add(tuple(r.action))
    for _, d in T.kw:
        for v in d.values():
            if isinstance(v, TT):
                types.add(tuple(v))
    types.add(('Name',))
    types.add(('Error',))
    for t in sorted(types):
        kinds.append(ME.AbsToken(repo, TT(t), GENERIC, label=f'{TT(t)!r}:*'))
    P = TT(('Punctuation',))
    for ch in ['(', ')', '[', ']', ',', ';', '.', ':', '::']:
        kinds.append(ME.AbsToken(repo, P, ch))
    for w in extra_words:
        tt = T.lookup(w)
        r, end, t2 = T.lex_one(w + ' ', 0)
        if end == len(w):
            tt = t2
        kinds.append(ME.AbsToken(repo, tt, w))
    return kinds


class GroupClient:
    """one call `_group(tlist, cls, match, valid_prev, valid_next, post, ...)`"""

    def __init__(self, ctx, f, call):
        self.ctx, self.f, self.call = ctx, f, call
        repo = ctx.repo
        g = repo.func('sqlparse.engine.grouping._group')
        params = g.params
        bound = {}
        for i, a in enumerate(call.args):
            bound[params[i]] = a
        for k in call.keywords:
            bound[k.arg] = k.value
        self.bound = bound
        self.cls_expr = bound.get('cls')
        ld = local_defs(f.node)

        def resolve(e):
            if e is None:
                return None
            if isinstance(e, ast.Lambda):
                return next((l for l in f.lambdas if l.node is e), None)
            if isinstance(e, ast.Name):
                if e.id in f.nested:
                    return f.nested[e.id]
                for d in ld.get(e.id, []):
                    if isinstance(d, ast.Name):
                        return resolve(d)
            return None
        self.match = resolve(bound.get('match'))
        self.valid_prev = resolve(bound.get('valid_prev'))
        self.valid_next = resolve(bound.get('valid_next'))
        self.post = resolve(bound.get('post'))
        # defaults of _group
        defaults = dict(zip(params[-len(g.node.args.defaults):], g.node.args.defaults))
        self.default_true = {p for p, d in defaults.items() if isinstance(d, ast.Lambda) and isinstance(d.body, ast.Constant) and d.body.value is True}
        try:
            self.cls = ctx.folder.eval(self.cls_expr, f.mod).cls
        except Exception:
            self.cls = None
        self.name = f.name + (f'#{call.lineno - f.node.lineno}' if sum(1 for c in own_nodes(f.node) if isinstance(c, ast.Call) and is_name(c.func, '_group')) > 1 else '')

    def env_for(self, fn):
        """constants of the enclosing pass visible to the closure"""
        env = {}
        for s in self.f.node.body:
            if isinstance(s, ast.Assign) and len(s.targets) == 1 and is_name(s.targets[0]):
                try:
                    env[s.targets[0].id] = self.ctx.folder.eval(s.value, self.f.mod, env)
                except NotConst:
                    pass
        return env

    def pred(self, which, kind):
        """True/False/None(unknown)/'crash:..' of valid_prev / valid_next / match on an abstract kind"""
        fn = getattr(self, which)
        if fn is None:
            if which in self.default_true or which in ('valid_prev', 'valid_next'):
                return True
            return None
        ev = ME.Evaluator(self.ctx, self.f.mod)
        env = self.env_for(fn)
        env[fn.params[0]] = kind
        try:
            return bool(ME.run_function(ev, fn.node, env))
        except ME.Unknown:
            return None
        except ME.Crash as e:
            return f'crash: {e}'

    def post_absorbs(self, prev_kind, match_kind, next_kind):
        """(absorbs_prev, absorbs_next) of post for the given operand kinds (conservative True when unknown)"""
        fn = self.post
        if fn is None:
            return True, True
        params = fn.params

        class FakeList(dict):
            pass
        ev = ME.Evaluator(self.ctx, self.f.mod)
        env = self.env_for(fn)
        fl = {0: prev_kind, 1: match_kind, 2: next_kind}
        env[params[0]] = fl
        env[params[1]], env[params[2]], env[params[3]] = 0, 1, (2 if next_kind is not None else None)
        try:
            # attribute stores (tlist[tidx].ttype = ...) are irrelevant here: strip them
            import copy
            node = copy.deepcopy(fn.node)
            node.body = [s for s in node.body if not (isinstance(s, ast.Assign) and isinstance(s.targets[0], ast.Attribute))]
            r = ME.run_function(ev, node, env)
            if isinstance(r, tuple) and len(r) == 2:
                return r[0] == 0, r[1] == 2
        except (ME.Unsupported, ME.Unknown, ME.Crash):
            pass
        rets = [n for n in own_nodes(fn.node) if isinstance(n, ast.Return)]
        ap = an = False
        for r in rets:
            for t in ([r.value] if not isinstance(r.value, ast.IfExp) else [r.value.body, r.value.orelse]):
                if isinstance(t, ast.Tuple) and len(t.elts) == 2:
                    ap = ap or is_name(t.elts[0], params[1])
                    an = an or is_name(t.elts[1], params[3])
                else:
                    ap = an = True
        return ap, an


def group_clients(ctx):
    repo = ctx.repo
    out = []
    for f in repo.funcs.values():
        if f.mod.name != 'sqlparse.engine.grouping' or isinstance(f.node, ast.Lambda) or f.name == '_group':
            continue
        for c in own_nodes(f.node, include_lambdas=False):
            if isinstance(c, ast.Call) and is_name(c.func, '_group'):
                out.append(GroupClient(ctx, f, c))
    return out
