"""Entry point: ./check <ID> [--tier quick|thorough] [--replay PATH] [--root DIR]"""
import argparse
import importlib
import json
import os
import sys
import time
import traceback

from .model import AnalysisError, Repo
from . import report

LEVELS = {'C01': 'proof', 'C16': 'proof'}


def run_property(pid, repo, tier, seed=0):
    mod = importlib.import_module(f'sa.props.{pid.lower()}')
    ctx = report.Ctx(pid, repo, tier, seed)
    try:
        mod.run(ctx)
    except AnalysisError as e:
        # an anchor of a later rule is gone.  If an earlier rule has already refuted something that is not a listed finding, that
        # verdict stands and the unfinished part is reported as a note; otherwise the run is an analysis error.
        if not report.new_refutations(ctx):
            raise
        ctx.stopped_early = str(e)
    except Exception as e:
        if not report.new_refutations(ctx):
            raise
        ctx.stopped_early = f'internal error after the verdict: {type(e).__name__}: {e}'
    return ctx, mod


def main(argv=None):
    ap = argparse.ArgumentParser()
    ap.add_argument('pid')
    ap.add_argument('--tier', default=os.environ.get('VERIF_TIER', 'quick'), choices=['quick', 'thorough'])
    ap.add_argument('--replay')
    ap.add_argument('--root', default=os.environ.get('VERIF_REPO', '/repo'))
    ap.add_argument('--no-evidence', action='store_true')
    a = ap.parse_args(argv)
    pid = a.pid.upper()
    seed = int(os.environ.get('VERIF_SEED', '0') or 0)
    t0 = time.time()
    try:
        repo = Repo(a.root)
        ctx, mod = run_property(pid, repo, a.tier, seed)
        extra = {}
        if a.tier == 'thorough':
            from . import variants
            extra['variant_liveness'] = variants.run_for(pid, a.root)
            bad = [v for v in extra['variant_liveness']['results'] if v['outcome'] in ('MISSED', 'FALSE-ALARM')]
            if bad:
                raise AnalysisError('self-test of the checker failed: ' + '; '.join(
                    f'{v["id"]}={v["outcome"]}' for v in bad))
        if a.replay:
            with open(a.replay) as fh:
                rp = json.load(fh)
            hits = [o for o in ctx.obs if o.rule == rp['rule'] and o.key == rp['key']]
            for o in hits:
                print(f'REPLAY [{o.rule}] {o.loc} {o.text}: {o.status.upper()} {o.detail}')
                try:
                    rel, ln = o.loc.split(':')[:2]
                    src = repo.files[rel].splitlines()
                    ln = int(ln)
                    for i in range(max(0, ln - 3), min(len(src), ln + 3)):
                        print(f'   {i + 1:4d} {src[i]}')
                except Exception:
                    pass
            if not hits:
                print('REPLAY: the recorded rule instance no longer exists on this tree')
            bad = [o for o in hits if o.status == 'refuted']
            if bad:
                print(f'VIOLATION property={pid} replay={a.replay}')
            return 1 if bad else 0
        code, new, kf = report.finish(ctx, LEVELS.get(pid, 'other'), mod.EXPLANATION, t0,
                                      write=not a.no_evidence, extra_cov=extra)
        return code
    except AnalysisError as e:
        print(f'ANALYSIS-ERROR property={pid}: {e}')
        return 2
    except Exception:
        print(f'ANALYSIS-ERROR property={pid}: internal error in the checker')
        traceback.print_exc()
        return 2


if __name__ == '__main__':
    sys.exit(main())
