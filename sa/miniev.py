"""Abstract evaluation of tiny pure predicates / transfer functions over a finite
domain (DESIGN 2.7).  Expressions are evaluated on *abstract* operands: a token
kind (type path, group class, optionally a fixed normalised text) or a finite
splitter state.  Anything outside the small expression language raises
Unsupported (-> ANALYSIS-ERROR), an operand whose value is not determined by the
kind raises Unknown."""
import ast

from .astutil import src
from .fold import TT, ClsRef, ModRef, FuncRef, NotConst, Rx


class Unsupported(Exception):
    pass


class Unknown(Exception):
    pass


class Crash(Exception):
    """the evaluated code would raise (AttributeError on None, IndexError ...)"""


class Raised(Exception):
    """the evaluated code executes a `raise` statement (or a conversion such as int() fails)"""

    def __init__(self, names, node=None):
        Exception.__init__(self, '/'.join(names))
        self.names, self.node = tuple(names), node


UNKNOWN = object()


class AbsToken:
    """an abstract token kind"""

    def __init__(self, repo, ttype=None, value=UNKNOWN, cls=None, label=None):
        self.repo = repo
        self.ttype, self.value, self.cls = ttype, value, cls
        self.is_group = cls is not None
        self.is_keyword = ttype is not None and TT(('Keyword',)).contains(ttype)
        self.is_whitespace = ttype is not None and TT(('Text', 'Whitespace')).contains(ttype)
        self.is_newline = ttype is not None and TT(('Text', 'Whitespace', 'Newline')).contains(ttype)
        if value is UNKNOWN:
            self.normalized = UNKNOWN
        else:
            self.normalized = ' '.join(value.upper().split()) if self.is_keyword else value
        self.label = label or (cls.name if cls is not None else f'{ttype!r}' + (f':{value!r}' if value is not UNKNOWN else ''))

    def __repr__(self):
        return f'<{self.label}>'

    def isinstance_of(self, c):
        if self.cls is None:
            # a leaf is an instance of sql.Token only
            return c.qname == 'sqlparse.sql.Token'
        return c in self.repo.mro(self.cls)

    def match(self, ttype, values, regex=False):
        if self.ttype is None or not (isinstance(ttype, TT) and tuple(self.ttype) == tuple(ttype)):
            return False
        if values is None:
            return True
        if isinstance(values, str):
            values = (values,)
        if self.normalized is UNKNOWN:
            raise Unknown('text of the token')
        if regex:
            import re
            flag = re.IGNORECASE if self.is_keyword else 0
            return any(re.compile(v, flag).search(self.normalized) for v in values)
        if self.is_keyword:
            values = tuple(v.upper() for v in values)
        return self.normalized in values


class MiniFunc:
    """a def/lambda of the analysed source closed over the environment it was created in"""

    def __init__(self, ev, node, env, name='<lambda>'):
        self.ev, self.node, self.env, self.name = ev, node, env, name

    def __call__(self, *args, **kw):
        a = self.node.args
        params = [x.arg for x in a.posonlyargs + a.args]
        if len(args) > len(params) and not a.vararg:
            raise Crash(f'{self.name}() takes {len(params)} positional arguments but {len(args)} were given')
        env = dict(self.env)
        for p_, v in zip(params, args):
            env[p_] = v
        for k, v in kw.items():
            if k not in params and k not in [x.arg for x in a.kwonlyargs]:
                raise Crash(f'{self.name}() got an unexpected keyword argument {k!r}')
            env[k] = v
        defaults = dict(zip(params[len(params) - len(a.defaults):], a.defaults))
        for x, d in zip(a.kwonlyargs, a.kw_defaults):
            if d is not None:
                defaults[x.arg] = d
        for p_ in params + [x.arg for x in a.kwonlyargs]:
            if p_ not in env or (p_ not in dict(zip(params, args)) and p_ not in kw and p_ in defaults):
                if p_ in defaults:
                    env[p_] = self.ev.ev(defaults[p_], self.env)
                elif p_ not in dict(zip(params, args)) and p_ not in kw:
                    raise Crash(f'{self.name}() missing argument {p_!r}')
        if a.vararg:
            env[a.vararg.arg] = tuple(args[len(params):])
        self.ev._depth = getattr(self.ev, '_depth', 0) + 1
        try:
            if self.ev._depth > 60:
                raise Unsupported('evaluation too deep')
            if _is_generator(self.node):
                # a generator function: evaluated eagerly, the values it yields are returned as a list (laziness is not modelled)
                out = []
                saved = getattr(self.ev, 'on_yield', None)
                self.ev.on_yield = out.append
                try:
                    run_function(self.ev, self.node, env)
                finally:
                    self.ev.on_yield = saved
                return out
            return run_function(self.ev, self.node, env)
        finally:
            self.ev._depth -= 1


def _is_generator(fnode):
    if isinstance(fnode, ast.Lambda):
        return False
    stack = list(fnode.body)
    while stack:
        n = stack.pop()
        if isinstance(n, (ast.Yield, ast.YieldFrom)):
            return True
        if isinstance(n, (ast.FunctionDef, ast.AsyncFunctionDef, ast.Lambda, ast.ClassDef)):
            continue
        stack.extend(ast.iter_child_nodes(n))
    return False


def _native(fn, *a, **k):
    """run a stdlib routine on concrete operands; an exception it raises is what the analysed program would raise there"""
    try:
        return fn(*a, **k)
    except (Unsupported, Unknown, Crash, Raised):
        raise
    except StopIteration:
        raise Crash('StopIteration')
    except Exception as e_:      # noqa: the operands are concrete, the exception is the program's
        raise Crash(f'{type(e_).__name__}: {e_}')


def _stdlib(modname, attr):
    """the few stdlib objects the analysed source uses as plain utilities; calling them runs the stdlib itself (trusted, A1)"""
    import collections, io, itertools
    table = {('itertools', 'islice'): itertools.islice, ('collections', 'deque'): collections.deque, ('io', 'TextIOBase'): io.TextIOBase,
             ('itertools', 'chain'): itertools.chain}
    return table.get((modname, attr))


class RxBound:
    """`re.compile(p, flags).match` held as a value (the lexer's rule table): calling it runs the stdlib regex engine"""

    def __init__(self, rx, attr):
        self.rx, self.attr = rx, attr

    def __call__(self, text, *pos):
        import re as _re
        if text is UNKNOWN:
            raise Unknown('text matched by a rule')
        return getattr(_re.compile(self.rx.pattern, self.rx.flags), self.attr)(text, *pos)

    def key(self):
        return (self.rx.pattern, self.rx.flags, self.attr)

    def __repr__(self):
        return f'<{self.attr} of {self.rx!r}>'


class Obj:
    """a record with attributes (splitter state)"""

    def __init__(self, **kw):
        self.__dict__.update(kw)


STR_METHODS = {'upper', 'lower', 'split', 'startswith', 'endswith', 'strip', 'join', 'casefold', 'lstrip', 'rstrip', 'isalnum', 'capitalize',
               'splitlines', 'replace', 'find', 'rfind', 'index', 'rindex', 'count', 'isspace', 'isascii', 'isalpha', 'isdigit', 'isupper', 'islower',
               'title', 'swapcase', 'partition', 'rpartition', 'rsplit', 'expandtabs', 'zfill', 'ljust', 'rjust', 'center', 'removeprefix', 'removesuffix',
               'isidentifier', 'isnumeric', 'isdecimal', 'istitle', 'isprintable', 'translate', 'encode'}


class Evaluator:
    def __init__(self, ctx, mod, cls=None, imt_func=True):
        self.ctx, self.mod, self.cls = ctx, mod, cls
        self.folder = ctx.folder
        self.cls_state = {}          # class attributes stored during the evaluation: (class qname, attribute) -> value; shared with sub-evaluators

    def ev(self, n, env):
        if isinstance(n, ast.Constant):
            return n.value
        if isinstance(n, ast.Name):
            if n.id in env:
                return env[n.id]
            if n.id in ('True', 'False', 'None'):
                return {'True': True, 'False': False, 'None': None}[n.id]
            if n.id in ('list', 'tuple', 'int', 'str', 'dict', 'bool', 'set'):
                return {'list': list, 'tuple': tuple, 'int': int, 'str': str, 'dict': dict, 'bool': bool, 'set': set}[n.id]
            try:
                v_ = self.folder.eval(n, self.mod, None, self.cls)
                if type(v_).__name__ == 'FuncRef':
                    v_ = v_.func
                if type(v_).__name__ == 'Func' and hasattr(v_, 'node') and isinstance(v_.node, ast.FunctionDef):
                    sub = Evaluator(self.ctx, v_.mod, None)
                    for k in ('effects', 'on_yield', 'cls_state'):
                        if hasattr(self, k):
                            setattr(sub, k, getattr(self, k))
                    return MiniFunc(sub, v_.node, {}, v_.short)
                return v_
            except NotConst:
                # a module-level function of the analysed source
                fn_ = getattr(self.mod, 'funcs', {}).get(n.id)
                if fn_ is not None:
                    sub = Evaluator(self.ctx, fn_.mod, None)
                    for k in ('effects', 'on_yield', 'cls_state'):
                        if hasattr(self, k):
                            setattr(sub, k, getattr(self, k))
                    return MiniFunc(sub, fn_.node, {}, fn_.short)
                # a module-level constant the folder cannot fold (frozenset('abc'), a comprehension over a table): evaluate it here
                if n.id in getattr(self.mod, 'assigns', {}):
                    cache_ = self.ctx.shared('miniev_modconst', dict)
                    key_ = (self.mod.name, n.id)
                    if key_ not in cache_:
                        cache_[key_] = Evaluator(self.ctx, self.mod, None).ev(self.mod.assigns[n.id], {})
                    return cache_[key_]
                imp = self.mod.imports.get(n.id)
                if imp and imp[0] == 'object' and _stdlib(imp[1], imp[2]) is not None:
                    return _stdlib(imp[1], imp[2])
                if imp and imp[0] == 'object':
                    fq = f'{imp[1]}.{imp[2]}'
                    fn_ = self.ctx.repo.funcs.get(fq)
                    if fn_ is not None:
                        sub = Evaluator(self.ctx, fn_.mod, None)
                        return MiniFunc(sub, fn_.node, {}, fn_.short)
                raise Unsupported(f'name {n.id}')
        if isinstance(n, ast.Attribute):
            # constants first (T.Keyword, sql.Where.M_CLOSE)
            root = n
            while isinstance(root, ast.Attribute):
                root = root.value
            if isinstance(root, ast.Name) and root.id not in env:
                imp_ = self.mod.imports.get(root.id)
                if imp_ and imp_[0] == 'module' and isinstance(n.value, ast.Name) and _stdlib(imp_[1], n.attr) is not None:
                    return _stdlib(imp_[1], n.attr)
                if self.mod.imports.get(root.id) == ('module', 're') and isinstance(n.value, ast.Name):
                    import re as _re
                    v_ = getattr(_re, n.attr, None)
                    if isinstance(v_, int):
                        return int(v_)
                try:
                    return self.folder.eval(n, self.mod, None, self.cls)
                except NotConst:
                    raise Unsupported(f'attribute {src(n)}')
            base = self.ev(n.value, env)
            if base is None:
                raise Crash(f'attribute .{n.attr} of None (`{src(n)}`)')
            if base is UNKNOWN:
                raise Unknown(src(n))
            if isinstance(base, Obj) and not hasattr(base, n.attr) and getattr(base, '_cls', None) is not None:
                for c_ in self.ctx.repo.mro(base._cls):
                    if (c_.qname, n.attr) in self.cls_state:
                        return self.cls_state[(c_.qname, n.attr)]
                node, owner = self.ctx.repo.lookup_class_attr(base._cls, n.attr)
                if node is not None:
                    try:
                        return self.folder.eval(node, owner.mod, None, owner)
                    except NotConst:
                        raise Unsupported(f'class attribute {n.attr}')
            if isinstance(base, AbsToken) and not hasattr(base, n.attr):
                m_ = self._method_of(base, n.attr)
                if m_ is not None:
                    return m_
            if isinstance(base, Obj) and not hasattr(base, n.attr) and getattr(base, '_cls', None) is not None:
                m_ = self._obj_method(base, n.attr)
                if isinstance(m_, tuple) and m_ and m_[0] == 'property-value':
                    return m_[1]
                if m_ is not None:
                    return m_
            if isinstance(base, ClsRef) and n.attr == '__name__':
                return base.cls.name
            if isinstance(base, ClsRef):
                for c_ in self.ctx.repo.mro(base.cls):
                    if (c_.qname, n.attr) in self.cls_state:
                        return self.cls_state[(c_.qname, n.attr)]
                node, owner = self.ctx.repo.lookup_class_attr(base.cls, n.attr)
                if node is not None:
                    try:
                        return self.folder.eval(node, owner.mod, None, owner)
                    except NotConst:
                        raise Unsupported(f'class attribute {n.attr}')
            if isinstance(base, (AbsToken, Obj)):
                if not hasattr(base, n.attr):
                    raise Unsupported(f'attribute {n.attr} of abstract object')
                v = getattr(base, n.attr)
                if v is UNKNOWN:
                    raise Unknown(src(n))
                return v
            if isinstance(base, str) and n.attr in STR_METHODS:
                return ('strmethod', base, n.attr)
            if isinstance(base, Rx) and n.attr in ('match', 'search', 'fullmatch'):
                return RxBound(base, n.attr)
            raise Unsupported(f'attribute {src(n)}')
        if isinstance(n, ast.JoinedStr):
            parts = []
            for v in n.values:
                if isinstance(v, ast.Constant):
                    parts.append(str(v.value))
                elif isinstance(v, ast.FormattedValue) and v.format_spec is None and v.conversion == -1:
                    x = self.ev(v.value, env)
                    if not isinstance(x, (str, int)):
                        raise Unsupported('f-string operand')
                    parts.append(str(x))
                else:
                    raise Unsupported('f-string form')
            return ''.join(parts)
        if isinstance(n, ast.BoolOp):
            last = None
            for v in n.values:
                last = self.ev(v, env)
                t = self.truth(last)
                if isinstance(n.op, ast.And) and not t:
                    return last
                if isinstance(n.op, ast.Or) and t:
                    return last
            return last
        if isinstance(n, ast.UnaryOp):
            v = self.ev(n.operand, env)
            if isinstance(n.op, ast.Not):
                return not self.truth(v)
            if isinstance(n.op, ast.USub) and isinstance(v, int):
                return -v
            raise Unsupported('unary')
        if isinstance(n, ast.IfExp):
            return self.ev(n.body if self.truth(self.ev(n.test, env)) else n.orelse, env)
        if isinstance(n, (ast.Tuple, ast.List)):
            vals = [self.ev(e, env) for e in n.elts]
            return tuple(vals) if isinstance(n, ast.Tuple) else vals
        if isinstance(n, ast.BinOp):
            l, r = self.ev(n.left, env), self.ev(n.right, env)
            if isinstance(l, TT) or isinstance(r, TT):
                if isinstance(n.op, ast.Add) and isinstance(l, tuple) and isinstance(r, tuple):
                    raise Unsupported('token type arithmetic')
            if isinstance(n.op, ast.Add) and type(l) is type(r) and isinstance(l, (int, str, tuple, list)):
                return l + r
            if isinstance(n.op, ast.Add) and isinstance(l, int) and isinstance(r, int):
                return l + r
            if isinstance(n.op, (ast.BitOr, ast.BitAnd, ast.Mult)) and isinstance(l, int) and isinstance(r, int):
                return (l | r) if isinstance(n.op, ast.BitOr) else (l & r) if isinstance(n.op, ast.BitAnd) else l * r
            if isinstance(n.op, ast.Mult) and isinstance(l, str) and isinstance(r, int):
                return l * r
            if isinstance(n.op, ast.Sub) and isinstance(l, int) and isinstance(r, int):
                return l - r
            raise Unsupported('binop')
        if isinstance(n, ast.Compare):
            left = self.ev(n.left, env)
            for op, rn in zip(n.ops, n.comparators):
                right = self.ev(rn, env)
                if not self.cmp(op, left, right):
                    return False
                left = right
            return True
        if isinstance(n, ast.Subscript):
            b = self.ev(n.value, env)
            if isinstance(n.slice, ast.Slice):
                if not isinstance(b, (list, tuple, str)):
                    raise Unsupported('slice of abstract value')
                lo = self.ev(n.slice.lower, env) if n.slice.lower is not None else None
                hi = self.ev(n.slice.upper, env) if n.slice.upper is not None else None
                st = self.ev(n.slice.step, env) if n.slice.step is not None else None
                try:
                    return b[lo:hi:st]
                except TypeError as e:
                    raise Crash(f'{e} in `{src(n)}`')
            i = self.ev(n.slice, env)
            if isinstance(b, AbsToken):
                m_ = self._method_of(b, '__getitem__') if b.cls is not None else None
                if m_ is None:
                    raise Crash(f'TypeError: token is not subscriptable in `{src(n)}`')
                return m_(i)
            try:
                return b[i]
            except (IndexError, KeyError, TypeError) as e:
                raise Crash(f'{type(e).__name__} in `{src(n)}`')
        if isinstance(n, ast.Call):
            return self.call(n, env)
        if isinstance(n, ast.Lambda):
            return MiniFunc(self, n, env)
        if isinstance(n, (ast.GeneratorExp, ast.ListComp, ast.SetComp)) and all(isinstance(g.target, (ast.Name, ast.Tuple)) and not g.is_async for g in n.generators):
            out = []

            def bind(t_, x, e2):
                if isinstance(t_, ast.Name):
                    e2[t_.id] = x
                else:
                    xs = list(x)
                    if len(xs) != len(t_.elts):
                        raise Crash(f'ValueError: cannot unpack {len(xs)} values into {len(t_.elts)} targets')
                    for tt_, v_ in zip(t_.elts, xs):
                        bind(tt_, v_, e2)

            def rec(i, e1):
                if i == len(n.generators):
                    out.append(self.ev(n.elt, e1))
                    return
                g = n.generators[i]
                for x in self._iterate(self.ev(g.iter, e1), g.iter):
                    e2 = dict(e1)
                    bind(g.target, x, e2)
                    if all(self.truth(self.ev(c, e2)) for c in g.ifs):
                        rec(i + 1, e2)
            rec(0, env)
            return frozenset(out) if isinstance(n, ast.SetComp) else out
        raise Unsupported(type(n).__name__)

    def truth(self, v):
        if v is UNKNOWN:
            raise Unknown('truth value')
        if isinstance(v, (AbsToken, Obj)):
            return True
        if isinstance(v, TT):
            return len(v) > 0
        return bool(v)

    def cmp(self, op, l, r):
        if l is UNKNOWN or r is UNKNOWN:
            raise Unknown('comparison operand')
        if isinstance(op, (ast.Is, ast.IsNot)):
            if isinstance(l, TT) and isinstance(r, TT):
                res = tuple(l) == tuple(r)
            elif l is None or r is None:
                res = l is r
            elif isinstance(l, bool) or isinstance(r, bool):
                res = l is r
            else:
                res = l is r
            return res if isinstance(op, ast.Is) else not res
        if isinstance(op, (ast.Eq, ast.NotEq)):
            if isinstance(l, TT) != isinstance(r, TT) and (l is None or r is None):
                res = False
            elif isinstance(l, TT) and isinstance(r, TT):
                res = tuple(l) == tuple(r)
            else:
                res = l == r
            return res if isinstance(op, ast.Eq) else not res
        if isinstance(op, (ast.In, ast.NotIn)):
            if isinstance(r, TT):
                res = r.contains(l)
            elif isinstance(r, (tuple, list)):
                res = any((tuple(x) == tuple(l)) if isinstance(x, TT) and isinstance(l, TT) else (x == l and not isinstance(x, TT) and not isinstance(l, TT))
                          for x in r)
            elif isinstance(r, str) and isinstance(l, str):
                res = l in r
            elif isinstance(r, dict):
                res = l in r
            elif isinstance(r, (set, frozenset)):
                try:
                    res = l in r
                except TypeError as e_:
                    raise Crash(f'TypeError: {e_}')
            else:
                raise Unsupported('membership')
            return res if isinstance(op, ast.In) else not res
        if (isinstance(l, int) and isinstance(r, int)) or (isinstance(l, str) and isinstance(r, str)):
            if isinstance(op, ast.Lt):
                return l < r
            if isinstance(op, ast.LtE):
                return l <= r
            if isinstance(op, ast.Gt):
                return l > r
            if isinstance(op, ast.GtE):
                return l >= r
        raise Unsupported('comparison')

    def _construct(self, cv, args, kw):
        """Token(ttype, value) / <group class>(tokens) of sqlparse.sql"""
        if cv.cls.name == 'Token':
            if len(args) != 2 or kw:
                raise Unsupported('Token(...) operands')
            t_ = AbsToken(self.ctx.repo, ttype=args[0], value=args[1])
            t_.parent = None
            return t_
        g_ = AbsToken(self.ctx.repo, cls=cv.cls)
        g_.tokens = list(args[0]) if args else []
        g_.parent = None
        g_.is_whitespace = False
        for k_ in g_.tokens:
            k_.parent = g_
        vals_ = [getattr(k_, 'value', UNKNOWN) for k_ in g_.tokens]
        g_.value = ''.join(vals_) if all(isinstance(v_, str) for v_ in vals_) else UNKNOWN
        return g_

    def _iterate(self, v, node=None):
        """iteration over a value: an abstract group is iterated through the __iter__ of its class (the analysed source)"""
        if isinstance(v, AbsToken):
            m_ = self._method_of(v, '__iter__') if v.cls is not None else None
            if m_ is None:
                raise Crash(f'TypeError: token is not iterable' + (f' in `{src(node)}`' if node is not None else ''))
            return list(m_())
        return v

    def _obj_method(self, obj, name):
        """bound method of a record that stands for an instance of a class of the analysed source"""
        m = self.ctx.repo.lookup_method(obj._cls, name)
        if m is None:
            return None
        sub = Evaluator(self.ctx, m.mod, m.cls)
        for k in ('effects', 'on_yield', 'cls_state'):
            if hasattr(self, k):
                setattr(sub, k, getattr(self, k))
        sub._depth = getattr(self, '_depth', 0)
        fn = MiniFunc(sub, m.node, {}, m.short)
        if any(isinstance(d, ast.Name) and d.id == 'staticmethod' for d in m.node.decorator_list):
            return fn
        if any(isinstance(d, ast.Name) and d.id == 'property' for d in m.node.decorator_list):
            return ('property-value', fn(obj))
        if any(isinstance(d, ast.Name) and d.id == 'classmethod' for d in m.node.decorator_list):
            return lambda *a, **k: fn(ClsRef(obj._cls), *a, **k)
        return lambda *a, **k: fn(obj, *a, **k)

    def _method_of(self, tok, name):
        """bound method of the analysed source for an abstract token: resolved through the MRO of its group class (leaves: sql.Token)"""
        repo = self.ctx.repo
        c = tok.cls if tok.cls is not None else repo.classes.get('sqlparse.sql.Token')
        m = repo.lookup_method(c, name) if c is not None else None
        if m is None:
            return None
        sub = Evaluator(self.ctx, m.mod, m.cls)
        for k in ('effects', 'on_yield', 'cls_state'):
            if hasattr(self, k):
                setattr(sub, k, getattr(self, k))
        sub._depth = getattr(self, '_depth', 0)
        fn = MiniFunc(sub, m.node, {}, m.short)
        if any(isinstance(d, ast.Name) and d.id == 'staticmethod' for d in m.node.decorator_list):
            return fn
        if any(isinstance(d, ast.Name) and d.id == 'property' for d in m.node.decorator_list):
            return fn(tok)
        return lambda *a, **k: fn(tok, *a, **k)

    def _args(self, n, env):
        args = []
        for a in n.args:
            if isinstance(a, ast.Starred):
                args += list(self.ev(a.value, env))
            else:
                args.append(self.ev(a, env))
        kw = {}
        for k in n.keywords:
            if k.arg is None:
                kw.update(self.ev(k.value, env))
            else:
                kw[k.arg] = self.ev(k.value, env)
        return args, kw

    def call(self, n, env):
        f = n.func
        # closures, lambdas and bound methods held in variables / attributes
        if isinstance(f, ast.Name) and f.id in env and isinstance(env[f.id], ClsRef) and env[f.id].cls.mod.name == 'sqlparse.sql':
            args, kw = self._args(n, env)
            return self._construct(env[f.id], args, kw)
        if isinstance(f, ast.Name) and f.id in env and (isinstance(env[f.id], MiniFunc) or callable(env[f.id])) and not isinstance(env[f.id], type):
            args, kw = self._args(n, env)
            if isinstance(env[f.id], (MiniFunc,)) or getattr(env[f.id], '__name__', '') == '<lambda>':
                return env[f.id](*args, **kw)
            return _native(env[f.id], *args, **kw)
        # a stdlib utility reached through its module: itertools.islice(...)
        if isinstance(f, ast.Attribute) and isinstance(f.value, ast.Name) and f.value.id not in env:
            imp_ = self.mod.imports.get(f.value.id)
            if imp_ and imp_[0] == 'module' and _stdlib(imp_[1], f.attr) is not None:
                a2, kw = self._args(n, env)
                return _native(_stdlib(imp_[1], f.attr), *a2, **kw)
        # construction of a token / group of sqlparse.sql
        root_ = f
        while isinstance(root_, ast.Attribute):
            root_ = root_.value
        if isinstance(f, (ast.Name, ast.Attribute)) and isinstance(root_, ast.Name) and root_.id not in env:
            try:
                cv = self.folder.eval(f, self.mod, None, self.cls)
            except NotConst:
                cv = None
            if isinstance(cv, ClsRef) and cv.cls.mod.name == 'sqlparse.sql':
                args, kw = self._args(n, env)
                return self._construct(cv, args, kw)
        if isinstance(f, ast.Attribute):
            try:
                base0 = self.ev(f.value, env) if not (isinstance(f.value, ast.Name) and f.value.id not in env) else None
            except (Unsupported, Unknown):
                base0 = None
            if isinstance(base0, AbsToken) and f.attr != 'match' and not hasattr(base0, f.attr):
                m_ = self._method_of(base0, f.attr)
                if m_ is not None:
                    args, kw = self._args(n, env)
                    return m_(*args, **kw)
            if isinstance(base0, list) and f.attr in ('index', 'count', 'append', 'insert', 'pop', 'remove', 'extend') and (
                    f.attr in ('index', 'count') or getattr(self, 'effects', False)):
                args, kw = self._args(n, env)
                try:
                    return getattr(base0, f.attr)(*args)
                except (ValueError, IndexError) as e:
                    raise Crash(f'{type(e).__name__} in `{src(n)}`')
        if isinstance(f, ast.Attribute) and isinstance(f.value, ast.Name) and f.value.id not in env \
                and self.mod.imports.get(f.value.id) == ('module', 're') and f.attr in ('search', 'match', 'fullmatch', 'finditer', 'findall'):
            import re as _re
            args, kw = self._args(n, env)
            if len(args) < 2 or not isinstance(args[0], str):
                raise Unsupported('re.search operands')
            if args[1] is UNKNOWN:
                raise Unknown('text of the token')
            if not isinstance(args[1], str) or any(not isinstance(x, int) for x in args[2:]):
                raise Unsupported('re.search operands')
            r_ = getattr(_re, f.attr)(args[0], args[1], *args[2:])
            return list(r_) if f.attr == 'finditer' else r_
        if isinstance(f, ast.Attribute) and isinstance(f.value, ast.Name) and f.value.id not in env \
                and self.mod.imports.get(f.value.id) == ('module', 're') and f.attr == 'compile':
            args, kw = self._args(n, env)
            flags = args[1] if len(args) > 1 else kw.get('flags', 0)
            if not isinstance(args[0], str) or not isinstance(flags, int):
                raise Unsupported('re.compile operands')
            return Rx(args[0], flags)
        if isinstance(f, ast.Name) and f.id not in env and f.id in ('range', 'reversed', 'sorted', 'sum', 'abs', 'zip', 'iter', 'next'):
            args, kw = self._args(n, env)
            try:
                if f.id == 'range':
                    return list(range(*args))
                if f.id == 'reversed':
                    return list(reversed(args[0]))
                if f.id == 'zip':
                    return list(zip(*args))
                if f.id == 'iter':
                    return iter(args[0])
                if f.id == 'next':
                    if args and isinstance(args[0], list):
                        # the (eagerly evaluated) result of a generator function that has just been called: a fresh iterator
                        args = [iter(args[0])] + list(args[1:])
                    try:
                        return next(*args)
                    except StopIteration:
                        raise Crash(f'StopIteration in `{src(n)}`')
                return {'sorted': sorted, 'sum': sum, 'abs': abs}[f.id](*args)
            except TypeError as e:
                raise Crash(f'{e} in `{src(n)}`')
        if isinstance(f, ast.Name) and f.id not in env:
            args = [self.ev(a, env) for a in n.args]
            if f.id == 'isinstance':
                obj, c = args
                cs = c if isinstance(c, (tuple, list)) else (c,)
                if isinstance(obj, AbsToken):
                    return any(isinstance(x, ClsRef) and obj.isinstance_of(x.cls) for x in cs)
                if obj is None:
                    return False
                if isinstance(obj, TT):
                    return any(isinstance(x, ClsRef) and x.cls.name == '_TokenType' for x in cs) or any(x is tuple for x in cs)
                if type(obj).__name__ == 'Marker':
                    # a bare object() of the analysed source (PROCESS_AS_KEYWORD): an instance of no class of interest
                    return any(x is object for x in cs)
                if isinstance(obj, str):
                    return any(getattr(x, '__name__', None) == 'str' for x in cs)
                if all(isinstance(x, type) for x in cs):
                    return isinstance(obj, tuple(cs))
                if isinstance(obj, (int, list, tuple, dict)) and all(isinstance(x, (type, ClsRef)) for x in cs):
                    return isinstance(obj, tuple(x for x in cs if isinstance(x, type)))
                raise Unsupported('isinstance operand')
            if f.id == 'type' and len(args) == 1 and isinstance(args[0], AbsToken):
                c_ = args[0].cls if args[0].cls is not None else self.ctx.repo.classes.get('sqlparse.sql.Token')
                return ClsRef(c_)
            if f.id == 'getattr' and len(args) in (2, 3) and isinstance(args[1], str):
                o_ = args[0]
                if isinstance(o_, Obj) and hasattr(o_, args[1]):
                    return getattr(o_, args[1])
                if isinstance(o_, Obj) and getattr(o_, '_cls', None) is not None:
                    m_ = self._obj_method(o_, args[1])
                    if m_ is not None:
                        return m_
                if isinstance(o_, AbsToken) and hasattr(o_, args[1]):
                    return getattr(o_, args[1])
                if len(args) == 3:
                    return args[2]
                raise Crash(f'AttributeError {args[1]!r} in `{src(n)}`')
            if f.id == 'enumerate' and len(args) in (1, 2):
                a0_ = self._iterate(args[0], n)
                return enumerate(a0_, *args[1:])
            if f.id == 'map' and len(args) == 2:
                fn_ = args[0]
                seq_ = self._iterate(args[1], n)
                if fn_ is str:
                    out_ = []
                    for x_ in seq_:
                        if isinstance(x_, AbsToken):
                            m_ = self._method_of(x_, '__str__')
                            out_.append(m_() if m_ is not None else x_.value)
                        else:
                            out_.append(str(x_))
                    return out_
                if isinstance(fn_, MiniFunc) or callable(fn_):
                    return [fn_(x_) for x_ in seq_]
                raise Unsupported('map function')
            if f.id in ('frozenset', 'set') and len(args) <= 1:
                try:
                    return frozenset(self._iterate(args[0], n)) if args else frozenset()
                except TypeError as e_:
                    raise Crash(f'TypeError in `{src(n)}`: {e_}')
            if f.id in ('list', 'tuple') and len(args) == 1 and isinstance(args[0], AbsToken):
                args = [self._iterate(args[0], n)]
            if f.id in ('list', 'tuple') and len(args) == 1 and (isinstance(args[0], (list, tuple)) or type(args[0]).__name__ in ('list_iterator', 'list_reverseiterator', 'tuple_iterator')):
                return list(args[0]) if f.id == 'list' else tuple(args[0])
            if f.id in ('any', 'all'):
                vals = [self.truth(x) for x in args[0]]
                return any(vals) if f.id == 'any' else all(vals)
            if f.id in ('max', 'min'):
                kw_ = {k.arg: self.ev(k.value, env) for k in n.keywords}
                if set(kw_) - {'default'}:
                    raise Unsupported(f'{f.id}() keyword')
                try:
                    if len(args) == 1:
                        return (max if f.id == 'max' else min)(list(args[0]), **kw_)
                    return (max if f.id == 'max' else min)(args)
                except ValueError as e_:
                    raise Crash(f'ValueError in `{src(n)}`: {e_}')
            if f.id == 'len':
                return len(args[0])
            if f.id == 'imt':
                kw = {k.arg: self.ev(k.value, env) for k in n.keywords}
                names = ['token', 'i', 'm', 't']
                for k, a in zip(names, args):
                    kw[k] = a
                return self.imt(kw.get('token'), kw.get('i'), kw.get('m'), kw.get('t'))
            if f.id == 'str' and len(args) == 1 and isinstance(args[0], AbsToken):
                m_ = self._method_of(args[0], '__str__')
                if m_ is None:
                    raise Unsupported('str() of a token without __str__')
                return m_()
            if f.id in ('str', 'bool', 'int'):
                return {'str': str, 'bool': bool, 'int': int}[f.id](*args)
            # a module-level function of the analysed source (a helper that builds a predicate, say)
            try:
                fv = self.ev(f, env)
            except (Unsupported, Unknown, NotConst):
                fv = None
            if isinstance(fv, MiniFunc):
                a2, kw = self._args(n, env)
                return fv(*a2, **kw)
            imp_ = self.mod.imports.get(f.id)
            if fv is not None and imp_ and imp_[0] == 'object' and fv is _stdlib(imp_[1], imp_[2]):
                a2, kw = self._args(n, env)
                return _native(fv, *a2, **kw)
            raise Unsupported(f'call {f.id}')
        if isinstance(f, ast.Attribute):
            # token.match(...)
            base_node = f.value
            try:
                base = self.ev(base_node, env)
            except Unsupported:
                raise
            if isinstance(base, AbsToken) and f.attr == 'match':
                args = []
                for a in n.args:
                    if isinstance(a, ast.Starred):
                        args += list(self.ev(a.value, env))
                    else:
                        args.append(self.ev(a, env))
                kw = {k.arg: self.ev(k.value, env) for k in n.keywords}
                while len(args) < 2:
                    args.append(None)
                return base.match(*args, **kw)
            if base is None:
                raise Crash(f'method .{f.attr} of None (`{src(n)}`)')
            if isinstance(base, Rx) and f.attr in ('split', 'findall', 'finditer', 'sub'):
                import re as _re
                args = [self.ev(a, env) for a in n.args]
                if n.keywords or any(x is UNKNOWN for x in args) or not all(isinstance(x, (str, int)) for x in args):
                    raise Unsupported(f'regex call {src(n)[:40]}')
                r_ = getattr(_re.compile(base.pattern, base.flags), f.attr)(*args)
                return list(r_) if f.attr == 'finditer' else r_
            if isinstance(base, Rx) and f.attr in ('search', 'match', 'fullmatch'):
                # a regex constant of the source applied to a known string
                import re as _re
                args = [self.ev(a, env) for a in n.args]
                if not 1 <= len(args) <= 3 or n.keywords:
                    raise Unsupported(f'regex call {src(n)[:40]}')
                if args[0] is UNKNOWN:
                    raise Unknown('text of the token')
                if not isinstance(args[0], str) or not all(type(x) is int for x in args[1:]):
                    raise Unsupported('regex subject')
                return getattr(_re.compile(base.pattern, base.flags), f.attr)(*args)
            if isinstance(base, Obj):
                args = [self.ev(a, env) for a in n.args]
                if callable(getattr(base, f.attr, None)):
                    return getattr(base, f.attr)(*args)
                c = getattr(base, '_cls', None)
                m = self.ctx.repo.lookup_method(c, f.attr) if c is not None else None
                if m is None:
                    raise Unsupported(f'method {src(f)}')
                sub = Evaluator(self.ctx, m.mod, m.cls)
                for k in ('effects', 'on_yield', 'cls_state'):
                    if hasattr(self, k):
                        setattr(sub, k, getattr(self, k))
                sub._depth = getattr(self, '_depth', 0)
                kw = {k.arg: self.ev(k.value, env) for k in n.keywords}
                fn = MiniFunc(sub, m.node, {}, m.short)
                if any(isinstance(d, ast.Name) and d.id == 'staticmethod' for d in m.node.decorator_list):
                    return fn(*args, **kw)
                return fn(base, *args, **kw)
            if isinstance(base, ClsRef):
                # Class.method(...): a static method, or an unbound method given its receiver
                m = self.ctx.repo.lookup_method(base.cls, f.attr)
                if m is None:
                    raise Unsupported(f'method {src(f)}')
                sub = Evaluator(self.ctx, m.mod, m.cls)
                for k in ('effects', 'on_yield', 'cls_state'):
                    if hasattr(self, k):
                        setattr(sub, k, getattr(self, k))
                sub._depth = getattr(self, '_depth', 0)
                a2, kw = self._args(n, env)
                if any(isinstance(d, ast.Name) and d.id == 'classmethod' for d in m.node.decorator_list):
                    a2 = [base] + list(a2)
                return MiniFunc(sub, m.node, {}, m.short)(*a2, **kw)
            if type(base).__name__ == 'Match' and f.attr in ('group', 'groups', 'start', 'end', 'span'):
                return _native(getattr(base, f.attr), *[self.ev(a, env) for a in n.args])
            if isinstance(base, str) and f.attr in STR_METHODS:
                args = [self.ev(a, env) for a in n.args]
                if f.attr == 'join':
                    return _native(base.join, list(args[0]))
                return _native(getattr(base, f.attr), *args)
            if isinstance(base, (list, tuple)) and f.attr in ('index', 'count'):
                return getattr(base, f.attr)(*[self.ev(a, env) for a in n.args])
            raise Unsupported(f'method {src(f)}')
        if isinstance(f, ast.Name) and f.id in env and callable(env[f.id]):
            return env[f.id](*[self.ev(a, env) for a in n.args])
        raise Unsupported(f'call {src(f)}')

    def imt(self, token, i=None, m=None, t=None):
        """mirror of utils.imt -- its shape is re-checked by kinds.check_imt_shape"""
        if token is None:
            return False
        if i:
            cs = i if isinstance(i, (tuple, list)) else (i,)
            if any(isinstance(x, ClsRef) and token.isinstance_of(x.cls) for x in cs):
                return True
        if m:
            if isinstance(m, list):
                if any(token.match(*p) for p in m):
                    return True
            elif token.match(*m):
                return True
        if t:
            if isinstance(t, list):
                if any(isinstance(x, TT) and x.contains(token.ttype) for x in t):
                    return True
            elif isinstance(t, TT):
                if t.contains(token.ttype):
                    return True
            elif isinstance(t, tuple):
                # `token.ttype in t` on a plain tuple of types: equality membership
                if token.ttype is not None and any(tuple(x) == tuple(token.ttype) for x in t if isinstance(x, TT)):
                    return True
        return False


def run_function(ev, fnode, env, max_steps=200):
    """Execute a small function body (if/return/assign/for-over-constant) on abstract operands.
    Returns the returned value (None when falling off the end)."""
    class _Return(Exception):
        def __init__(self, v):
            self.v = v

    class _Continue(Exception):
        pass

    class _Break(Exception):
        pass

    def block(stmts, env):
        for s in stmts:
            if isinstance(s, ast.Return):
                raise _Return(ev.ev(s.value, env) if s.value is not None else None)
            elif isinstance(s, ast.If):
                if ev.truth(ev.ev(s.test, env)):
                    block(s.body, env)
                else:
                    block(s.orelse, env)
            elif isinstance(s, ast.Assign):
                v = ev.ev(s.value, env)
                for t in s.targets:
                    assign(t, v, env)
            elif isinstance(s, ast.AugAssign):
                cur = ev.ev(ast.Attribute(value=s.target.value, attr=s.target.attr, ctx=ast.Load()) if isinstance(s.target, ast.Attribute)
                            else ast.Subscript(value=s.target.value, slice=s.target.slice, ctx=ast.Load()) if isinstance(s.target, ast.Subscript)
                            else ast.Name(id=s.target.id, ctx=ast.Load()), env)
                v = ev.ev(s.value, env)
                try:
                    if isinstance(s.op, ast.Add):
                        nv = cur + v
                    elif isinstance(s.op, ast.Sub):
                        nv = cur - v
                    else:
                        raise Unsupported('augassign op')
                except TypeError as e_:
                    if cur is UNKNOWN or v is UNKNOWN:
                        raise Unknown('operand of an augmented assignment')
                    raise Crash(f'TypeError in `{src(s)}`: {e_}')
                assign(s.target, nv, env)
            elif isinstance(s, ast.For) and isinstance(s.target, (ast.Name, ast.Tuple)):
                it = ev._iterate(ev.ev(s.iter, env), s.iter)
                broke = False
                for x in it:
                    assign(s.target, x, env)
                    try:
                        block(s.body, env)
                    except _Continue:
                        pass
                    except _Break:
                        broke = True
                        break
                if not broke:
                    block(s.orelse, env)
            elif isinstance(s, ast.Expr) and isinstance(s.value, ast.Constant):
                pass
            elif isinstance(s, ast.Expr) and isinstance(s.value, ast.Yield) and getattr(ev, 'on_yield', None) is not None:
                ev.on_yield(ev.ev(s.value.value, env) if s.value.value is not None else None)
            elif isinstance(s, ast.Expr) and isinstance(s.value, ast.YieldFrom) and getattr(ev, 'on_yield', None) is not None:
                for x_ in ev.ev(s.value.value, env):
                    ev.on_yield(x_)
            elif isinstance(s, ast.Continue):
                raise _Continue()
            elif isinstance(s, ast.Expr) and isinstance(s.value, ast.Call) and getattr(ev, 'effects', False):
                ev.ev(s.value, env)
            elif isinstance(s, ast.Raise) and getattr(ev, 'effects', False):
                x = s.exc.func if isinstance(s.exc, ast.Call) else s.exc
                raise Raised([src(x).split('.')[-1] if x is not None else 'reraise'], s)
            elif isinstance(s, ast.Try) and getattr(ev, 'effects', False):
                try:
                    try:
                        block(s.body, env)
                    except Raised as r:
                        for h in s.handlers:
                            hn = [] if h.type is None else [src(e).split('.')[-1] for e in (h.type.elts if isinstance(h.type, ast.Tuple) else [h.type])]
                            if h.type is None or set(hn) & set(r.names) or 'Exception' in hn:
                                block(h.body, env)
                                break
                        else:
                            raise
                    else:
                        block(s.orelse, env)
                finally:
                    block(s.finalbody, env)
            elif isinstance(s, ast.Pass):
                pass
            elif isinstance(s, ast.With) and getattr(ev, 'effects', False):
                # `with cm(args):` for a @contextmanager generator function of the analysed source with one top-level `yield`:
                # the statements in front of the yield, the body, the statements behind it (what happens when the body raises is
                # whatever the function does there: no try/finally -> the tail is skipped, as in the source)
                posts = []
                for item in s.items:
                    c_ = item.context_expr
                    fn_ = None
                    if isinstance(c_, ast.Call) and isinstance(c_.func, ast.Name):
                        try:
                            fv_ = ev.ev(c_.func, env)
                        except (Unsupported, Unknown):
                            fv_ = None
                        if isinstance(fv_, MiniFunc) and any((isinstance(d_, ast.Name) and d_.id == 'contextmanager') or
                                                             (isinstance(d_, ast.Attribute) and d_.attr == 'contextmanager') for d_ in fv_.node.decorator_list):
                            fn_ = fv_
                    if fn_ is None:
                        raise Unsupported(f'with {src(c_)[:40]}')
                    ys_ = [i_ for i_, b_ in enumerate(fn_.node.body) if isinstance(b_, ast.Expr) and isinstance(b_.value, ast.Yield)]
                    if len(ys_) != 1 or _is_generator(ast.FunctionDef(name='x', body=[b_ for i_, b_ in enumerate(fn_.node.body) if i_ != ys_[0]], args=fn_.node.args, decorator_list=[])):
                        raise Unsupported('context manager shape')
                    a_, kw_ = ev._args(c_, env)
                    pre_ = ast.FunctionDef(name=fn_.node.name, args=fn_.node.args, body=fn_.node.body[:ys_[0]] + [ast.Return(value=ast.Call(func=ast.Name(id='locals', ctx=ast.Load()), args=[], keywords=[]))], decorator_list=[])
                    # run the head in its own environment and keep that environment for the tail
                    cenv_ = {}
                    params_ = [x.arg for x in fn_.node.args.posonlyargs + fn_.node.args.args]
                    for p__, v__ in zip(params_, a_):
                        cenv_[p__] = v__
                    cenv_.update(kw_)
                    for p__, d__ in zip(params_[len(params_) - len(fn_.node.args.defaults):], fn_.node.args.defaults):
                        cenv_.setdefault(p__, fn_.ev.ev(d__, {}))
                    run_function(fn_.ev, ast.FunctionDef(name='head', args=None, body=fn_.node.body[:ys_[0]] or [ast.Pass()], decorator_list=[]), cenv_)
                    if item.optional_vars is not None:
                        assign(item.optional_vars, fn_.ev.ev(fn_.node.body[ys_[0]].value.value, cenv_) if fn_.node.body[ys_[0]].value.value is not None else None, env)
                    posts.append((fn_, fn_.node.body[ys_[0] + 1:], cenv_))
                block(s.body, env)
                for fn_, tail_, cenv_ in reversed(posts):
                    if tail_:
                        run_function(fn_.ev, ast.FunctionDef(name='tail', args=None, body=tail_, decorator_list=[]), cenv_)
            elif isinstance(s, ast.Delete) and getattr(ev, 'effects', False) and all(isinstance(t_, ast.Subscript) for t_ in s.targets):
                for t_ in s.targets:
                    base_ = ev.ev(t_.value, env)
                    if not isinstance(base_, list):
                        raise Unsupported('del target')
                    try:
                        if isinstance(t_.slice, ast.Slice):
                            lo_ = ev.ev(t_.slice.lower, env) if t_.slice.lower is not None else None
                            hi_ = ev.ev(t_.slice.upper, env) if t_.slice.upper is not None else None
                            del base_[lo_:hi_]
                        else:
                            del base_[ev.ev(t_.slice, env)]
                    except (IndexError, TypeError) as e_:
                        raise Crash(f'{type(e_).__name__} in `{src(s)}`')
            elif isinstance(s, (ast.FunctionDef,)):
                env[s.name] = MiniFunc(ev, s, env, s.name)
            elif isinstance(s, ast.While):
                n_it = 0
                broke = False
                while ev.truth(ev.ev(s.test, env)):
                    n_it += 1
                    if n_it > max_steps:
                        raise Unsupported('loop does not terminate within the step bound')
                    try:
                        block(s.body, env)
                    except _Continue:
                        continue
                    except _Break:
                        broke = True
                        break
                if not broke:
                    block(s.orelse, env)
            elif isinstance(s, ast.Break):
                raise _Break()
            elif isinstance(s, ast.Assert):
                if not ev.truth(ev.ev(s.test, env)):
                    raise Crash(f'AssertionError `{src(s.test)}`')
            elif isinstance(s, ast.Expr) and isinstance(s.value, ast.Call):
                # a call for its value only (no effects requested): evaluate, ignore
                ev.ev(s.value, env)
            elif isinstance(s, ast.Expr) and isinstance(s.value, (ast.ListComp, ast.GeneratorExp, ast.SetComp, ast.IfExp, ast.BoolOp)) and getattr(ev, 'effects', False):
                # `[self.process(g) for g in ...]` used as a loop; `f(x) if c else None` used as a statement
                ev.ev(s.value, env)
            else:
                raise Unsupported(f'statement {type(s).__name__}: {src(s)[:40]}')

    def assign(t, v, env):
        if isinstance(t, ast.Name):
            env[t.id] = v
        elif isinstance(t, ast.Attribute):
            base = ev.ev(t.value, env)
            if isinstance(base, Obj):
                setattr(base, t.attr, v)
            elif isinstance(base, AbsToken) and t.attr in ('value', 'parent', 'ttype', 'normalized', 'tokens') and getattr(ev, 'effects', False):
                setattr(base, t.attr, v)
            elif isinstance(base, ClsRef) and getattr(ev, 'effects', False):
                ev.cls_state[(base.cls.qname, t.attr)] = v
            else:
                raise Unsupported('attribute store')
        elif isinstance(t, ast.Tuple):
            for e, x in zip(t.elts, v):
                assign(e, x, env)
        elif isinstance(t, ast.Subscript) and isinstance(t.slice, ast.Slice) and getattr(ev, 'effects', False):
            base = ev.ev(t.value, env)
            if not isinstance(base, list) or t.slice.step is not None:
                raise Unsupported('slice store')
            lo = ev.ev(t.slice.lower, env) if t.slice.lower is not None else None
            hi = ev.ev(t.slice.upper, env) if t.slice.upper is not None else None
            base[lo:hi] = list(v)
        elif isinstance(t, ast.Subscript) and not isinstance(t.slice, ast.Slice):
            base = ev.ev(t.value, env)
            if not isinstance(base, (dict, list)):
                raise Unsupported('subscript store')
            base[ev.ev(t.slice, env)] = v
        else:
            raise Unsupported('store target')
    try:
        body = fnode.body if isinstance(fnode.body, list) else [ast.Return(value=fnode.body)]
        block(body, env)
    except _Return as r:
        return r.v
    except _Continue:
        # the body of a loop iteration was evaluated on its own: `continue` ends it
        return None
    return None
