"""Loader / index (DESIGN 2.1): parse every module of the package, index
modules, import aliases, classes (bases, MRO), functions (qualified names,
nested functions and lambdas included)."""
import ast
import os


class AnalysisError(Exception):
    """An anchor is missing / a table is no longer foldable / a recognised
    shape is gone.  Turned into exit code 2 (never a VIOLATION)."""


class Mod:
    def __init__(self, name, relpath, src, tree):
        self.name, self.relpath, self.src, self.tree = name, relpath, src, tree
        self.imports = {}      # local name -> ('module', modname) | ('object', modname, attr)
        self.assigns = {}      # module-level single-name assignments: name -> value node (last one)
        self.funcs = {}        # top-level function name -> Func
        self.classes = {}      # top-level class name -> Cls

    def __repr__(self):
        return f'<Mod {self.name}>'


class Cls:
    def __init__(self, qname, node, mod):
        self.qname, self.node, self.mod = qname, node, mod
        self.name = node.name
        self.base_exprs = node.bases
        self.bases = []        # resolved Cls objects
        self.methods = {}      # name -> Func
        self.attrs = {}        # class-level single-name assignments name -> value node

    def __repr__(self):
        return f'<Cls {self.qname}>'


class Func:
    def __init__(self, qname, node, mod, cls, parent):
        self.qname, self.node, self.mod, self.cls, self.parent = qname, node, mod, cls, parent
        self.name = getattr(node, 'name', '<lambda>')
        self.nested = {}       # name -> Func (directly nested defs)
        self.lambdas = []

    @property
    def short(self):
        return self.qname.replace('sqlparse.', '', 1)

    @property
    def params(self):
        a = self.node.args
        return [x.arg for x in a.posonlyargs + a.args] + ([a.vararg.arg] if a.vararg else []) \
            + [x.arg for x in a.kwonlyargs] + ([a.kwarg.arg] if a.kwarg else [])

    def is_generator(self):
        return any(isinstance(n, (ast.Yield, ast.YieldFrom)) for n in own_nodes(self.node))

    def __repr__(self):
        return f'<Func {self.qname}>'


FUNC_NODES = (ast.FunctionDef, ast.AsyncFunctionDef)


def own_nodes(fn, include_lambdas=True):
    """All AST nodes of a function body excluding nested def/class bodies.
    Lambda bodies are included (their calls run under whoever calls the
    lambda; attributing them to the encloser over-approximates)."""
    out = []
    body = fn.body if isinstance(fn.body, list) else [fn.body]
    st = list(reversed(body))
    if not isinstance(fn, ast.Lambda):
        for d in fn.args.defaults + [d for d in fn.args.kw_defaults if d is not None]:
            st.append(d)
    while st:
        n = st.pop()
        if isinstance(n, FUNC_NODES + (ast.ClassDef,)):
            out.append(n)  # the def statement itself (not its body)
            continue
        if isinstance(n, ast.Lambda) and not include_lambdas:
            continue
        out.append(n)
        st.extend(reversed(list(ast.iter_child_nodes(n))))
    return out


class Repo:
    PKG = 'sqlparse'

    def __init__(self, root='/repo', overlay=None):
        self.root = root
        self.overlay = dict(overlay or {})
        self.files = {}
        self.modules = {}
        self.funcs = {}
        self.classes = {}
        self._load()
        self._index()

    # -- loading ---------------------------------------------------------
    def _load(self):
        pkgdir = os.path.join(self.root, self.PKG)
        if not os.path.isdir(pkgdir):
            raise AnalysisError(f'package directory {pkgdir} not found')
        for dp, dn, fn in os.walk(pkgdir):
            dn[:] = sorted(d for d in dn if d != '__pycache__')
            for f in sorted(fn):
                if f.endswith('.py'):
                    p = os.path.join(dp, f)
                    rel = os.path.relpath(p, self.root)
                    with open(p, encoding='utf-8') as fh:
                        self.files[rel] = fh.read()
        for rel, src in self.overlay.items():
            if src is None:
                self.files.pop(rel, None)
            else:
                self.files[rel] = src
        for rel, src in sorted(self.files.items()):
            try:
                tree = ast.parse(src, filename=rel)
            except SyntaxError as e:
                raise AnalysisError(f'{rel} does not parse: {e}')
            name = rel[:-3].replace(os.sep, '.')
            if name.endswith('.__init__'):
                name = name[:-9]
            from . import normalize
            try:
                tree, inlined = normalize.run(tree, name)
            except RecursionError:
                inlined = []
            self.modules[name] = Mod(name, rel, src, tree)
            self.modules[name].inlined = inlined

    def read_text(self, rel):
        """Non-python files (docs) -- read from disk / overlay."""
        if rel in self.overlay and self.overlay[rel] is not None:
            return self.overlay[rel]
        with open(os.path.join(self.root, rel), encoding='utf-8') as fh:
            return fh.read()

    # -- indexing --------------------------------------------------------
    def _index(self):
        for mod in self.modules.values():
            self._index_imports(mod)
            self._walk(mod, mod.tree, mod.name, None, None, top=True)
        # resolve bases
        for c in self.classes.values():
            for b in c.base_exprs:
                r = self.resolve_class_expr(b, c.mod)
                if r is not None:
                    c.bases.append(r)

    def _index_imports(self, mod):
        for n in ast.walk(mod.tree):
            if isinstance(n, ast.Import):
                for a in n.names:
                    if a.asname:
                        mod.imports[a.asname] = ('module', a.name)
                    else:
                        mod.imports[a.name.split('.')[0]] = ('module', a.name.split('.')[0])
            elif isinstance(n, ast.ImportFrom) and n.level == 0:
                for a in n.names:
                    local = a.asname or a.name
                    full = f'{n.module}.{a.name}'
                    if full in self.modules or (n.module in self.modules and self._is_submodule(n.module, a.name)):
                        mod.imports[local] = ('module', full)
                    else:
                        mod.imports[local] = ('object', n.module, a.name)

    def _is_submodule(self, pkg, name):
        return f'{pkg}.{name}' in self.modules

    def _walk(self, mod, node, prefix, cls, parent, top=False):
        lam = [0]
        for ch in self._scope_children(node):
            if isinstance(ch, ast.ClassDef):
                q = f'{prefix}.{ch.name}'
                c = Cls(q, ch, mod)
                self.classes[q] = c
                if top:
                    mod.classes[ch.name] = c
                for s in ch.body:
                    if isinstance(s, ast.Assign) and len(s.targets) == 1 and isinstance(s.targets[0], ast.Name):
                        c.attrs[s.targets[0].id] = s.value
                self._walk(mod, ch, q, c, None)
            elif isinstance(ch, FUNC_NODES):
                q = f'{prefix}.{ch.name}'
                f = Func(q, ch, mod, cls if isinstance(node, ast.ClassDef) else None, parent)
                self.funcs[q] = f
                if isinstance(node, ast.ClassDef):
                    cls.methods[ch.name] = f
                elif parent is not None:
                    parent.nested[ch.name] = f
                elif top or isinstance(node, ast.Module):
                    mod.funcs[ch.name] = f
                self._walk(mod, ch, q, None, f)
            elif isinstance(ch, ast.Lambda):
                lam[0] += 1
                q = f'{prefix}.<lambda{lam[0]}>'
                f = Func(q, ch, mod, None, parent)
                self.funcs[q] = f
                if parent is not None:
                    parent.lambdas.append(f)
                self._walk(mod, ch, q, None, f)
            elif top and isinstance(ch, ast.Assign) and len(ch.targets) == 1 \
                    and isinstance(ch.targets[0], ast.Name):
                mod.assigns[ch.targets[0].id] = ch.value

    def _scope_children(self, node):
        """Direct scope members: defs, classes, lambdas and (for modules)
        assignments, looking through compound statements and expressions."""
        out = []
        if isinstance(node, ast.Lambda):
            st = [node.body] + list(node.args.defaults)
        else:
            st = list(reversed(node.body))
            if isinstance(node, FUNC_NODES):
                st.extend(node.args.defaults)
                st.extend(d for d in node.args.kw_defaults if d is not None)
                st.extend(node.decorator_list)
        while st:
            n = st.pop()
            if isinstance(n, FUNC_NODES + (ast.ClassDef, ast.Lambda)):
                out.append(n)
                continue
            if isinstance(n, ast.Assign):
                out.append(n)
            st.extend(reversed(list(ast.iter_child_nodes(n))))
        return out

    # -- resolution ------------------------------------------------------
    def resolve_class_expr(self, expr, mod):
        """Name / alias.Name -> Cls or None."""
        if isinstance(expr, ast.Name):
            if expr.id in mod.classes:
                return mod.classes[expr.id]
            imp = mod.imports.get(expr.id)
            if imp and imp[0] == 'object':
                m = self.modules.get(imp[1])
                if m:
                    if imp[2] in m.classes:
                        return m.classes[imp[2]]
                    # re-export (filters/__init__)
                    imp2 = m.imports.get(imp[2])
                    if imp2 and imp2[0] == 'object' and imp2[1] in self.modules:
                        return self.modules[imp2[1]].classes.get(imp2[2])
        elif isinstance(expr, ast.Attribute):
            m = self.resolve_module_expr(expr.value, mod)
            if m is not None:
                if expr.attr in m.classes:
                    return m.classes[expr.attr]
                imp = m.imports.get(expr.attr)
                if imp and imp[0] == 'object' and imp[1] in self.modules:
                    return self.modules[imp[1]].classes.get(imp[2])
        return None

    def resolve_module_expr(self, expr, mod):
        """Name or dotted chain naming a package module -> Mod or None."""
        if isinstance(expr, ast.Name):
            imp = mod.imports.get(expr.id)
            if imp and imp[0] == 'module':
                return self.modules.get(imp[1])
            if imp and imp[0] == 'object':
                return self.modules.get(f'{imp[1]}.{imp[2]}')
        elif isinstance(expr, ast.Attribute):
            base = self.resolve_module_expr(expr.value, mod)
            if base is not None:
                sub = self.modules.get(f'{base.name}.{expr.attr}')
                if sub is not None:
                    return sub
                imp = base.imports.get(expr.attr)
                if imp and imp[0] == 'module':
                    return self.modules.get(imp[1])
        return None

    def mro(self, cls):
        out, seen = [], set()

        def rec(c):
            if c.qname in seen:
                return
            seen.add(c.qname)
            out.append(c)
            for b in c.bases:
                rec(b)
        rec(cls)
        return out

    def lookup_method(self, cls, name):
        for c in self.mro(cls):
            if name in c.methods:
                return c.methods[name]
        return None

    def lookup_class_attr(self, cls, name):
        for c in self.mro(cls):
            if name in c.attrs:
                return c.attrs[name], c
        return None, None

    def is_subclass(self, cls, other):
        return other in self.mro(cls)

    def subclasses(self, cls):
        return [c for c in self.classes.values() if cls in self.mro(c)]

    def func(self, qname):
        f = self.funcs.get(qname)
        if f is None:
            raise AnalysisError(f'anchor function {qname} not found')
        return f

    def cls(self, qname):
        c = self.classes.get(qname)
        if c is None:
            raise AnalysisError(f'anchor class {qname} not found')
        return c

    def mod(self, name):
        m = self.modules.get(name)
        if m is None:
            raise AnalysisError(f'anchor module {name} not found')
        return m

    def loc(self, mod_or_func, node):
        m = mod_or_func.mod if isinstance(mod_or_func, (Func, Cls)) else mod_or_func
        return f'{m.relpath}:{getattr(node, "lineno", "?")}'

    def enclosing_func(self, mod, node):
        """Innermost Func whose node contains `node` (by identity walk)."""
        best = None
        for f in self.funcs.values():
            if f.mod is mod:
                for n in ast.walk(f.node):
                    if n is node:
                        if best is None or len(f.qname) > len(best.qname):
                            best = f
                        break
        return best
