"""Normalising front end (run on every module AST before the model is built).

The rules of this framework are written against the shapes the pinned tree uses.  A
maintainer who extracts a private helper, names a guard or writes a conditional
expression where there was an if/else changes the shape but not the behaviour.  This
pass maps such variants back to the shape the rules know, by transformations that are
semantics-preserving by construction:

  N1  inlining of NEW private helpers.  A function or method that does not exist in the
      pinned tree (sa/baseline_funcs.json) and is a plain, non-recursive, non-generator
      def is expanded at its call sites inside the same module:
        * one-expression helpers anywhere in an expression;
        * statement helpers where the call is the whole value of a return / assignment /
          expression statement / if-test (returns are turned into assignments, the
          helper's own tail is duplicated into the arms that do not return; a `for`
          loop that returns from its body becomes `assign; break` with the tail in the
          loop's `else`).
      Parameters bound to names/constants are substituted, others are bound by an
      assignment in front; helper locals that clash with caller names are renamed.
      Functions that already exist in the pinned tree are never inlined (the rules are
      anchored on them), so on the pinned tree N1 is the identity.
  N2  `return a if c else b` / `x = a if c else b`  ->  if c: ... else: ...
  N3  single-assignment names bound to a pure boolean expression over names that are
      never re-bound are replaced by that expression at their uses (named guards).

A helper that cannot be expanded (generator, returns inside while/try/with, ...) is left
alone: the rules then see the call, exactly as without this pass.  Set SA_NO_NORMALIZE=1
to switch the pass off (debugging).
"""
import ast
import copy
import json
import os

_BASE = None


def baseline():
    global _BASE
    if _BASE is None:
        p = os.path.join(os.path.dirname(os.path.abspath(__file__)), 'baseline_funcs.json')
        try:
            with open(p, encoding='utf-8') as fh:
                _BASE = json.load(fh)
        except OSError:
            _BASE = {}
    return _BASE


class Skip(Exception):
    pass


FUNCS = (ast.FunctionDef, ast.AsyncFunctionDef)


def own_walk(node):
    """nodes of a function/statement excluding nested function/class/lambda bodies"""
    stack = list(ast.iter_child_nodes(node))
    while stack:
        n = stack.pop()
        yield n
        if isinstance(n, FUNCS + (ast.ClassDef, ast.Lambda)):
            continue
        stack.extend(ast.iter_child_nodes(n))


def stored_names(fn):
    out = set()
    for n in own_walk(fn):
        if isinstance(n, ast.Name) and isinstance(n.ctx, (ast.Store, ast.Del)):
            out.add(n.id)
    return out


def all_names(fn):
    out = set()
    for n in ast.walk(fn):
        if isinstance(n, ast.Name):
            out.add(n.id)
        elif isinstance(n, ast.arg):
            out.add(n.arg)
    return out


def is_pure(e):
    """no call, no walrus, no yield/await, no comprehension"""
    for n in ast.walk(e):
        if isinstance(n, (ast.Call, ast.NamedExpr, ast.Yield, ast.YieldFrom, ast.Await, ast.ListComp, ast.SetComp, ast.DictComp,
                          ast.GeneratorExp, ast.Lambda)):
            return False
    return True


class Helper:
    def __init__(self, node, cls, kind):
        self.node, self.cls, self.kind = node, cls, kind      # kind: 'func' | 'method' | 'static' | 'class'
        body = list(node.body)
        if body and isinstance(body[0], ast.Expr) and isinstance(body[0].value, ast.Constant) and isinstance(body[0].value.value, str):
            body = body[1:]
        self.body = body
        self.is_expr = len(body) == 1 and isinstance(body[0], ast.Return) and body[0].value is not None
        a = node.args
        self.params = [x.arg for x in a.posonlyargs + a.args]
        self.kwonly = [x.arg for x in a.kwonlyargs]
        self.defaults = {}
        pos = a.posonlyargs + a.args
        for p, d in zip(pos[len(pos) - len(a.defaults):], a.defaults):
            self.defaults[p.arg] = d
        for p, d in zip(a.kwonlyargs, a.kw_defaults):
            if d is not None:
                self.defaults[p.arg] = d
        self.stored = stored_names(node)
        self.is_gen = any(isinstance(n, (ast.Yield, ast.YieldFrom)) for n in own_walk(node))
        if self.is_gen:
            self.is_expr = False
        self.bool_body = None if self.is_gen else bool_chain(body)


def bool_chain(body):
    """`if c: return True|False` ... `return e`  ->  an expression with the same truth value (boolean contexts only)"""
    if not body:
        return None
    s = body[0]
    if isinstance(s, ast.Return) and s.value is not None and len(body) == 1:
        return s.value
    if isinstance(s, ast.If) and not s.orelse and len(s.body) == 1 and isinstance(s.body[0], ast.Return) \
            and isinstance(s.body[0].value, ast.Constant) and s.body[0].value.value in (True, False):
        rest = bool_chain(body[1:])
        if rest is None:
            return None
        if s.body[0].value.value is True:
            return ast.copy_location(ast.BoolOp(op=ast.Or(), values=[s.test, rest]), s)
        return ast.copy_location(ast.BoolOp(op=ast.And(), values=[ast.UnaryOp(op=ast.Not(), operand=s.test), rest]), s)
    return None


def eligible(node, name_in_scope):
    if isinstance(node, ast.AsyncFunctionDef):
        return False
    a = node.args
    if a.vararg or a.kwarg:
        return False
    for d in list(a.defaults) + [x for x in a.kw_defaults if x is not None]:
        if not (isinstance(d, ast.Constant) or (isinstance(d, ast.UnaryOp) and isinstance(d.operand, ast.Constant))):
            return False
    for n in own_walk(node):
        if isinstance(n, (ast.Await, ast.Global, ast.Nonlocal) + FUNCS + (ast.ClassDef,)):
            return False
        if isinstance(n, (ast.Yield, ast.YieldFrom)):
            # a generator helper can only be expanded under `yield from helper(...)`; it must not return
            if any(isinstance(m, ast.Return) for m in own_walk(node)):
                return False
        if isinstance(n, ast.Call):
            f = n.func
            if isinstance(f, ast.Name) and f.id == node.name:
                return False
            if isinstance(f, ast.Attribute) and f.attr == node.name and isinstance(f.value, ast.Name) and f.value.id in ('self', 'cls'):
                return False
            if isinstance(f, ast.Name) and f.id in ('locals', 'vars', 'super'):
                return False
    return True


class _Rename(ast.NodeTransformer):
    def __init__(self, names, subst):
        self.names, self.subst = names, subst

    def visit_Name(self, n):
        if n.id in self.subst and isinstance(n.ctx, ast.Load):
            return copy.deepcopy(self.subst[n.id])
        if n.id in self.names:
            return ast.copy_location(ast.Name(id=self.names[n.id], ctx=n.ctx), n)
        return n

    def visit_Lambda(self, n):
        return n


def returns_in(stmts):
    for s in stmts:
        for n in [s] + list(own_walk(s)):
            if isinstance(n, ast.Return):
                return True
    return False


def structure(stmts, cont, mk):
    """R(stmts, cont): statements equivalent to running `stmts` where `return e` means `mk(e)` and skipping
    everything that follows inside the helper; `cont` runs when stmts falls off its end."""
    if not stmts:
        return copy.deepcopy(cont)
    s, tail = stmts[0], stmts[1:]
    if isinstance(s, ast.Return):
        return mk(s.value, s)
    if isinstance(s, ast.If) and (returns_in(s.body) or returns_in(s.orelse)):
        rest = structure(tail, cont, mk)
        new = ast.If(test=s.test, body=structure(s.body, rest, mk) or [ast.Pass()], orelse=structure(s.orelse, rest, mk))
        return [ast.copy_location(new, s)]
    if isinstance(s, ast.For) and returns_in(s.body):
        if s.orelse or returns_in(s.orelse):
            raise Skip('for-else with return')
        for n in own_walk(s):
            if isinstance(n, (ast.Break,)):
                raise Skip('loop has its own break')
            if isinstance(n, (ast.For, ast.While, ast.Try, ast.With)) and returns_in([n]):
                raise Skip('return in nested loop/try/with')

        def mk_break(e, at):
            return mk(e, at) + [ast.copy_location(ast.Break(), at)]
        body = structure_loop_body(s.body, mk_break)
        new = ast.For(target=s.target, iter=s.iter, body=body, orelse=structure(tail, cont, mk), type_comment=None)
        return [ast.copy_location(new, s)]
    if isinstance(s, ast.Try) and not s.orelse and not returns_in(s.finalbody) and ends(s.body) and all(ends(h.body) for h in s.handlers):
        # every way through the try statement returns or raises: returns become assignments in place, the tail is dead
        new = ast.Try(body=in_place(s.body, mk), handlers=[ast.copy_location(ast.ExceptHandler(type=h.type, name=h.name, body=in_place(h.body, mk)), h)
                                                         for h in s.handlers], orelse=[], finalbody=s.finalbody)
        return [ast.copy_location(new, s)]
    if returns_in([s]):
        raise Skip(f'return inside {type(s).__name__}')
    return [s] + structure(tail, cont, mk)


def ends(stmts):
    """every path through stmts ends in return or raise"""
    if not stmts:
        return False
    last = stmts[-1]
    if isinstance(last, (ast.Return, ast.Raise)):
        return True
    if isinstance(last, ast.If):
        return ends(last.body) and ends(last.orelse)
    if isinstance(last, ast.Try) and not last.orelse:
        return ends(last.body) and all(ends(h.body) for h in last.handlers)
    return False


def in_place(stmts, mk):
    """for a block where every path ends in return/raise: returns -> mk(value), nothing follows"""
    out = []
    for s in stmts:
        if isinstance(s, ast.Return):
            e = s.value
            # the returned expression is evaluated where the return stood (inside the try)
            out += mk(e, s) or [ast.copy_location(ast.Pass(), s)]
            return out
        if isinstance(s, ast.If) and (returns_in(s.body) or returns_in(s.orelse)):
            if not (ends(s.body) and ends(s.orelse)):
                raise Skip('partial return inside try')
            out.append(ast.copy_location(ast.If(test=s.test, body=in_place(s.body, mk), orelse=in_place(s.orelse, mk)), s))
            return out
        if isinstance(s, ast.Try) and returns_in([s]):
            if not ends([s]):
                raise Skip('partial return inside nested try')
            out.append(ast.copy_location(ast.Try(body=in_place(s.body, mk), handlers=[ast.copy_location(
                ast.ExceptHandler(type=h.type, name=h.name, body=in_place(h.body, mk)), h) for h in s.handlers], orelse=[], finalbody=s.finalbody), s))
            return out
        if returns_in([s]):
            raise Skip('return inside loop/with in try')
        out.append(s)
    return out


def structure_loop_body(stmts, mk_break):
    out = []
    for i, s in enumerate(stmts):
        if isinstance(s, ast.Return):
            out += mk_break(s.value, s)
            return out
        if isinstance(s, ast.If) and (returns_in(s.body) or returns_in(s.orelse)):
            new = ast.If(test=s.test, body=structure_loop_body(s.body, mk_break) or [ast.Pass()], orelse=structure_loop_body(s.orelse, mk_break))
            out.append(ast.copy_location(new, s))
            continue
        if returns_in([s]):
            raise Skip('return in loop statement')
        out.append(s)
    return out


class ModuleNormalizer:
    def __init__(self, tree, modname, base):
        self.tree, self.modname = tree, modname
        rec = base.get(modname)
        self.base = set(rec['funcs']) if rec else None
        self.keep_ifexp = rec['ifexp'] if rec else {}
        self.keep_guards = rec['guards'] if rec else {}
        self.keep_aliases = rec.get('aliases', {}) if rec else {}
        self.helpers = {}        # ('', name) or (classname, name) -> Helper
        self.class_bases = {}
        self.tmp = 0
        self.inlined = []

    # ---------------------------------------------------------------- N1
    def collect(self):
        if self.base is None:
            return
        method_owners = {}
        for node in self.tree.body:
            if isinstance(node, ast.FunctionDef) and node.name not in self.base and not node.decorator_list and eligible(node, None):
                self.helpers[('', node.name)] = Helper(node, None, 'func')
            elif isinstance(node, ast.ClassDef):
                self.class_bases[node.name] = [b.id for b in node.bases if isinstance(b, ast.Name)]
                for m in node.body:
                    if isinstance(m, FUNCS):
                        method_owners.setdefault(m.name, []).append(node.name)
                    if isinstance(m, ast.FunctionDef) and f'{node.name}.{m.name}' not in self.base and node.name in {q.split('.')[0] for q in self.base}:
                        decs = [d.id for d in m.decorator_list if isinstance(d, ast.Name)]
                        if len(decs) != len(m.decorator_list) or any(d not in ('staticmethod', 'classmethod') for d in decs):
                            continue
                        if not eligible(m, None):
                            continue
                        kind = 'static' if 'staticmethod' in decs else 'class' if 'classmethod' in decs else 'method'
                        self.helpers[(node.name, m.name)] = Helper(m, node.name, kind)
        # a method name defined in more than one class of the module is ambiguous under `self.` dispatch
        for (c, n) in list(self.helpers):
            if c and len(method_owners.get(n, [])) > 1:
                del self.helpers[(c, n)]

    def resolve(self, call, cur_class):
        f = call.func
        if isinstance(f, ast.Name):
            return self.helpers.get(('', f.id)), None
        if isinstance(f, ast.Attribute) and isinstance(f.value, ast.Name):
            recv = f.value.id
            if recv in ('self', 'cls') and cur_class:
                chain, seen = [cur_class], set()
                while chain:
                    c = chain.pop(0)
                    if c in seen:
                        continue
                    seen.add(c)
                    h = self.helpers.get((c, f.attr))
                    if h is not None:
                        return h, recv
                    chain += self.class_bases.get(c, [])
            elif recv in self.class_bases:
                h = self.helpers.get((recv, f.attr))
                if h is not None and h.kind in ('static', 'class'):
                    return h, recv
        return None, None

    def bind(self, h, call, recv):
        """-> dict param -> arg expression"""
        if any(isinstance(a, ast.Starred) for a in call.args) or any(k.arg is None for k in call.keywords):
            raise Skip('star args')
        params = list(h.params)
        bound = {}
        if h.kind in ('method', 'class'):
            if recv in ('self', 'cls'):
                first = params.pop(0)
                bound[first] = ast.Name(id=recv if h.kind == 'method' else ('cls' if recv == 'cls' else None) or recv, ctx=ast.Load())
                if h.kind == 'class' and recv == 'self':
                    raise Skip('classmethod through self')
            else:
                first = params.pop(0)
                bound[first] = ast.Name(id=recv, ctx=ast.Load())
        if len(call.args) > len(params):
            raise Skip('too many args')
        for p, a in zip(params, call.args):
            bound[p] = a
        for k in call.keywords:
            if k.arg in bound or k.arg not in params + h.kwonly:
                raise Skip('bad keyword')
            bound[k.arg] = k.value
        for p in params + h.kwonly:
            if p not in bound:
                if p not in h.defaults:
                    raise Skip('missing argument')
                bound[p] = copy.deepcopy(h.defaults[p])
        return bound

    def prepare(self, h, call, recv, caller_names, expr_position, target_name=None, target_names=()):
        """-> (pre statements, renamed deep copy of the helper body)"""
        bound = self.bind(h, call, recv)
        subst, pre, rename = {}, [], {}
        for p, a in bound.items():
            # x = h(x, ...): a parameter the helper re-binds can share the caller's variable, which the call overwrites anyway
            if target_name is not None and p in h.stored and isinstance(a, ast.Name) and a.id == target_name and not any(
                    isinstance(n, ast.Name) and n.id == target_name for q, b in bound.items() if q != p for n in ast.walk(b)):
                rename[p] = target_name
                continue
            if not expr_position and p in h.stored and isinstance(a, ast.Name) and a.id not in h.stored - {p} and not any(
                    isinstance(n, ast.Name) and n.id == a.id for q, b in bound.items() if q != p for n in ast.walk(b)) \
                    and self.dead_after(a.id, call):
                # the caller never reads its variable again: the helper's re-bound parameter can live in it
                rename[p] = a.id
                continue
            direct = isinstance(a, (ast.Name, ast.Constant)) or (isinstance(a, ast.UnaryOp) and isinstance(a.operand, ast.Constant))
            if not direct and isinstance(a, ast.Attribute):
                # a plain attribute chain (args.encoding): substituted when the helper stores to no attribute of that name
                chain, attrs = a, set()
                while isinstance(chain, ast.Attribute):
                    attrs.add(chain.attr)
                    chain = chain.value
                stored_attrs = {n.attr for n in own_walk(h.node) if isinstance(n, ast.Attribute) and isinstance(n.ctx, (ast.Store, ast.Del))}
                direct = isinstance(chain, ast.Name) and chain.id not in h.stored and not (attrs & stored_attrs)
            if p in h.stored:
                direct = False
            if isinstance(a, ast.Name) and a.id in h.stored and a.id != p:
                # the helper has a local with the caller's variable name: it gets renamed below, fine
                pass
            if direct:
                subst[p] = a
            elif expr_position:
                if p in h.stored or not is_pure(a):
                    raise Skip('impure argument in expression position')
                subst[p] = a
            else:
                name = p if p not in caller_names else f'{p}__{h.node.name}'
                rename[p] = name
                pre.append(ast.copy_location(ast.Assign(targets=[ast.Name(id=name, ctx=ast.Store())], value=a, lineno=call.lineno), call))
        for loc in h.stored:
            if loc in rename or loc in subst:
                continue
            if loc in target_names and loc not in bound and not any(isinstance(n, ast.Name) and n.id == loc for b in bound.values() for n in ast.walk(b)):
                # the call statement overwrites this caller variable: the helper's local of the same name can share it
                continue
            if loc in caller_names:
                rename[loc] = f'{loc}__{h.node.name}'
        body = [_Rename(rename, subst).visit(copy.deepcopy(s)) for s in h.body]
        for s in pre:
            ast.fix_missing_locations(s)
        return pre, body

    def expand_expr_calls(self, node, cur_class, caller_names):
        """replace calls to one-expression helpers inside the expressions of `node` (not inside nested statements)"""
        mn = self

        class T(ast.NodeTransformer):
            def visit_Call(self, c):
                self.generic_visit(c)
                h, recv = mn.resolve(c, cur_class)
                if h is None or not h.is_expr:
                    return c
                try:
                    pre, body = mn.prepare(h, c, recv, caller_names, True)
                except Skip:
                    return c
                mn.inlined.append(h.node.name)
                return ast.copy_location(body[0].value, c)

            def visit_Lambda(self, n):
                return n

            def visit_FunctionDef(self, n):
                return n
        return T().visit(node)

    def expand_bool_context(self, e, cur_class, caller_names):
        """in a test only the truth value matters: predicate helpers of the form `if c: return True ... return e` are
        replaced by the equivalent boolean expression"""
        if isinstance(e, ast.BoolOp):
            e.values = [self.expand_bool_context(v, cur_class, caller_names) for v in e.values]
            return e
        if isinstance(e, ast.UnaryOp) and isinstance(e.op, ast.Not):
            e.operand = self.expand_bool_context(e.operand, cur_class, caller_names)
            return e
        if isinstance(e, ast.Call):
            h, recv = self.resolve(e, cur_class)
            if h is not None and not h.is_expr and h.bool_body is not None:
                try:
                    bound = self.bind(h, e, recv)
                except Skip:
                    return e
                subst = {}
                for p_, a in bound.items():
                    if p_ in h.stored or not is_pure(a):
                        return e
                    subst[p_] = a
                if h.stored:
                    return e
                new = _Rename({}, subst).visit(copy.deepcopy(h.bool_body))
                self.inlined.append(h.node.name)
                return self.expand_bool_context(ast.copy_location(new, e), cur_class, caller_names)
        return e

    def header_exprs(self, s):
        """(attribute name, expression) pairs evaluated when statement s itself starts"""
        if isinstance(s, (ast.Return, ast.Expr, ast.Assign, ast.AugAssign, ast.AnnAssign)):
            return [('value', s.value)] if s.value is not None else []
        if isinstance(s, (ast.If, ast.While)):
            return [('test', s.test)]
        if isinstance(s, ast.For):
            return [('iter', s.iter)]
        if isinstance(s, ast.Raise) and s.exc is not None:
            return [('exc', s.exc)]
        if isinstance(s, ast.Assert):
            return [('test', s.test)]
        return []

    def expand_block(self, stmts, cur_class, caller_names, depth=0):
        out = []
        chain = getattr(self, '_follow', ())
        for i, s in enumerate(stmts):
            self._follow = (('stmts', stmts[i + 1:]),) + chain
            self._current = s
            out += self.expand_stmt(s, cur_class, caller_names, depth)
        self._follow = chain
        return out

    def dead_after(self, name, call):
        """the caller's variable `name` is not read after the statement being expanded (other than by the call itself)"""
        def loads(node, skip=None):
            for n in ast.walk(node):
                if n is skip:
                    continue
                if isinstance(n, ast.Name) and n.id == name and isinstance(n.ctx, ast.Load):
                    if skip is not None and any(m is n for m in ast.walk(skip)):
                        continue
                    return True
            return False
        cur = getattr(self, '_current', None)
        if cur is not None and loads(cur, call):
            return False
        for kind, x in getattr(self, '_follow', ()):
            if kind == 'stmts':
                if any(loads(st) for st in x):
                    return False
            else:
                binds = isinstance(x, ast.For) and any(isinstance(n, ast.Name) and n.id == name for n in ast.walk(x.target))
                if binds:
                    if any(loads(st) for st in x.orelse):
                        return False
                elif loads(x):
                    return False
        return True

    def expand_stmt(self, s, cur_class, caller_names, depth):
        if isinstance(s, FUNCS + (ast.ClassDef,)):
            return [s]
        # expression helpers in the header expressions and in simple statements
        if isinstance(s, (ast.If, ast.While, ast.Assert)):
            s.test = self.expand_bool_context(s.test, cur_class, caller_names)
        for attr, e in self.header_exprs(s):
            setattr(s, attr, self.expand_expr_calls(e, cur_class, caller_names))
        if isinstance(s, ast.With):
            for it in s.items:
                it.context_expr = self.expand_expr_calls(it.context_expr, cur_class, caller_names)
        replaced = None
        if depth < 6:
            replaced = self.try_statement_helper(s, cur_class, caller_names)
        if replaced is not None:
            return self.expand_block(replaced, cur_class, caller_names, depth + 1)
        saved = getattr(self, '_follow', ())
        for field in ('body', 'orelse', 'finalbody'):
            v = getattr(s, field, None)
            if isinstance(v, list) and v and isinstance(v[0], ast.stmt):
                if isinstance(s, (ast.For, ast.While)) and field == 'body':
                    self._follow = (('loop', s),) + saved
                elif isinstance(s, ast.Try) and field == 'body':
                    # an exception can transfer control to a handler at any point
                    after = [x for h in s.handlers for x in h.body] + list(s.orelse) + list(s.finalbody)
                    self._follow = (('stmts', after),) + saved
                elif isinstance(s, ast.Try):
                    self._follow = (('stmts', list(s.finalbody)),) + saved
                else:
                    self._follow = saved
                setattr(s, field, self.expand_block(v, cur_class, caller_names, depth))
        self._follow = saved
        if isinstance(s, ast.Try):
            for h in s.handlers:
                self._follow = (('stmts', [s]),) + saved
                h.body = self.expand_block(h.body, cur_class, caller_names, depth)
            self._follow = saved
        if hasattr(ast, 'Match') and isinstance(s, ast.Match):
            for c in s.cases:
                c.body = self.expand_block(c.body, cur_class, caller_names, depth)
        return [s]

    def try_statement_helper(self, s, cur_class, caller_names):
        def helper_of(e, gen=False):
            if isinstance(e, ast.Call):
                h, recv = self.resolve(e, cur_class)
                if h is not None and not h.is_expr and h.is_gen == gen:
                    return h, recv
            return None, None
        try:
            # yield from g(...)   with g a generator helper that never returns: the body runs in place
            if isinstance(s, ast.Expr) and isinstance(s.value, ast.YieldFrom):
                h, recv = helper_of(s.value.value, gen=True)
                if h is not None:
                    pre, body = self.prepare(h, s.value.value, recv, caller_names, False)
                    self.inlined.append(h.node.name)
                    return pre + body
                return None
            # yield h(...)
            if isinstance(s, ast.Expr) and isinstance(s.value, ast.Yield) and s.value.value is not None:
                h, recv = helper_of(s.value.value)
                if h is not None:
                    return self.hoist(s, s.value.value, h, recv, caller_names, lambda new: setattr(s.value, 'value', new))
                return None
            # for T in g(...): BODY   with g a generator helper that has a single `yield V`:  g's body with `T = V; BODY` at the yield
            if isinstance(s, ast.For) and not s.orelse:
                h, recv = helper_of(s.iter, gen=True)
                if h is not None:
                    return self.fuse_generator(s, h, recv, caller_names)
            # for x in h(...):   the iterable is evaluated once, before the loop
            if isinstance(s, ast.For):
                h, recv = helper_of(s.iter)
                if h is not None:
                    return self.hoist(s, s.iter, h, recv, caller_names, lambda new: setattr(s, 'iter', new))
                return None
            # return h(...)
            if isinstance(s, ast.Return) and s.value is not None:
                h, recv = helper_of(s.value)
                if h is not None:
                    pre, body = self.prepare(h, s.value, recv, caller_names, False)
                    self.inlined.append(h.node.name)
                    tail = [] if self.always_returns(body) else [ast.copy_location(ast.Return(value=None), s)]
                    # a helper that falls off its end returns None
                    if tail:
                        tail = [ast.copy_location(ast.Return(value=ast.Constant(value=None)), s)]
                    return pre + body + tail
                return None
            # h(...)  |  x = h(...)  |  x += h(...)
            if isinstance(s, (ast.Expr, ast.Assign, ast.AugAssign)) and s.value is not None:
                h, recv = helper_of(s.value)
                if h is not None:
                    tn = s.targets[0].id if isinstance(s, ast.Assign) and len(s.targets) == 1 and isinstance(s.targets[0], ast.Name) else None
                    tns = set()
                    if isinstance(s, ast.Assign) and len(s.targets) == 1:
                        t0 = s.targets[0]
                        if isinstance(t0, ast.Name):
                            tns = {t0.id}
                        elif isinstance(t0, ast.Tuple) and all(isinstance(e, ast.Name) for e in t0.elts):
                            tns = {e.id for e in t0.elts}
                    pre, body = self.prepare(h, s.value, recv, caller_names, False, tn, tns)

                    def mk(e, at, s=s):
                        e = e if e is not None else ast.Constant(value=None)
                        if isinstance(s, ast.Expr):
                            return [] if is_pure(e) else [ast.copy_location(ast.Expr(value=e), at)]
                        if isinstance(s, ast.Assign):
                            if len(s.targets) == 1 and isinstance(s.targets[0], ast.Name) and isinstance(e, ast.Name) and e.id == s.targets[0].id:
                                return []
                            if len(s.targets) == 1 and isinstance(s.targets[0], ast.Tuple) and isinstance(e, ast.Tuple) \
                                    and [ast.dump(x) for x in s.targets[0].elts] == [ast.dump(x).replace('Load()', 'Store()') for x in e.elts] \
                                    and all(isinstance(x, ast.Name) for x in e.elts):
                                return []
                            new = ast.Assign(targets=copy.deepcopy(s.targets), value=e, lineno=at.lineno)
                        else:
                            new = ast.AugAssign(target=copy.deepcopy(s.target), op=s.op, value=e)
                        return [ast.copy_location(new, at)]
                    cont = [] if isinstance(s, ast.Expr) else mk(None, s)
                    new = structure(body, cont, mk)
                    self.inlined.append(h.node.name)
                    return pre + (new or [ast.copy_location(ast.Pass(), s)])
                # outer call whose argument is a statement helper: f(a, h(x)) with pure parts in front
                if isinstance(s.value, ast.Call) and is_pure(s.value.func):
                    for i, a in enumerate(s.value.args):
                        h, recv = helper_of(a)
                        if h is not None and all(is_pure(x) for x in s.value.args[:i]):
                            return self.hoist(s, a, h, recv, caller_names, lambda new, i=i: s.value.args.__setitem__(i, new))
                        if not is_pure(a):
                            break
                return None
            # if h(...):  /  if not h(...):
            if isinstance(s, ast.If):
                t = s.test
                if isinstance(t, ast.UnaryOp) and isinstance(t.op, ast.Not):
                    h, recv = helper_of(t.operand)
                    if h is not None:
                        return self.hoist(s, t.operand, h, recv, caller_names, lambda new: setattr(t, 'operand', new))
                h, recv = helper_of(t)
                if h is not None:
                    return self.hoist(s, t, h, recv, caller_names, lambda new: setattr(s, 'test', new))
        except Skip:
            return None
        return None

    def fuse_generator(self, s, h, recv, caller_names):
        ys = [n for n in own_walk(h.node) if isinstance(n, (ast.Yield, ast.YieldFrom))]
        if len(ys) != 1 or not isinstance(ys[0], ast.Yield) or ys[0].value is None:
            raise Skip('generator with several yields')

        def loop_level(stmts, kinds):
            # break/continue statements of `stmts` that belong to the for loop itself (not to nested loops)
            out = []
            for st in stmts:
                if isinstance(st, kinds):
                    out.append(st)
                elif isinstance(st, (ast.For, ast.While)):
                    out += loop_level(st.orelse, kinds)
                elif isinstance(st, (ast.If, ast.With, ast.Try)):
                    for fld in ('body', 'orelse', 'finalbody'):
                        out += loop_level(getattr(st, fld, []) or [], kinds)
                    for hd in getattr(st, 'handlers', []):
                        out += loop_level(hd.body, kinds)
            return out
        if loop_level(s.body, (ast.Continue,)):
            raise Skip('continue in the body would skip the generator step')
        pre, body = self.prepare(h, s.iter, recv, caller_names | all_names(s), False)
        # locate the yield statement in the copied body
        found = []

        def place(stmts, in_loop, is_last):
            for i, st in enumerate(stmts):
                last = is_last and i == len(stmts) - 1
                if isinstance(st, ast.Expr) and isinstance(st.value, ast.Yield):
                    assign = ast.copy_location(ast.Assign(targets=[copy.deepcopy(s.target)], value=st.value.value, lineno=st.lineno), st)
                    for n in ast.walk(assign.targets[0]):
                        if hasattr(n, 'ctx'):
                            n.ctx = ast.Store()
                    stmts[i:i + 1] = [assign] + s.body
                    found.append((in_loop, last))
                    return True
                if isinstance(st, (ast.For, ast.While)):
                    if place(st.body, True, last):
                        return True
                elif isinstance(st, ast.If):
                    if place(st.body, in_loop, last) or place(st.orelse, in_loop, last):
                        return True
                elif any(isinstance(n, ast.Yield) for n in ast.walk(st)):
                    raise Skip('yield inside try/with/expression')
            return False
        if not place(body, False, True) or not found:
            raise Skip('yield not found')
        in_loop, tail_ok = found[0]
        if loop_level(s.body, (ast.Break,)) and not in_loop:
            raise Skip('break without an enclosing generator loop')
        if loop_level(s.body, (ast.Break,)):
            # leaving the for loop abandons the generator: nothing of the generator may run afterwards
            top_last = body[-1] if body else None
            if not (isinstance(top_last, (ast.For, ast.While)) and any(isinstance(n, ast.Assign) and n in ast.walk(top_last) for n in [None]) is False):
                pass
            if not isinstance(top_last, (ast.For, ast.While)) or top_last.orelse:
                raise Skip('statements after the generator loop would run after a break')
        self.inlined.append(h.node.name)
        return pre + body

    def hoist(self, s, call, h, recv, caller_names, put):
        self.tmp += 1
        name = f'_r_{h.node.name.lstrip("_")}' + (str(self.tmp) if f'_r_{h.node.name.lstrip("_")}' in caller_names else '')
        caller_names.add(name)
        pre, body = self.prepare(h, call, recv, caller_names, False)

        def mk(e, at):
            e = e if e is not None else ast.Constant(value=None)
            return [ast.copy_location(ast.Assign(targets=[ast.Name(id=name, ctx=ast.Store())], value=e, lineno=at.lineno), at)]
        new = structure(body, mk(None, s), mk)
        stores = [n for st in new for n in ast.walk(st) if isinstance(n, ast.Name) and n.id == name and isinstance(n.ctx, ast.Store)]
        if len(stores) == 1 and new and isinstance(new[-1], ast.Assign) and len(new[-1].targets) == 1 and new[-1].targets[0] is stores[0] \
                and isinstance(new[-1].value, (ast.Name, ast.Constant)):
            # the helper's single result is a plain name: use it directly
            put(ast.copy_location(new[-1].value, call))
            new = new[:-1]
        else:
            put(ast.copy_location(ast.Name(id=name, ctx=ast.Load()), call))
        self.inlined.append(h.node.name)
        return pre + new + [s]

    def always_returns(self, stmts):
        if not stmts:
            return False
        last = stmts[-1]
        if isinstance(last, (ast.Return, ast.Raise)):
            return True
        if isinstance(last, ast.If):
            return self.always_returns(last.body) and self.always_returns(last.orelse)
        return False

    def inline_all(self):
        self.collect()
        if not self.helpers:
            return
        # helpers first (helper calling helper), three rounds
        for _ in range(3):
            for (c, n), h in self.helpers.items():
                names = all_names(h.node)
                h.node.body = self.expand_block(h.node.body, c or None, names)
                nh = Helper(h.node, h.cls, h.kind)
                h.body, h.is_expr, h.stored, h.bool_body, h.is_gen = nh.body, nh.is_expr, nh.stored, nh.bool_body, nh.is_gen
        self.visit_functions(self.tree, None)
        self.drop_dead_helpers()

    def drop_dead_helpers(self):
        """a new private helper all of whose calls were expanded is dead code"""
        for (c, n), h in list(self.helpers.items()):
            if not n.startswith('_') or n.startswith('__'):
                continue
            if n not in self.inlined:
                # never expanded anywhere: it may be reached dynamically (getattr dispatch on the name)
                continue
            refs = 0
            for node in ast.walk(self.tree):
                if node is h.node:
                    continue
                if isinstance(node, ast.Name) and node.id == n and not c:
                    refs += 1
                elif isinstance(node, ast.Attribute) and node.attr == n:
                    refs += 1
                elif isinstance(node, ast.Constant) and node.value == n:
                    refs += 1       # getattr(self, '<name>') style dispatch
            inside = sum(1 for node in ast.walk(h.node) if (isinstance(node, ast.Name) and node.id == n) or (isinstance(node, ast.Attribute) and node.attr == n))
            if refs - inside > 0:
                continue
            owner = self.tree.body if not c else next(k.body for k in self.tree.body if isinstance(k, ast.ClassDef) and k.name == c)
            if h.node in owner:
                owner.remove(h.node)
                if not owner:
                    owner.append(ast.Pass())

    def visit_functions(self, node, cur_class):
        for ch in ast.iter_child_nodes(node):
            if isinstance(ch, ast.ClassDef):
                self.visit_functions(ch, ch.name)
            elif isinstance(ch, FUNCS):
                if any(h.node is ch for h in self.helpers.values()):
                    continue
                names = all_names(ch)
                ch.body = self.expand_block(ch.body, cur_class, names)
                self.visit_functions(ch, cur_class)

    def units(self):
        """(qualified name, def node) of module-level functions and methods"""
        for n in self.tree.body:
            if isinstance(n, FUNCS):
                yield n.name, n
            elif isinstance(n, ast.ClassDef):
                for m in n.body:
                    if isinstance(m, FUNCS):
                        yield f'{n.name}.{m.name}', m

    # ---------------------------------------------------------------- N2
    def split_ifexp(self):
        keep = set()

        class T(ast.NodeTransformer):
            def visit_Return(self, s):
                if isinstance(s.value, ast.IfExp) and ast.unparse(s) not in keep:
                    v = s.value
                    new = ast.If(test=v.test, body=[ast.copy_location(ast.Return(value=v.body), s)],
                                 orelse=[ast.copy_location(ast.Return(value=v.orelse), s)])
                    return self.visit(ast.copy_location(new, s))
                return s

            def visit_Assign(self, s):
                if isinstance(s.value, ast.IfExp) and len(s.targets) == 1 and is_pure_target(s.targets[0], s.value.test) \
                        and ast.unparse(s) not in keep:
                    v = s.value
                    new = ast.If(test=v.test, body=[ast.copy_location(ast.Assign(targets=copy.deepcopy(s.targets), value=v.body, lineno=s.lineno), s)],
                                 orelse=[ast.copy_location(ast.Assign(targets=copy.deepcopy(s.targets), value=v.orelse, lineno=s.lineno), s)])
                    return self.visit(ast.copy_location(new, s))
                return s

            def visit_Lambda(self, n):
                return n

        def is_pure_target(t, test):
            # the target expression is evaluated after the value: splitting must not reorder effects
            return isinstance(t, ast.Name) or (is_pure(t) and True)
        if self.base is None:
            return
        for q, fn in self.units():
            keep.clear()
            keep.update(self.keep_ifexp.get(q, []))
            fn.body = [T().visit(s) for s in fn.body]

    # ---------------------------------------------------------------- N3
    def propagate_guards(self):
        if self.base is None:
            return
        for q, top in self.units():
          self._keep_names = set(self.keep_guards.get(q, []))
          for fn in [n for n in ast.walk(top) if isinstance(n, FUNCS)]:
              counts = {}
              for n in own_walk(fn):
                  if isinstance(n, ast.Name) and isinstance(n.ctx, (ast.Store, ast.Del)):
                      counts[n.id] = counts.get(n.id, 0) + 1
              a = fn.args
              params = {x.arg for x in a.posonlyargs + a.args + a.kwonlyargs} | ({a.vararg.arg} if a.vararg else set()) | ({a.kwarg.arg} if a.kwarg else set())
              nested_stores = set()
              for n in ast.walk(fn):
                  if isinstance(n, FUNCS + (ast.Lambda,)) and n is not fn:
                      for m in ast.walk(n):
                          if isinstance(m, ast.Name) and isinstance(m.ctx, ast.Store):
                              nested_stores.add(m.id)
              self._propagate_in_block(fn, fn.body, counts, params, nested_stores)

    def _propagate_in_block(self, fn, stmts, counts, params, nested_stores):
        i = 0
        while i < len(stmts):
            s = stmts[i]
            for field in ('body', 'orelse', 'finalbody'):
                v = getattr(s, field, None)
                if isinstance(v, list) and v and isinstance(v[0], ast.stmt) and not isinstance(s, FUNCS + (ast.ClassDef,)):
                    self._propagate_in_block(fn, v, counts, params, nested_stores)
            if isinstance(s, ast.Try):
                for h in s.handlers:
                    self._propagate_in_block(fn, h.body, counts, params, nested_stores)
            if isinstance(s, ast.Assign) and len(s.targets) == 1 and isinstance(s.targets[0], ast.Name) \
                    and s.targets[0].id in self._keep_names:
                i += 1
                continue
            if isinstance(s, ast.Assign) and len(s.targets) == 1 and isinstance(s.targets[0], ast.Name) \
                    and counts.get(s.targets[0].id) == 1 and s.targets[0].id not in params and s.targets[0].id not in nested_stores \
                    and isinstance(s.value, (ast.Compare, ast.BoolOp)) or (isinstance(s, ast.Assign) and len(s.targets) == 1
                                                                         and isinstance(s.targets[0], ast.Name) and counts.get(s.targets[0].id) == 1
                                                                         and s.targets[0].id not in params and s.targets[0].id not in nested_stores
                                                                         and isinstance(s.value, ast.UnaryOp) and isinstance(s.value.op, ast.Not)):
                name = s.targets[0].id
                v = s.value
                strict = True
                has_attr_on_local = False
                for n in ast.walk(v):
                    if isinstance(n, (ast.Call, ast.NamedExpr, ast.Yield, ast.YieldFrom, ast.Await, ast.Lambda, ast.ListComp, ast.GeneratorExp,
                                      ast.SetComp, ast.DictComp, ast.Subscript)):
                        strict = False
                    if isinstance(n, ast.Name):
                        # operand names must be bound once (parameters: never re-bound)
                        c = counts.get(n.id, 0)
                        if n.id in params and c > 0:
                            strict = False
                        if n.id not in params and c > 1:
                            strict = False
                    if isinstance(n, ast.Attribute):
                        root = n
                        while isinstance(root, ast.Attribute):
                            root = root.value
                        if isinstance(root, ast.Name) and (root.id in params or root.id in counts):
                            has_attr_on_local = True
                uses = [n for n in own_walk(fn) if isinstance(n, ast.Name) and n.id == name and isinstance(n.ctx, ast.Load)]
                nested_use = any(isinstance(m, ast.Name) and m.id == name for n in ast.walk(fn) if isinstance(n, FUNCS + (ast.Lambda,)) and n is not fn
                                 for m in ast.walk(n))
                ok = False
                if uses and not nested_use:
                    if strict and not has_attr_on_local:
                        ok = True
                    else:
                        # the value may depend on mutable state or have effects: only a single use that is the first thing the
                        # next statement evaluates can take the expression in place of the name
                        nxt = stmts[i + 1] if i + 1 < len(stmts) else None
                        if nxt is not None and isinstance(nxt, (ast.If, ast.Assert, ast.Return, ast.Assign, ast.Expr)) and len(uses) == 1:
                            hdr = [e for _, e in self.header_exprs(nxt)]
                            first = hdr[0] if hdr else None
                            while isinstance(first, ast.BoolOp):
                                first = first.values[0]
                            if isinstance(first, ast.UnaryOp) and isinstance(first.op, ast.Not):
                                first = first.operand
                            ok = first is uses[0]
                if ok:
                    class T(ast.NodeTransformer):
                        def visit_Name(self, n):
                            if n.id == name and isinstance(n.ctx, ast.Load):
                                return ast.copy_location(copy.deepcopy(v), n)
                            return n

                        def visit_Lambda(self, n):
                            return n
                    for j in range(i + 1, len(stmts)):
                        stmts[j] = T().visit(stmts[j])
                    remaining = [n for n in own_walk(fn) if isinstance(n, ast.Name) and n.id == name and isinstance(n.ctx, ast.Load)]
                    if not remaining:
                        stmts[i] = ast.copy_location(ast.Pass(), s)
            i += 1

    # ---------------------------------------------------------------- N6 / N5
    def fold_accumulators(self):
        """acc = [] ; for T in IT: [if C:] acc.append(E) ; <one use of acc>   ->   <use of [E for T in IT if C]>
        (the accumulator is a new local with no other use; evaluation order is that of the comprehension)"""
        if self.base is None:
            return
        for fn in [n for n in ast.walk(self.tree) if isinstance(n, FUNCS)]:
            self._fold_acc_block(fn, fn.body)

    def _fold_acc_block(self, fn, stmts):
        i = 0
        while i < len(stmts):
            s = stmts[i]
            for fld in ('body', 'orelse', 'finalbody'):
                sub = getattr(s, fld, None)
                if isinstance(sub, list) and sub and isinstance(sub[0], ast.stmt) and not isinstance(s, FUNCS + (ast.ClassDef,)):
                    self._fold_acc_block(fn, sub)
            for h in getattr(s, 'handlers', []) or []:
                self._fold_acc_block(fn, h.body)
            if isinstance(s, ast.Assign) and len(s.targets) == 1 and isinstance(s.targets[0], ast.Name) and isinstance(s.value, ast.List) \
                    and not s.value.elts and i + 2 < len(stmts) and isinstance(stmts[i + 1], ast.For) and not stmts[i + 1].orelse:
                acc = s.targets[0].id
                lp, use = stmts[i + 1], stmts[i + 2]
                body, ifs = lp.body, []
                while len(body) == 1 and isinstance(body[0], ast.If) and not body[0].orelse:
                    ifs.append(body[0].test)
                    body = body[0].body
                app = body[0] if len(body) == 1 else None
                ok = isinstance(app, ast.Expr) and isinstance(app.value, ast.Call) and isinstance(app.value.func, ast.Attribute) \
                    and app.value.func.attr == 'append' and isinstance(app.value.func.value, ast.Name) and app.value.func.value.id == acc \
                    and len(app.value.args) == 1 and not app.value.keywords
                refs = [n for n in ast.walk(fn) if isinstance(n, ast.Name) and n.id == acc]
                use_refs = [n for n in ast.walk(use) if isinstance(n, ast.Name) and n.id == acc and isinstance(n.ctx, ast.Load)]
                elt_mentions = ok and any(isinstance(n, ast.Name) and n.id == acc for x in [app.value.args[0], lp.iter] + ifs for n in ast.walk(x))
                if ok and len(refs) == 3 and len(use_refs) == 1 and not elt_mentions and not isinstance(use, (ast.For, ast.While, ast.If, ast.With, ast.Try)):
                    comp = ast.ListComp(elt=app.value.args[0], generators=[ast.comprehension(target=lp.target, iter=lp.iter, ifs=ifs, is_async=0)])
                    ast.copy_location(comp, lp)

                    class T(ast.NodeTransformer):
                        def visit_Name(self, n):
                            if n.id == acc and isinstance(n.ctx, ast.Load):
                                return comp
                            return n
                    stmts[i:i + 3] = [T().visit(use)]
                    continue
            i += 1

    def desugar_walrus(self):
        """`if (x := e) ...:` where the walrus is the first thing the test evaluates  ->  `x = e` ; `if x ...:`"""
        for fn in [n for n in ast.walk(self.tree) if isinstance(n, FUNCS)]:
            self._walrus_block(fn.body)

    def _walrus_block(self, stmts):
        i = 0
        while i < len(stmts):
            s = stmts[i]
            for fld in ('body', 'orelse', 'finalbody'):
                sub = getattr(s, fld, None)
                if isinstance(sub, list) and sub and isinstance(sub[0], ast.stmt) and not isinstance(s, FUNCS + (ast.ClassDef,)):
                    self._walrus_block(sub)
            for h in getattr(s, 'handlers', []) or []:
                self._walrus_block(h.body)
            if isinstance(s, ast.If):
                # locate the first evaluated sub-expression of the test
                holder, fld, idx = s, 'test', None
                e = s.test
                while True:
                    if isinstance(e, ast.BoolOp):
                        holder, fld, idx, e = e, 'values', 0, e.values[0]
                    elif isinstance(e, ast.UnaryOp) and isinstance(e.op, ast.Not):
                        holder, fld, idx, e = e, 'operand', None, e.operand
                    elif isinstance(e, ast.Compare):
                        holder, fld, idx, e = e, 'left', None, e.left
                    else:
                        break
                if isinstance(e, ast.NamedExpr) and isinstance(e.target, ast.Name):
                    new = ast.copy_location(ast.Name(id=e.target.id, ctx=ast.Load()), e)
                    if idx is None:
                        setattr(holder, fld, new)
                    else:
                        getattr(holder, fld)[idx] = new
                    asg = ast.copy_location(ast.Assign(targets=[ast.Name(id=e.target.id, ctx=ast.Store())], value=e.value, lineno=s.lineno), s)
                    stmts.insert(i, asg)
                    i += 1
            i += 1

    # ---------------------------------------------------------------- N4
    def propagate_attr_aliases(self):
        """`x = obj.a.b` (a new, single-assignment local) is replaced by the chain at its later uses when nothing in between can
        change what the chain denotes: no store to an attribute named like one of the chain, no re-binding of its root, and no call
        that receives the root object (as receiver or argument)."""
        if self.base is None:
            return
        for q, top in self.units():
            keep = set(self.keep_aliases.get(q, []))
            for fn in [n for n in ast.walk(top) if isinstance(n, FUNCS)]:
                counts = {}
                for n in own_walk(fn):
                    if isinstance(n, ast.Name) and isinstance(n.ctx, (ast.Store, ast.Del)):
                        counts[n.id] = counts.get(n.id, 0) + 1
                params = {x.arg for x in fn.args.posonlyargs + fn.args.args + fn.args.kwonlyargs}
                flat = list(self._flat_statements(fn.body))
                for i, s in enumerate(flat):
                    if not (isinstance(s, ast.Assign) and len(s.targets) == 1 and isinstance(s.targets[0], ast.Name) and isinstance(s.value, ast.Attribute)):
                        continue
                    name = s.targets[0].id
                    if name in keep or counts.get(name) != 1 or name in params:
                        continue
                    chain, attrs = s.value, set()
                    while isinstance(chain, ast.Attribute):
                        attrs.add(chain.attr)
                        chain = chain.value
                    if not isinstance(chain, ast.Name):
                        continue
                    root = chain.id
                    if counts.get(root, 0) > (0 if root in params else 1):
                        continue
                    # only the statements that can run after the definition matter; be conservative: every later statement in
                    # source order, and (loops) every statement of an enclosing loop
                    later = flat[i + 1:]
                    if self._in_loop(fn, s):
                        later = flat
                    unsafe = False
                    for t in later:
                        if t is s:
                            continue
                        for n in self._own_exprs(t):
                            if isinstance(n, ast.Attribute) and isinstance(n.ctx, (ast.Store, ast.Del)) and n.attr in attrs:
                                unsafe = True
                            if isinstance(n, ast.Call):
                                f_ = n.func
                                recv = f_.value if isinstance(f_, ast.Attribute) else None
                                while isinstance(recv, (ast.Attribute, ast.Subscript)):
                                    recv = recv.value
                                if isinstance(recv, ast.Name) and recv.id == root and not (isinstance(f_, ast.Attribute) and f_.attr in (
                                        'match', 'startswith', 'endswith', 'upper', 'lower', 'split', 'strip')):
                                    unsafe = True
                                for a in list(n.args) + [k.value for k in n.keywords]:
                                    if isinstance(a, ast.Name) and a.id == root:
                                        unsafe = True
                    nested_use = any(isinstance(m, ast.Name) and m.id == name for n in ast.walk(fn) if isinstance(n, FUNCS + (ast.Lambda,)) and n is not fn
                                     for m in ast.walk(n))
                    if unsafe or nested_use:
                        continue
                    v = s.value

                    class T(ast.NodeTransformer):
                        def visit_Name(self, n):
                            if n.id == name and isinstance(n.ctx, ast.Load):
                                return ast.copy_location(copy.deepcopy(v), n)
                            return n

                        def visit_Lambda(self, n):
                            return n
                    for t in flat[i + 1:]:
                        for fld, val in ast.iter_fields(t):
                            if fld in ('body', 'orelse', 'finalbody', 'handlers'):
                                continue
                            if isinstance(val, ast.AST):
                                setattr(t, fld, T().visit(val))
                            elif isinstance(val, list):
                                setattr(t, fld, [T().visit(x) if isinstance(x, ast.AST) else x for x in val])

    def _flat_statements(self, stmts):
        for s in stmts:
            if isinstance(s, FUNCS + (ast.ClassDef,)):
                continue
            yield s
            for fld in ('body', 'orelse', 'finalbody'):
                sub = getattr(s, fld, None)
                if isinstance(sub, list) and sub and isinstance(sub[0], ast.stmt):
                    yield from self._flat_statements(sub)
            for h in getattr(s, 'handlers', []) or []:
                yield from self._flat_statements(h.body)

    def _own_exprs(self, s):
        """expression nodes evaluated by statement s itself (not by statements nested in it)"""
        for fld, val in ast.iter_fields(s):
            if fld in ('body', 'orelse', 'finalbody', 'handlers'):
                continue
            vals = val if isinstance(val, list) else [val]
            for v in vals:
                if isinstance(v, ast.AST):
                    yield from ast.walk(v)

    def _in_loop(self, fn, target):
        def rec(stmts, inside):
            for s in stmts:
                if s is target:
                    return inside
                for fld in ('body', 'orelse', 'finalbody'):
                    sub = getattr(s, fld, None)
                    if isinstance(sub, list) and sub and isinstance(sub[0], ast.stmt):
                        r = rec(sub, inside or (isinstance(s, (ast.For, ast.While)) and fld == 'body'))
                        if r is not None:
                            return r
                for h in getattr(s, 'handlers', []) or []:
                    r = rec(h.body, inside)
                    if r is not None:
                        return r
            return None
        return bool(rec(fn.body, False))

    def _header_impure_before(self, hdr, name):
        # in `if f(x) and guard:` the call f(x) runs before the guard is read: substituting the guard's
        # definition there would move attribute reads behind the call
        for e in hdr:
            if isinstance(e, ast.BoolOp):
                for v in e.values:
                    if any(isinstance(n, ast.Name) and n.id == name for n in ast.walk(v)):
                        break
                    if not is_pure(v):
                        return True
            elif not is_pure(e) and not (isinstance(e, ast.Name)):
                # the name is used inside a call expression: arguments evaluated earlier may have effects
                for n in ast.walk(e):
                    if isinstance(n, ast.Call):
                        return True
        return False


def run(tree, modname):
    if os.environ.get('SA_NO_NORMALIZE'):
        return tree, []
    mn = ModuleNormalizer(tree, modname, baseline())
    try:
        mn.inline_all()
    except RecursionError:
        pass
    mn.split_ifexp()
    mn.desugar_walrus()
    mn.fold_accumulators()
    mn.propagate_attr_aliases()
    mn.propagate_guards()
    ast.fix_missing_locations(tree)
    return tree, mn.inlined
