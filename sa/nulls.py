"""Nullness analysis (DESIGN 2.8): summaries "may return None" / "returns a pair whose
components are None together", and an intraprocedural flow-sensitive environment with pair
correlation.  Sinks: attribute read, subscript, call, arithmetic, iteration, unpacking, and
passing the value to a parameter the callee dereferences unguarded."""
import ast

from .astutil import src, is_name, is_attr, exits_always
from .cg import get_cg
from .model import own_nodes, Func, Cls, FUNC_NODES

NN, MN = 'NN', 'MN'          # non-null / maybe None


class Val:
    __slots__ = ('k', 'gid', 'why', 'tuple_of')

    def __init__(self, k, gid=None, why='', tuple_of=None):
        self.k, self.gid, self.why, self.tuple_of = k, gid, why, tuple_of

    def __repr__(self):
        return f'{self.k}{"#" + str(self.gid) if self.gid is not None else ""}'


V_NN = Val(NN)


class Summary:
    def __init__(self):
        self.none = False          # may return None (not a pair)
        self.pair_none = False     # may return (None, None)
        self.none_only_if = None   # set of param names: returns None only when one of them is None
        self.is_pair = False       # returns 2-tuples


class Finding:
    def __init__(self, func, node, kind, expr, why):
        self.func, self.node, self.kind, self.expr, self.why = func, node, kind, expr, why

    @property
    def key(self):
        return f'{self.func.short}:{self.kind}:{self.expr}'

    @property
    def loc(self):
        return f'{self.func.mod.relpath}:{self.node.lineno}'


class Nulls:
    def __init__(self, ctx):
        self.ctx = ctx
        self.repo = ctx.repo
        self.cg = get_cg(ctx)
        self.summ = {q: Summary() for q in self.repo.funcs}
        self.param_deref = {}      # qname -> set of param names dereferenced without a guard
        self._gid = 0
        self._compute_summaries()
        self._compute_param_deref()

    # ------------------------------------------------------------------ summaries
    def _ret_kind(self, f, e, env_none):
        """('none'|'pair_none'|'nn'|'call', extra)"""
        if e is None:
            return [('none', None)]
        if isinstance(e, ast.Constant):
            return [('none', None)] if e.value is None else [('nn', None)]
        if isinstance(e, ast.Tuple):
            if len(e.elts) == 2 and all(isinstance(x, ast.Constant) and x.value is None for x in e.elts):
                return [('pair_none', None)]
            return [('pair', None)]
        if isinstance(e, ast.IfExp):
            return self._ret_kind(f, e.body, env_none) + self._ret_kind(f, e.orelse, env_none)
        if isinstance(e, ast.BoolOp):
            out = []
            for v in e.values:
                out += self._ret_kind(f, v, env_none)
            return out
        if isinstance(e, ast.Call):
            callees = self.cg.callees_of_call(f.qname, e)
            if callees:
                return [('call', (c, e)) for c in callees]
            if isinstance(e.func, ast.Attribute) and e.func.attr == 'get' and len(e.args) == 1:
                return [('none', None)]
            if src(e.func) in ('re.search', 're.match', 're.fullmatch'):
                return [('none', None)]
            return [('nn', None)]
        if isinstance(e, ast.Subscript) and isinstance(e.value, ast.Call) and isinstance(e.slice, ast.Constant):
            # f(...)[1]
            callees = self.cg.callees_of_call(f.qname, e.value)
            return [('call_item', (c, e.value)) for c in callees] or [('nn', None)]
        if isinstance(e, ast.Name) and e.id in env_none:
            return [('none', None)]
        return [('nn', None)]

    def _compute_summaries(self):
        repo = self.repo
        from .astutil import Guards, local_defs
        guards = {}
        changed = True
        rounds = 0
        while changed and rounds < 12:
            changed = False
            rounds += 1
            for q, f in repo.funcs.items():
                s = self.summ[q]
                if isinstance(f.node, ast.Lambda):
                    kinds = self._ret_kind(f, f.node.body, set())
                    rets = [(None, k) for k in kinds]
                else:
                    if f.is_generator():
                        continue
                    rets = []
                    # locals that may hold None (flow-insensitive)
                    env_none = set()
                    for name, defs in local_defs(f.node).items():
                        for d in defs:
                            if isinstance(d, ast.Constant) and d.value is None:
                                env_none.add(name)
                    for r in [n for n in own_nodes(f.node, include_lambdas=False) if isinstance(n, ast.Return)]:
                        # `return x` where x may be None only matters if not re-assigned: keep simple
                        for k in self._ret_kind(f, r.value, set()):
                            rets.append((r, k))
                    if not exits_always(f.node.body) and not _for_else_returns(f.node.body):
                        rets.append((None, ('none', None)))
                g = guards.setdefault(q, Guards(f.node)) if not isinstance(f.node, ast.Lambda) else None
                new_none, new_pair, is_pair = s.none, s.pair_none, s.is_pair
                cond = set()
                uncond = False
                for r, (kind, extra) in rets:
                    if kind == 'none':
                        # conditional on a parameter being None?
                        c = None
                        if r is not None and g is not None:
                            for e_, p_ in [a for a in g.facts(r) if a[0] != '|']:
                                if p_ and e_.endswith(' is None') and e_[:-8] in f.params:
                                    c = e_[:-8]
                        if c is not None:
                            cond.add(c)
                        else:
                            uncond = True
                        new_none = True
                    elif kind == 'pair_none':
                        new_pair = True
                        is_pair = True
                    elif kind == 'pair':
                        is_pair = True
                    elif kind == 'call':
                        cq, call = extra
                        cs = self.summ.get(cq)
                        if cs is None:
                            continue
                        if cs.none:
                            # conditional None of the callee: applicable only if the argument may be None
                            if cs.none_only_if and not self._args_may_be_none(f, call, cq, cs.none_only_if):
                                pass
                            else:
                                new_none = True
                                uncond = True
                        if cs.pair_none:
                            new_pair = True
                        if cs.is_pair:
                            is_pair = True
                    elif kind == 'call_item':
                        cq, call = extra
                        cs = self.summ.get(cq)
                        if cs is not None and cs.pair_none:
                            new_none = True
                            uncond = True
                nif = None if uncond or not cond else frozenset(cond)
                if (new_none, new_pair, is_pair, nif) != (s.none, s.pair_none, s.is_pair, s.none_only_if):
                    s.none, s.pair_none, s.is_pair, s.none_only_if = new_none, new_pair, is_pair, nif
                    changed = True

    def _args_may_be_none(self, f, call, callee_q, params):
        """may one of the callee's `params` receive a possibly-None argument at this call?"""
        callee = self.repo.funcs[callee_q]
        ps = [p for p in callee.params if p not in ('self', 'cls')] if isinstance(call.func, ast.Attribute) else list(callee.params)
        bound = {}
        for i, a in enumerate(call.args):
            if i < len(ps):
                bound[ps[i]] = a
        for k in call.keywords:
            if k.arg:
                bound[k.arg] = k.value
        for p in params:
            a = bound.get(p)
            if a is None:
                # default value
                d = _default_of(callee, p)
                if d is None or (isinstance(d, ast.Constant) and d.value is None):
                    return True
                continue
            if isinstance(a, ast.Constant):
                if a.value is None:
                    return True
                continue
            if isinstance(a, ast.Name):
                # after `x += 1` / arithmetic the name is an int
                if _is_arith_local(f, a.id):
                    continue
                return True
            if isinstance(a, (ast.BinOp, ast.Lambda, ast.Tuple, ast.List)):
                continue
            return True
        return False

    # ------------------------------------------------------------------ parameter dereference summaries
    def _compute_param_deref(self):
        # a parameter handed on to a callee that dereferences it counts too: iterate to a fixpoint (call chains are short)
        for _ in range(4):
            before = {q: set(v) for q, v in self.param_deref.items()}
            for q, f in self.repo.funcs.items():
                if isinstance(f.node, ast.Lambda):
                    self.param_deref[q] = _lambda_derefs(f)
                    continue
                res = self.analyse(f, assume_params_mn=True, collect_params=True)
                self.param_deref[q] = set(res) | self.param_deref.get(q, set())
            if before == self.param_deref:
                break

    # ------------------------------------------------------------------ intraprocedural analysis
    def new_gid(self):
        self._gid += 1
        return self._gid

    def analyse(self, f, assume_params_mn=False, collect_params=False):
        """returns list of Finding (or set of dereferenced params when collect_params)"""
        A = _Analysis(self, f, assume_params_mn)
        A.run()
        if collect_params:
            return A.param_derefs
        return A.findings


def _default_of(f, p):
    a = f.node.args
    names = [x.arg for x in a.args]
    defaults = dict(zip(names[len(names) - len(a.defaults):], a.defaults))
    for k, d in zip(a.kwonlyargs, a.kw_defaults):
        defaults[k.arg] = d
    return defaults.get(p, None) if p in defaults else ast.Constant(value='<required>')


def _is_arith_local(f, name):
    for n in own_nodes(f.node):
        if isinstance(n, ast.AugAssign) and is_name(n.target, name):
            return True
    return False


def _for_else_returns(body):
    last = body[-1] if body else None
    return isinstance(last, ast.For) and last.orelse and exits_always(last.orelse) and \
        not any(isinstance(n, ast.Break) for n in ast.walk(last))


def _lambda_derefs(f):
    out = set()
    for n in ast.walk(f.node.body):
        if isinstance(n, ast.Attribute) and isinstance(n.value, ast.Name) and n.value.id in f.params:
            out.add(n.value.id)
    # guarded by `x and x.y` patterns: keep simple -- lambdas in the package are `lambda tk: imt(tk, ...)`-like
    return out


class _Analysis:
    def __init__(self, N, f, assume_params_mn):
        self.N, self.f = N, f
        self.findings = []
        self.param_derefs = set()
        self.assume = assume_params_mn
        self.params = set(f.params) - {'self', 'cls'}
        self.reported = set()

    # env: dict name -> Val ; groups: gid -> set of names (implicit via Val.gid)
    def run(self):
        env = {}
        if self.assume:
            for p in self.params:
                env[p] = Val(MN, None, 'parameter')
        self.block(self.f.node.body, env)

    def copy(self, env):
        return dict(env)

    def join(self, a, b):
        if a is None:
            return b
        if b is None:
            return a
        out = {}
        for k in set(a) | set(b):
            va, vb = a.get(k), b.get(k)
            if va is None or vb is None:
                out[k] = va or vb
                # a name bound on one path only: keep (unbound-ness is R7.5's business)
                continue
            if va.k == NN and vb.k == NN:
                out[k] = va if va.tuple_of == vb.tuple_of else Val(NN, None, '', va.tuple_of or vb.tuple_of)
            elif va.k == MN and vb.k == MN and va.gid == vb.gid:
                out[k] = va
            elif va.k != vb.k:
                # "None only together with its group" joined with "not None" is still "None only together with its group"
                w = va if va.k == MN else vb
                out[k] = Val(MN, w.gid, w.why, w.tuple_of)
            else:
                out[k] = Val(MN, None, va.why, va.tuple_of)
        return out

    def refine_nn(self, env, name):
        v = env.get(name)
        if v is None:
            return
        if v.gid is not None:
            for k, w in list(env.items()):
                if w.gid == v.gid:
                    env[k] = V_NN
        env[name] = V_NN

    # ----- expressions
    def ev(self, e, env):
        """evaluate for nullness and visit sinks"""
        if e is None:
            return V_NN
        if isinstance(e, ast.Constant):
            return Val(MN, None, 'None constant') if e.value is None else V_NN
        if isinstance(e, ast.Name):
            return env.get(e.id, V_NN)
        if isinstance(e, ast.Attribute):
            if isinstance(e.value, ast.Name):
                self.sink(e.value, env, 'attribute', e)
            else:
                v = self.ev(e.value, env)
                if v.k == MN:
                    self.report(e, 'attribute', src(e.value)[:50], v.why)
            return V_NN
        if isinstance(e, ast.Subscript):
            base = e.value
            # f(...)[k] on a pair-returning call
            if isinstance(base, ast.Call):
                bv = self.call_value(base, env)
                self.visit_call_args(base, env)
                if bv.tuple_of == 'pair':
                    return Val(MN, None, f'component of {src(base)[:40]} which may be (None, None)')
                if bv.k == MN:
                    self.report(e, 'subscript', src(base), bv.why)
                return V_NN
            bv = self.ev(base, env) if not isinstance(base, ast.Name) else env.get(base.id, V_NN)
            if isinstance(base, ast.Name) and bv.tuple_of == 'pair':
                self.ev(e.slice, env) if not isinstance(e.slice, ast.Slice) else None
                return Val(MN, None, f'component of `{base.id}`, the result of a lookup that may be (None, None)')
            if isinstance(base, ast.Name):
                self.sink(base, env, 'subscript', e)
            if not isinstance(e.slice, ast.Slice):
                self.ev(e.slice, env)
            else:
                for x in (e.slice.lower, e.slice.upper, e.slice.step):
                    if x is not None:
                        self.ev(x, env)
            return V_NN
        if isinstance(e, ast.Call):
            v = self.call_value(e, env)
            self.visit_call_args(e, env)
            return v
        if isinstance(e, ast.BoolOp):
            cur = self.copy(env)
            res = []
            for v in e.values:
                val = self.ev(v, cur)
                res.append(val)
                if isinstance(e.op, ast.And):
                    self.assume_true(v, cur)
                else:
                    self.assume_false(v, cur)
            if isinstance(e.op, ast.Or):
                # `a or b`: None only if the last may be None
                return res[-1]
            # `a and b`: may be a falsy a (possibly None)
            if any(r.k == MN for r in res):
                return Val(MN, None, res[0].why)
            return V_NN
        if isinstance(e, ast.IfExp):
            self.ev(e.test, env)
            a = self.copy(env)
            self.assume_true(e.test, a)
            b = self.copy(env)
            self.assume_false(e.test, b)
            va, vb = self.ev(e.body, a), self.ev(e.orelse, b)
            if va.k == MN or vb.k == MN:
                w = va if va.k == MN else vb
                return Val(MN, None, w.why)
            return V_NN
        if isinstance(e, ast.UnaryOp):
            v = self.ev(e.operand, env)
            if isinstance(e.op, ast.USub):
                self.sink(e.operand, env, 'arithmetic', e)
            return V_NN
        if isinstance(e, ast.BinOp):
            self.ev(e.left, env)
            self.ev(e.right, env)
            if not isinstance(e.op, (ast.Mod,)) or not isinstance(e.left, ast.Constant):
                self.sink(e.left, env, 'arithmetic', e)
                self.sink(e.right, env, 'arithmetic', e)
            return V_NN
        if isinstance(e, ast.Compare):
            self.ev(e.left, env)
            for c in e.comparators:
                self.ev(c, env)
            for op, c in zip(e.ops, e.comparators):
                if isinstance(op, (ast.Lt, ast.LtE, ast.Gt, ast.GtE)):
                    self.sink(e.left, env, 'comparison', e)
                    self.sink(c, env, 'comparison', e)
                if isinstance(op, (ast.In, ast.NotIn)):
                    self.sink(c, env, 'membership', e)
            return V_NN
        if isinstance(e, (ast.Tuple, ast.List, ast.Set)):
            vals = [self.ev(x, env) for x in e.elts]
            if not getattr(self, '_in_return', False):
                for x, v in zip(e.elts, vals):
                    if isinstance(x, ast.Name) and v.k == MN and v.why != 'None constant' and not (self.assume and x.id in self.params):
                        self.report(e, 'stored unchecked in a container', x.id, v.why)
            return Val(NN, None, '', None)
        if isinstance(e, (ast.ListComp, ast.GeneratorExp, ast.SetComp, ast.DictComp)):
            cur = self.copy(env)
            for g in e.generators:
                self.ev(g.iter, cur)
                self.sink(g.iter, cur, 'iteration', e)
                for n in ast.walk(g.target):
                    if isinstance(n, ast.Name):
                        cur[n.id] = V_NN
                for c in g.ifs:
                    self.ev(c, cur)
                    self.assume_true(c, cur)
            if isinstance(e, ast.DictComp):
                self.ev(e.key, cur)
                self.ev(e.value, cur)
            else:
                self.ev(e.elt, cur)
            return V_NN
        if isinstance(e, ast.JoinedStr):
            for v in e.values:
                if isinstance(v, ast.FormattedValue):
                    self.ev(v.value, env)
            return V_NN
        if isinstance(e, ast.Lambda):
            return V_NN
        if isinstance(e, ast.Starred):
            self.ev(e.value, env)
            self.sink(e.value, env, 'iteration', e)
            return V_NN
        if isinstance(e, (ast.Yield, ast.YieldFrom)):
            if e.value is not None:
                self.ev(e.value, env)
            return V_NN
        if isinstance(e, ast.Dict):
            for k in e.keys:
                if k is not None:
                    self.ev(k, env)
            for v in e.values:
                self.ev(v, env)
            return V_NN
        if isinstance(e, ast.NamedExpr):
            v = self.ev(e.value, env)
            env[e.target.id] = v
            return v
        return V_NN

    def call_value(self, e, env):
        N, f = self.N, self.f
        fn = e.func
        if isinstance(fn, ast.Attribute):
            if isinstance(fn.value, ast.Name):
                self.sink(fn.value, env, 'method call', e)
            else:
                v0 = self.ev(fn.value, env)
                if v0.k == MN:
                    self.report(e, 'method call', src(fn.value)[:50], v0.why)
        elif isinstance(fn, ast.Name):
            if fn.id in env and env[fn.id].k == MN:
                self.report(e, 'call', fn.id, env[fn.id].why)
        if src(fn) in ('re.search', 're.match', 're.fullmatch'):
            return Val(MN, None, f'{src(fn)} may return None')
        if isinstance(fn, ast.Attribute) and fn.attr == 'get' and len(e.args) == 1 and not e.keywords:
            return Val(MN, None, f'`{src(e)[:40]}` (dict.get without default)')
        callees = N.cg.callees_of_call(f.qname, e)
        none = pair = False
        why = ''
        for cq in callees:
            s = N.summ.get(cq)
            if s is None or cq.endswith('.__init__'):
                continue
            if s.none:
                if s.none_only_if and not N._args_may_be_none(f, e, cq, s.none_only_if):
                    pass
                else:
                    none = True
                    why = f'{cq.replace("sqlparse.", "")} may return None'
            if s.pair_none:
                pair = True
                why = f'{cq.replace("sqlparse.", "")} may return (None, None)'
        if pair:
            return Val(NN if not none else MN, None, why, 'pair')
        if none:
            return Val(MN, None, why)
        return V_NN

    def visit_call_args(self, e, env):
        N, f = self.N, self.f
        callees = N.cg.callees_of_call(f.qname, e)
        for i, a in enumerate(e.args):
            v = self.ev(a, env)
            self.check_arg(e, callees, i, None, a, v, env)
        for k in e.keywords:
            v = self.ev(k.value, env)
            self.check_arg(e, callees, None, k.arg, k.value, v, env)
        # list.index(x) / list.remove(x) raise ValueError unless x is an element: None never is one
        if isinstance(e.func, ast.Attribute) and e.func.attr in ('index', 'remove') and len(e.args) == 1 and not callees:
            self.sink(e.args[0], env, f'element lookup .{e.func.attr}()', e)
        # stdlib functions that dereference their argument
        if isinstance(e.func, ast.Name) and e.func.id in ('len', 'iter', 'list', 'tuple', 'sorted', 'reversed', 'enumerate', 'sum', 'max', 'min', 'next', 'int'):
            for a in e.args[:1]:
                self.sink(a, env, f'argument of {e.func.id}()', e)

    def check_arg(self, call, callees, pos, kwname, a, v, env):
        if not (isinstance(a, ast.Name) and v.k == MN):
            return
        for cq in callees:
            callee = self.N.repo.funcs[cq]
            ps = list(callee.params)
            if isinstance(call.func, ast.Attribute) or callee.name == '__init__':
                ps = [p for p in ps if p not in ('self', 'cls')]
            pname = kwname if kwname else (ps[pos] if pos is not None and pos < len(ps) else None)
            if pname and pname in self.N.param_deref.get(cq, ()):
                self.sink(a, env, f'argument `{pname}` of {callee.short} (dereferenced there without a guard)', call)

    def sink(self, e, env, kind, at):
        if not isinstance(e, ast.Name):
            return
        v = env.get(e.id)
        if v is None or v.k != MN:
            return
        if self.assume and e.id in self.params and v.why == 'parameter':
            self.param_derefs.add(e.id)
            return
        self.report(at, kind, e.id, v.why)

    def report(self, at, kind, name, why):
        key = (getattr(at, 'lineno', 0), kind.split(' of ')[0], name)
        if key in self.reported or self.assume:
            return
        self.reported.add(key)
        self.findings.append(Finding(self.f, at, kind, f'{name} in `{src(at)[:60]}`', why))

    # ----- conditions
    def assume_true(self, t, env):
        if isinstance(t, ast.Name):
            v = env.get(t.id)
            if v is not None and v.tuple_of == 'pair':
                return       # a 2-tuple is always truthy: the test says nothing about its components
            self.refine_nn(env, t.id)
        elif isinstance(t, ast.BoolOp) and isinstance(t.op, ast.And):
            for v in t.values:
                self.assume_true(v, env)
        elif isinstance(t, ast.UnaryOp) and isinstance(t.op, ast.Not):
            self.assume_false(t.operand, env)
        elif isinstance(t, ast.Compare) and len(t.ops) == 1:
            op, r = t.ops[0], t.comparators[0]
            if isinstance(op, ast.IsNot) and isinstance(r, ast.Constant) and r.value is None and isinstance(t.left, ast.Name):
                self.refine_nn(env, t.left.id)
            elif isinstance(op, (ast.Eq, ast.Is, ast.In, ast.Lt, ast.LtE, ast.Gt, ast.GtE)) and isinstance(t.left, ast.Name) \
                    and not (isinstance(r, ast.Constant) and r.value is None):
                if isinstance(op, (ast.Lt, ast.LtE, ast.Gt, ast.GtE)):
                    self.refine_nn(env, t.left.id)
            # x.attr == ... : x was dereferenced
            for side in (t.left, r):
                root = side
                while isinstance(root, (ast.Attribute, ast.Call)):
                    root = root.value if isinstance(root, ast.Attribute) else root.func
                if isinstance(root, ast.Name) and side is not root:
                    self.refine_nn(env, root.id)
        elif isinstance(t, ast.Call):
            fn = t.func
            if isinstance(fn, ast.Name) and fn.id in ('isinstance', 'imt') and t.args and isinstance(t.args[0], ast.Name):
                self.refine_nn(env, t.args[0].id)
            elif isinstance(fn, ast.Attribute) and isinstance(fn.value, ast.Name):
                self.refine_nn(env, fn.value.id)     # x.match(...) evaluated => x not None
        elif isinstance(t, ast.Attribute) and isinstance(t.value, ast.Name):
            self.refine_nn(env, t.value.id)

    def assume_false(self, t, env):
        if isinstance(t, ast.UnaryOp) and isinstance(t.op, ast.Not):
            self.assume_true(t.operand, env)
        elif isinstance(t, ast.BoolOp) and isinstance(t.op, ast.Or):
            for v in t.values:
                self.assume_false(v, env)
        elif isinstance(t, ast.Compare) and len(t.ops) == 1:
            op, r = t.ops[0], t.comparators[0]
            if isinstance(op, ast.Is) and isinstance(r, ast.Constant) and r.value is None and isinstance(t.left, ast.Name):
                self.refine_nn(env, t.left.id)

    # ----- statements
    def block(self, stmts, env):
        """returns env at fall-through, or None if the block always exits"""
        for s in stmts:
            env = self.stmt(s, env)
            if env is None:
                return None
        return env

    def bind(self, target, value_node, val, env):
        if isinstance(target, ast.Name):
            env[target.id] = Val(val.k, val.gid, val.why, val.tuple_of)
        elif isinstance(target, (ast.Tuple, ast.List)):
            if val.tuple_of == 'pair' and len(target.elts) == 2:
                gid = 'g:' + ','.join(src(t) for t in target.elts)
                tnames = {t.id for t in target.elts if isinstance(t, ast.Name)}
                for k2, w in list(env.items()):
                    if w.gid == gid and k2 not in tnames:
                        env[k2] = Val(w.k, None, w.why, w.tuple_of)     # alias of the previous pair: correlation ends
                for t in target.elts:
                    if isinstance(t, ast.Name):
                        env[t.id] = Val(MN, gid, val.why)
                    else:
                        self.bind(t, None, V_NN, env)
            else:
                if val.k == MN and value_node is not None:
                    self.report(value_node, 'unpacking', src(value_node)[:40], val.why)
                if isinstance(value_node, (ast.Tuple, ast.List)) and len(value_node.elts) == len(target.elts):
                    for t, v in zip(target.elts, value_node.elts):
                        self.bind(t, v, self.ev_noside(v, env), env)
                else:
                    for t in target.elts:
                        self.bind(t, None, V_NN, env)
        elif isinstance(target, ast.Attribute):
            self.sink(target.value, env, 'attribute store', target)
        elif isinstance(target, ast.Subscript):
            self.sink(target.value, env, 'item store', target)
            self.ev(target.slice, env) if not isinstance(target.slice, ast.Slice) else None
        elif isinstance(target, ast.Starred):
            self.bind(target.value, None, V_NN, env)

    def ev_noside(self, e, env):
        if isinstance(e, ast.Constant) and e.value is None:
            return Val(MN, None, 'None constant')
        if isinstance(e, ast.Name):
            return env.get(e.id, V_NN)
        return V_NN

    def stmt(self, s, env):
        if isinstance(s, ast.Assign):
            v = self.ev(s.value, env)
            for t in s.targets:
                self.bind(t, s.value, v, env)
            return env
        if isinstance(s, ast.AugAssign):
            self.ev(s.value, env)
            if isinstance(s.target, ast.Name):
                self.sink(s.target, env, 'arithmetic', s)
                env[s.target.id] = V_NN
            else:
                self.ev(s.target, env)
            return env
        if isinstance(s, ast.AnnAssign):
            if s.value is not None:
                self.bind(s.target, s.value, self.ev(s.value, env), env)
            return env
        if isinstance(s, ast.Expr):
            self.ev(s.value, env)
            return env
        if isinstance(s, ast.Return):
            if s.value is not None:
                self._in_return = True
                try:
                    self.ev(s.value, env)
                finally:
                    self._in_return = False
            return None
        if isinstance(s, ast.Raise):
            if s.exc is not None:
                self.ev(s.exc, env)
            return None
        if isinstance(s, (ast.Continue, ast.Break)):
            self._loop_exits.append((type(s).__name__, self.copy(env))) if hasattr(self, '_loop_exits') else None
            return None
        if isinstance(s, ast.If):
            self.ev(s.test, env)
            a = self.copy(env)
            self.assume_true(s.test, a)
            b = self.copy(env)
            self.assume_false(s.test, b)
            ra = self.block(s.body, a)
            rb = self.block(s.orelse, b)
            return self.join(ra, rb)
        if isinstance(s, ast.While):
            return self.loop(s, env, is_while=True)
        if isinstance(s, (ast.For, ast.AsyncFor)):
            return self.loop(s, env, is_while=False)
        if isinstance(s, ast.Try):
            start = self.copy(env)
            r = self.block(s.body, env)
            outs = []
            if r is not None:
                r2 = self.block(s.orelse, r)
                outs.append(r2)
            for h in s.handlers:
                he = self.copy(start)
                if h.name:
                    he[h.name] = V_NN
                outs.append(self.block(h.body, he))
            res = None
            for o in outs:
                res = self.join(res, o)
            if s.finalbody:
                res = self.block(s.finalbody, res if res is not None else self.copy(start))
            return res
        if isinstance(s, (ast.With, ast.AsyncWith)):
            for it in s.items:
                self.ev(it.context_expr, env)
                if it.optional_vars is not None:
                    self.bind(it.optional_vars, None, V_NN, env)
            return self.block(s.body, env)
        if isinstance(s, ast.Assert):
            self.ev(s.test, env)
            self.assume_true(s.test, env)
            return env
        if isinstance(s, ast.Delete):
            for t in s.targets:
                if isinstance(t, ast.Subscript):
                    self.sink(t.value, env, 'item deletion', t)
                    self.ev(t.value, env) if not isinstance(t.value, ast.Name) else None
                    self.ev(t.slice, env) if not isinstance(t.slice, ast.Slice) else None
            return env
        if isinstance(s, FUNC_NODES + (ast.ClassDef,)):
            if isinstance(s, FUNC_NODES):
                env[s.name] = V_NN
            return env
        return env

    def loop(self, s, env, is_while):
        saved = getattr(self, '_loop_exits', None)
        result_after = None
        cur = self.copy(env)
        for it in range(3):
            self._loop_exits = []
            head = self.copy(cur)
            if is_while:
                self.ev(s.test, head)
                body_env = self.copy(head)
                self.assume_true(s.test, body_env)
                exit_env = self.copy(head)
                self.assume_false(s.test, exit_env)
            else:
                self.ev(s.iter, head)
                self.sink(s.iter, head, 'iteration', s) if isinstance(s.iter, ast.Name) else None
                body_env = self.copy(head)
                for n in ast.walk(s.target):
                    if isinstance(n, ast.Name):
                        body_env[n.id] = V_NN
                exit_env = self.copy(head)
            silent = it < 2
            if silent:
                saved_f, saved_r = self.findings, self.reported
                self.findings, self.reported = [], set()
            r = self.block(s.body, body_env)
            if silent:
                self.findings, self.reported = saved_f, saved_r
            backs = [e for k, e in self._loop_exits if k == 'Continue']
            breaks = [e for k, e in self._loop_exits if k == 'Break']
            nxt = r
            for b in backs:
                nxt = self.join(nxt, b)
            new_cur = self.join(self.copy(env), nxt) if nxt is not None else self.copy(env)
            after = exit_env
            for b in breaks:
                after = self.join(after, b)
            result_after = after
            if not is_while and r is not None:
                result_after = self.join(result_after, r)
            if _same(new_cur, cur):
                if not silent:
                    break
            cur = new_cur
        self._loop_exits = saved if saved is not None else []
        if saved is None:
            del self._loop_exits
        if s.orelse:
            result_after = self.block(s.orelse, result_after)
        return result_after


def _same(a, b):
    if set(a) != set(b):
        return False
    return all(a[k].k == b[k].k and a[k].gid == b[k].gid for k in a)
