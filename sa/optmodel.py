"""Finite-domain abstract evaluation of the option pipeline (formatter.validate_options,
formatter.build_filter_stack, cli.create_parser): the three functions are straight-line
code over an option dictionary, so their effect on a concrete dictionary is decided by a
small interpreter for the statement kinds they use (miniev).  sqlparse is not imported
or executed; what is interpreted is the AST of /repo's current source.

validate(ctx, opts)  -> dict after validation | ('raise', names)
plan(ctx, opts)      -> {'grouping': bool, 'preprocess': [...], 'stmtprocess': [...], 'postprocess': [...]} | ('crash', msg)
cli_options(ctx)     -> [{'flags':[...], 'dest':..., 'action':..., 'default':..., 'type':..., 'choices':...}]
"""
import ast
import copy

from . import miniev as ME
from .astutil import src, is_name
from .fold import ClsRef, NotConst
from .model import own_nodes, AnalysisError


class OptEval(ME.Evaluator):
    effects = True

    def ev(self, n, env):
        if isinstance(n, ast.Dict) and all(k is not None for k in n.keys):
            return {self.ev(k, env): self.ev(v, env) for k, v in zip(n.keys, n.values)}
        if isinstance(n, ast.JoinedStr):
            return '<text>'
        if isinstance(n, ast.Set):
            try:
                return frozenset(self.ev(e, env) for e in n.elts)
            except TypeError:
                raise ME.Raised(['TypeError'], n)
        if isinstance(n, ast.Name) and n.id not in env and n.id in ('str', 'int', 'bool', 'float'):
            return {'str': str, 'int': int, 'bool': bool, 'float': float}[n.id]
        return ME.Evaluator.ev(self, n, env)

    def cmp(self, op, l, r):
        if isinstance(op, (ast.In, ast.NotIn)) and isinstance(r, (set, frozenset)):
            try:
                res = l in r
            except TypeError:
                raise ME.Raised(['TypeError'])
            return res if isinstance(op, ast.In) else not res
        return ME.Evaluator.cmp(self, op, l, r)

    def call(self, n, env):
        f = n.func
        if isinstance(f, ast.Name) and f.id not in env:
            if f.id in ('int', 'float'):
                args = [self.ev(a, env) for a in n.args]
                try:
                    return {'int': int, 'float': float}[f.id](*args)
                except ValueError:
                    raise ME.Raised(['ValueError'], n)
                except TypeError:
                    raise ME.Raised(['TypeError'], n)
                except OverflowError:
                    raise ME.Raised(['OverflowError'], n)
            if f.id == 'isinstance' and len(n.args) == 2:
                obj, c = self.ev(n.args[0], env), self.ev(n.args[1], env)
                cs = c if isinstance(c, tuple) else (c,)
                if all(isinstance(x, type) for x in cs):
                    return isinstance(obj, cs)
            if f.id in ('dict', 'list') and len(n.args) <= 1 and not n.keywords:
                args = [self.ev(a, env) for a in n.args]
                return {'dict': dict, 'list': list}[f.id](*args)
        if isinstance(f, ast.Attribute):
            # a constructor of a repo class: filters.X(...)
            try:
                target = self.folder.eval(f, self.mod, None, self.cls) if not (
                    isinstance(f.value, ast.Name) and f.value.id in env) else None
            except NotConst:
                target = None
            if isinstance(target, ClsRef):
                return ('new', target.cls.name, tuple(self.ev(a, env) for a in n.args),
                        tuple(sorted((k.arg, self.ev(k.value, env)) for k in n.keywords)))
            base = self.ev(f.value, env)
            args = [self.ev(a, env) for a in n.args]
            kwargs = {k.arg: self.ev(k.value, env) for k in n.keywords if k.arg is not None}
            if any(k.arg is None for k in n.keywords) or (kwargs and not (isinstance(base, dict) and f.attr == 'update')):
                if isinstance(base, (dict, list, str)):
                    raise ME.Unsupported(f'keyword arguments in `{src(n)[:50]}`')
            if isinstance(base, dict) and f.attr in ('get', 'setdefault', 'pop', 'update', 'copy', 'keys', 'items'):
                try:
                    return getattr(base, f.attr)(*args, **kwargs)
                except KeyError as e:
                    raise ME.Crash(f'KeyError {e} in `{src(n)}`')
            if isinstance(base, list) and f.attr in ('append', 'insert', 'extend', 'index', 'count'):
                return getattr(base, f.attr)(*args)
            if isinstance(base, str) and f.attr == 'format':
                return '<text>'
            if isinstance(base, ME.Obj) and hasattr(base, '_calls'):
                base._calls.append(f.attr)
                if f.attr == 'enable_grouping':
                    base._grouping = True
                    return None
        if isinstance(f, ast.Name) and f.id not in env:
            try:
                target = self.folder.eval(f, self.mod, None, self.cls)
            except NotConst:
                target = None
            if isinstance(target, ClsRef):
                return ('new', target.cls.name, tuple(self.ev(a, env) for a in n.args),
                        tuple(sorted((k.arg, self.ev(k.value, env)) for k in n.keywords)))
        return ME.Evaluator.call(self, n, env)


def validate(ctx, opts):
    f = ctx.repo.func('sqlparse.formatter.validate_options')
    ev = OptEval(ctx, f.mod)
    d = copy.deepcopy(opts)
    try:
        r = ME.run_function(ev, f.node, {f.params[0]: d}, max_steps=2000)
    except ME.Raised as e:
        return ('raise', e.names)
    except ME.Crash as e:
        return ('crash', str(e))
    except (ME.Unsupported, ME.Unknown) as e:
        raise AnalysisError(f'validate_options not evaluable on {opts}: {e}')
    return r if isinstance(r, dict) else d


def plan(ctx, opts):
    f = ctx.repo.func('sqlparse.formatter.build_filter_stack')
    ev = OptEval(ctx, f.mod)
    stack = ME.Obj(preprocess=[], stmtprocess=[], postprocess=[], _grouping=False, _calls=[])
    try:
        ME.run_function(ev, f.node, {f.params[0]: stack, f.params[1]: copy.deepcopy(opts)}, max_steps=2000)
    except ME.Raised as e:
        return ('raise', e.names)
    except ME.Crash as e:
        return ('crash', str(e))
    except (ME.Unsupported, ME.Unknown) as e:
        raise AnalysisError(f'build_filter_stack not evaluable on {opts}: {e}')
    return {'grouping': stack._grouping, 'preprocess': stack.preprocess, 'stmtprocess': stack.stmtprocess, 'postprocess': stack.postprocess}


def plan_names(p):
    if not isinstance(p, dict):
        return p
    return {k: ([x[1] if isinstance(x, tuple) and x and x[0] == 'new' else x for x in v] if isinstance(v, list) else v) for k, v in p.items()}


def cli_options(ctx):
    """add_argument calls of cli.create_parser, folded"""
    f = ctx.repo.func('sqlparse.cli.create_parser')
    folder = ctx.folder
    out = []
    env = {}
    for st in f.node.body:
        if isinstance(st, ast.Assign) and len(st.targets) == 1 and isinstance(st.targets[0], ast.Name):
            try:
                env[st.targets[0].id] = folder.eval(st.value, f.mod, env)
            except NotConst:
                pass
    for n in own_nodes(f.node):
        if isinstance(n, ast.Call) and isinstance(n.func, ast.Attribute) and n.func.attr == 'add_argument':
            flags = []
            for a in n.args:
                try:
                    flags.append(folder.eval(a, f.mod, env))
                except NotConst:
                    raise AnalysisError(f'{f.mod.relpath}:{n.lineno}: add_argument flag not foldable')
            kw = {}
            for k in n.keywords:
                if k.arg in ('help', 'metavar', 'version'):
                    continue
                if k.arg == 'type':
                    kw['type'] = src(k.value)
                    continue
                try:
                    kw[k.arg] = folder.eval(k.value, f.mod, env)
                except NotConst:
                    raise AnalysisError(f'{f.mod.relpath}:{n.lineno}: add_argument {k.arg}= not foldable')
            opt = [x for x in flags if x.startswith('-')]
            if opt:
                longs = [x for x in opt if x.startswith('--')]
                dest = kw.get('dest') or (longs[0] if longs else opt[0]).lstrip('-').replace('-', '_')
            else:
                dest = kw.get('dest') or flags[0]
            action = kw.get('action', 'store')
            default = kw.get('default', False if action == 'store_true' else True if action == 'store_false' else None)
            out.append({'flags': flags, 'dest': dest, 'action': action, 'default': default, 'type': kw.get('type'),
                        'choices': kw.get('choices'), 'positional': not opt, 'nargs': kw.get('nargs'), 'line': n.lineno})
    return out
