"""C01 -- lexer is total and lossless (level: proof)."""
import ast
import re

from .. import rx
from ..astutil import Guards, enum_paths, src, is_name, is_attr, yields_in, atoms, fact_in, lin
from ..fold import TT, Marker, NotConst
from ..model import AnalysisError, own_nodes
from ..tables import get_tables

EXPLANATION = (
    'Argument: at scan position p the loop of Lexer.get_tokens takes the first rule whose match(text, p) succeeds, '
    'yields m.group() = text[p:m.end()] and skips m.end()-p-1 further characters, or yields text[p] as Error. If every '
    'row of SQL_REGEX has minimum width >= 1 then m.end() > p, the skip count is >= 0, every token is non-empty, '
    'positions strictly increase and the yielded values tile the text. Obligations: R1.1 table folds and every regex '
    'parses under IGNORECASE|UNICODE; R1.2 min width >= 1 per row (sre getwidth, cross-checked by shortest accepting '
    'path of the NFA); R1.3 every action is a token type or PROCESS_AS_KEYWORD and the loop has a yielding branch for '
    'exactly these two kinds; R1.4 shape of the scan loop on its enumerated paths (one yield of the whole match per '
    'matching path, consume(it, m.end()-pos-1), break; Error fallback in for-else); R1.5 is_keyword returns its '
    'argument unmodified; R1.6 the compiled rule is bound to .match with the lexer flags; R1.7 utils.consume drains '
    'exactly islice(it, n); R1.8 the str input is never rewritten before the scan; '
    'R1.9 the default lexer handed out by get_default_instance is completely initialised (lock discipline) and the input is scanned in one piece.')


def run(ctx):
    ctx.engines |= {'tables', 'rx', 'paths'}
    T = get_tables(ctx)
    repo = ctx.repo
    ctx.rule('R1.1', 'SQL_REGEX folds to a list of (regex, action) pairs; each regex parses under IGNORECASE|UNICODE', floor=26)
    ctx.rule('R1.2', 'minimum match width of each row >= 1 (a zero-width match makes the skip count -1 and yields an empty token)', floor=26)
    ctx.rule('R1.3', 'each action is a tokens.* type or PROCESS_AS_KEYWORD, the two kinds the scan loop yields for', floor=26)
    ctx.rule('R1.4', 'scan loop shape: first matching rule wins, yields the whole match once, consumes m.end()-pos-1, breaks; Error fallback', floor=6)
    ctx.rule('R1.5', 'is_keyword returns (type, value) with value the unmodified argument on every return', floor=1)
    ctx.rule('R1.6', 'set_SQL_REGEX stores re.compile(rx, IGNORECASE|UNICODE).match (anchored at pos)', floor=1)
    ctx.rule('R1.7', 'utils.consume(it, n) advances it by exactly n: deque(islice(it, n), maxlen=0)', floor=1)
    ctx.rule('R1.8', 'input normalisation: no store to the text variable on the str path; decode exactly once on the bytes path', floor=2)
    kwloc = T.kwmod.relpath
    widths = []
    for r in T.lex:
        loc = f'{kwloc}:{r.line}'
        key = f'row:{r.pattern}'
        try:
            tree = r.tree
            ctx.ob('R1.1', key, loc, f'row #{r.index} {r.pattern!r} parses', True)
        except re.error as e:
            ctx.ob('R1.1', key, loc, f'row #{r.index} {r.pattern!r} parses', False, f're.error: {e}')
            continue
        w = rx.min_width(tree)
        # cross-check by shortest accepting path in the NFA (assertions as epsilon)
        try:
            w2 = shortest_match(r.pattern)
        except rx.Unsupported:
            w2 = w
        widths.append(min(w, w2))
        ctx.ob('R1.2', key, loc, f'row #{r.index} {r.pattern!r} minimum width >= 1', min(w, w2) >= 1,
               f'minimum width is {min(w, w2)}: the rule can match the empty string at a position, '
               f'consume(iterable, -1) raises ValueError / an empty token is yielded')
        ok = isinstance(r.action, TT) or (isinstance(r.action, Marker) and r.action is T.marker)
        ctx.ob('R1.3', key, loc, f'row #{r.index} action {r.action_src} is a token type or PROCESS_AS_KEYWORD', ok,
               f'action {r.action_src} folds to {r.action!r}: the scan loop consumes such a match without yielding it')
    # "a character that no rule recognises becomes a one-character Error token ... never merged away": a table row may
    # produce Error tokens too, and then the same bound applies to it
    ctx.rule('R1.10', 'a table row whose action is an Error type matches exactly one character (Error tokens are never merged)', floor=1)
    nerr = [r for r in T.lex if isinstance(r.action, TT) and r.action[:1] == ('Error',)]
    ctx.ob('R1.10', 'inventory', kwloc, f'{len(T.lex)} rows examined, {len(nerr)} produce an Error type', True)
    for r in T.lex:
        if isinstance(r.action, TT) and r.action[:1] == ('Error',):
            try:
                hi = r.tree.getwidth()[1]
            except re.error:
                continue
            ctx.ob('R1.10', f'row:{r.pattern}', f'{kwloc}:{r.line}', f'row #{r.index} {r.pattern!r} -> {r.action_src} matches at most one character',
                   hi <= 1, f'the rule can match {hi if hi < 2**31 else "arbitrarily many"} characters: a run of unrecognised characters '
                   f'(and whatever else the class contains, e.g. a line break after a control character) becomes one Error token')
    ctx.info['min_width_histogram'] = {str(k): widths.count(k) for k in sorted(set(widths))}
    from .. import rules_lexer as RL
    ctx.rule('R1.12', 'Lexer.get_tokens interpreted on short texts: total, lossless, and exactly the table model (fast paths and reduced tables included)', floor=1)
    RL.check_scan_semantics(ctx, 'R1.12', table_agreement=False)
    check_scan_loop(ctx, T)
    check_is_keyword(ctx)
    check_set_regex(ctx)
    check_consume(ctx)
    from .. import rules_lexer as RL
    ctx.rule('R1.9', 'tokenize() uses the lock-protected, completely initialised default lexer and lexes the whole input in one scan', floor=5)
    RL.check_singleton_lock(ctx, 'R1.9')
    RL.check_whole_text(ctx, 'R1.9')
    RL.check_regex_table_ownership(ctx, 'R1.6')
    check_no_recursion(ctx)


def check_no_recursion(ctx):
    """`never fails` for texts of any length: the scan is a loop; a function on a call-graph cycle reachable from tokenize() needs stack
    depth proportional to something in the text (nesting, run length) and ends in RecursionError."""
    from ..cg import get_cg
    cg = get_cg(ctx)
    ctx.rule('R1.13', 'no function reachable from lexer.tokenize is recursive (stack depth independent of the text)', floor=1)
    entry = 'sqlparse.lexer.tokenize'
    ctx.need(entry in cg.edges, 'lexer.tokenize not in the call graph')
    reach = cg.reachable([entry])
    ctx.need(len(reach) >= 5, f'only {len(reach)} functions reachable from lexer.tokenize')
    rec = sorted(cg.recursive_functions() & set(reach))
    for q in rec:
        f = ctx.repo.funcs.get(q)
        path = cg.path(entry, [q]) or [entry, q]
        ctx.ob('R1.13', f'recursive:{q.replace("sqlparse.", "")}', f'{f.mod.relpath}:{f.node.lineno}' if f is not None else 'sqlparse/lexer.py',
               f'{q} is not on a call-graph cycle', False,
               f'{q.replace("sqlparse.", "")} calls itself (call path {" -> ".join(x.replace("sqlparse.", "") for x in path)}): the stack depth grows with the text '
               'and tokenizing a long enough input raises RecursionError')
    ctx.ob('R1.13', 'inventory', 'sqlparse/lexer.py', f'{len(reach)} functions reachable from lexer.tokenize, {len(rec)} of them recursive', True)


def shortest_match(pattern):
    prog = rx.Prog(pattern, rx.LEXFLAGS)
    ins = prog.ins
    dist = {0: 0}
    from collections import deque
    dq = deque([0])
    while dq:
        pc = dq.popleft()
        i = ins[pc]
        d = dist[pc]
        if i[0] == 'match':
            return d
        if i[0] == 'split':
            nx = [(i[1], 0), (i[2], 0)]
        elif i[0] == 'jmp':
            nx = [(i[1], 0)]
        elif i[0] in ('at', 'look'):
            nx = [(pc + 1, 0)]
        else:
            nx = [(pc + 1, 1)]
        for t, c in nx:
            if t not in dist or dist[t] > d + c:
                dist[t] = d + c
                (dq.appendleft if c == 0 else dq.append)(t)
    return 0


def _lin_old(expr):
    """linear form of an integer expression: {term_src: coeff, '': const}"""
    if isinstance(expr, ast.BinOp) and isinstance(expr.op, (ast.Add, ast.Sub)):
        a, b = lin(expr.left), lin(expr.right)
        if a is None or b is None:
            return None
        s = 1 if isinstance(expr.op, ast.Add) else -1
        out = dict(a)
        for k, v in b.items():
            out[k] = out.get(k, 0) + s * v
        return {k: v for k, v in out.items() if v}
    if isinstance(expr, ast.UnaryOp) and isinstance(expr.op, ast.USub):
        a = lin(expr.operand)
        return None if a is None else {k: -v for k, v in a.items()}
    if isinstance(expr, ast.Constant) and isinstance(expr.value, int):
        return {'': expr.value} if expr.value else {}
    return {src(expr): 1}


def check_scan_loop(ctx, T):
    repo = ctx.repo
    f = repo.func('sqlparse.lexer.Lexer.get_tokens')
    loc0 = f'{f.mod.relpath}:{f.node.lineno}'
    params = f.params
    ctx.need(len(params) >= 2, 'Lexer.get_tokens lost its text parameter')
    textvar = params[1]
    body = f.node.body
    # outer scan loop = the top-level `for` that contains a yield
    outer = [s for s in body if isinstance(s, ast.For) and yields_in(s)]
    if not outer:
        # scanner form: `while <pos> < len(text): ... yield ...; <pos> = m.end()`.  The position belongs to ONE run of the
        # generator: get_tokens is lazy and every caller shares the default Lexer instance, so a position kept on `self`
        # is moved by whichever tokenization runs while this one is suspended at its yield.
        whiles = [s for s in body if isinstance(s, ast.While) and yields_in(s)]
        if len(whiles) == 1:
            shared = sorted({src(n) for n in ast.walk(whiles[0].test) if isinstance(n, ast.Attribute) and is_name(n.value, 'self')})
            stores = sorted({src(t) for s_ in ast.walk(whiles[0]) if isinstance(s_, (ast.Assign, ast.AugAssign))
                             for t in (s_.targets if isinstance(s_, ast.Assign) else [s_.target]) if isinstance(t, ast.Attribute) and is_name(t.value, 'self')})
            if shared or stores:
                ctx.ob('R1.4', 'a:scan-position-is-local', f'{f.mod.relpath}:{whiles[0].lineno}',
                       'the scan position is a local of the get_tokens generator', False,
                       f'the scan loop reads/writes {sorted(set(shared) | set(stores))} on the (process-wide) Lexer instance: two token streams alive at the same time '
                       '(zip(tokenize(a), tokenize(b)), a parsestream loop that formats each statement, two threads) move each other\'s position, '
                       'so characters are dropped or repeated and the values no longer concatenate to the input')
                return
    ctx.need(len(outer) == 1, f'{loc0}: expected exactly one top-level scanning for-loop with yields in Lexer.get_tokens, found {len(outer)}')
    outer = outer[0]
    oloc = f'{f.mod.relpath}:{outer.lineno}'
    # yields outside the loop?
    stray = [y for s in body if s is not outer for y in yields_in(s)]
    ctx.ob('R1.4', 'no-yield-outside-loop', loc0, 'no yield outside the scan loop', not stray,
           f'a yield at line {stray[0].lineno if stray else "?"} emits a token that is not a slice of the text at the scan position')
    # (a) iterator
    itname = outer.iter.id if isinstance(outer.iter, ast.Name) else None
    itdef = None
    for s in body:
        if isinstance(s, ast.Assign) and len(s.targets) == 1 and is_name(s.targets[0]) and s.targets[0].id == itname:
            itdef = s
    ok_a = (itdef is not None and isinstance(itdef.value, ast.Call) and is_name(itdef.value.func, 'enumerate')
            and len(itdef.value.args) == 1 and not itdef.value.keywords and is_name(itdef.value.args[0], textvar)
            and isinstance(outer.target, ast.Tuple) and len(outer.target.elts) == 2
            and all(isinstance(e, ast.Name) for e in outer.target.elts))
    ctx.ob('R1.4', 'a:outer-iterates-enumerate(text)', oloc,
           f'outer loop iterates a named iterator bound to enumerate({textvar}) with targets (pos, char)', ok_a,
           f'outer loop is `for {src(outer.target)} in {src(outer.iter)}` with {itname} = {src(itdef.value) if itdef else "?"}: '
           'positions no longer enumerate the characters of the input text one by one')
    if not ok_a:
        return
    posvar, charvar = (e.id for e in outer.target.elts)
    # R1.8: stores to textvar before the loop
    check_normalisation(ctx, f, textvar, outer, itdef)
    # (b) inner loop
    inner = [s for s in outer.body if isinstance(s, ast.For)]
    # single-character fast paths in front of the rule loop: `if <test on the character>: yield <type>, <char>; continue` emits
    # exactly the current character and moves on by one -- lossless whatever the test is (whether the type is the one the table
    # would give is the business of the table-reading properties, decided by R<k>.S)
    npre = 0
    while npre < len(outer.body) and inner and outer.body[npre] is not inner[0]:
        st = outer.body[npre]
        okp = isinstance(st, ast.If) and not st.orelse and len(st.body) == 2 and isinstance(st.body[1], ast.Continue) \
            and isinstance(st.body[0], ast.Expr) and isinstance(st.body[0].value, ast.Yield) and isinstance(st.body[0].value.value, ast.Tuple) \
            and len(st.body[0].value.value.elts) == 2 and is_name(st.body[0].value.value.elts[1], charvar)
        if not okp:
            break
        ctx.ob('R1.4', f'fast-path:{npre}', f'{f.mod.relpath}:{st.lineno}', f'fast path `if {src(st.test)[:50]}` yields exactly the current character and continues', True)
        npre += 1
    ctx.need(len(inner) == 1 and npre < len(outer.body) and outer.body[npre] is inner[0],
             f'{oloc}: body of the scan loop does not start with a single `for ... in self._SQL_REGEX:` rule loop')
    inner = inner[0]
    rest = outer.body[npre + 1:]
    iloc = f'{f.mod.relpath}:{inner.lineno}'
    ok_b = is_attr(inner.iter, '_SQL_REGEX', 'self') and isinstance(inner.target, ast.Tuple) and len(inner.target.elts) == 2 \
        and all(isinstance(e, ast.Name) for e in inner.target.elts)
    ctx.ob('R1.4', 'b:inner-iterates-self._SQL_REGEX', iloc, 'inner loop iterates self._SQL_REGEX in table order with targets (matcher, action)',
           ok_b, f'inner loop is `for {src(inner.target)} in {src(inner.iter)}`')
    if not ok_b:
        return
    mfun, actvar = (e.id for e in inner.target.elts)
    if rest:
        return check_search_form(ctx, f, outer, inner, rest, textvar, posvar, charvar, itname, mfun, actvar, loc0)
    # (d) for-else
    els = inner.orelse
    ok_d = len(els) == 1 and isinstance(els[0], ast.Expr) and isinstance(els[0].value, ast.Yield) \
        and isinstance(els[0].value.value, ast.Tuple) and len(els[0].value.value.elts) == 2 \
        and is_name(els[0].value.value.elts[1], charvar)
    if ok_d:
        try:
            tt = ctx.folder.eval(els[0].value.value.elts[0], f.mod)
        except NotConst:
            tt = None
        ok_d = tt == TT(('Error',))
    ctx.ob('R1.4', 'd:for-else-yields-Error-char', iloc,
           'the for-else (no rule matched) yields exactly (tokens.Error, char)', ok_d,
           f'else-clause is `{"; ".join(src(s) for s in els) or "<absent>"}`: an unrecognised character is dropped, duplicated or mistyped')
    # (c) paths of the inner body
    paths = enum_paths(inner.body)
    mvar = None
    for s in inner.body:
        if isinstance(s, ast.Assign) and len(s.targets) == 1 and is_name(s.targets[0]) and isinstance(s.value, ast.Call) \
                and is_name(s.value.func, mfun):
            mvar = s.targets[0].id
            call = s.value
            ok_m = len(call.args) == 2 and is_name(call.args[0], textvar) and is_name(call.args[1], posvar) and not call.keywords
            ctx.ob('R1.4', 'b:match-at-current-position', f'{f.mod.relpath}:{s.lineno}',
                   f'{mvar} = matcher({textvar}, {posvar}): match attempted on the text at the current position', ok_m,
                   f'call is `{src(call)}`')
    ctx.need(mvar is not None, f'{iloc}: no `m = rexmatch(text, pos)` assignment in the scan loop')
    npaths = 0
    for p in paths:
        facts = p.facts()
        m_true = fact_in((mvar, True), facts)
        m_false = fact_in((mvar, False), facts)
        ys = [s for s in p.stmts() if isinstance(s, ast.Expr) and isinstance(s.value, (ast.Yield, ast.YieldFrom))]
        other_y = [s for s in p.stmts() if not isinstance(s, ast.Expr) and yields_in(s)]
        desc = ' ∧ '.join(f'{"" if pol else "not "}{e}' for e, pol in [a for a in facts if a[0] != '|'])
        npaths += 1
        key = f'c:path[{desc}]'
        ploc = iloc
        if m_false or not (m_true or m_false):
            if m_false:
                ok = not ys and not other_y and p.exit == 'continue'
                ctx.ob('R1.4', key, ploc, 'no-match path: no yield, continue with the next rule', ok,
                       f'path exits with {p.exit} and {len(ys)} yield(s)')
            else:
                ctx.ob('R1.4', key, ploc, 'path is classified by the truth of m', None, 'path neither tests m nor is dominated by such a test')
            continue
        check_matching_path(ctx, f, p.stmts(), facts, p.exit, ('break',), key, ploc, inner, mvar, actvar, posvar, itname)
    ctx.info['scan_loop_paths'] = npaths
    # consume is utils.consume
    imp = f.mod.imports.get('consume')
    ctx.ob('R1.4', 'consume-is-utils.consume', loc0, 'name `consume` in lexer.py is sqlparse.utils.consume',
           imp == ('object', 'sqlparse.utils', 'consume'), f'consume resolves to {imp}')


def check_matching_path(ctx, f, st, facts, exit_, exits_ok, key, ploc, inner, mvar, actvar, posvar, itname):
    ys = [s for s in st if isinstance(s, ast.Expr) and isinstance(s.value, (ast.Yield, ast.YieldFrom))]
    other_y = [s for s in st if not isinstance(s, ast.Expr) and yields_in(s)]
    # which action kinds reach here?
    kinds = action_kinds(ctx, f, facts, actvar)
    if kinds == set():
        # residual path (action of neither kind): must not exist in the table (R1.3) -- it consumes without yield
        ok = exit_ in exits_ok
        ctx.ob('R1.4', key, ploc, 'residual path (action of neither kind, excluded by R1.3) still advances and leaves the rule loop', ok,
               f'exit {exit_}')
        return
    ok_y = len(ys) == 1 and not other_y
    detail = ''
    if ok_y:
        yv = ys[0].value.value
        ok_y, detail = yield_ok(ctx, f, yv, mvar, actvar, kinds)
    else:
        detail = f'{len(ys)} yields on a matching path (expected exactly one)'
    ctx.ob('R1.4', key + ':yield', f'{f.mod.relpath}:{ys[0].lineno if ys else inner.lineno}',
           'matching path yields exactly once (action, m.group()) / is_keyword(m.group())', ok_y, detail)
    # consume after the yield, then break
    cons = [s for s in st if isinstance(s, ast.Expr) and isinstance(s.value, ast.Call) and is_name(s.value.func, 'consume')]
    ok_c, detail = False, 'no consume(...) call on the matching path: the scan does not skip the matched characters'
    if len(cons) == 1:
        c = cons[0].value
        want = {f'{mvar}.end()': 1, posvar: -1, '': -1}
        got = lin(c.args[1]) if len(c.args) == 2 else None
        ok_c = is_name(c.args[0], itname) and got == want
        detail = f'call is `{src(c)}`; skip count must equal {mvar}.end() - {posvar} - 1 on iterator {itname}'
        if ok_c and ys:
            ok_c = st.index(cons[0]) > st.index(ys[0])
            detail = 'consume happens before the yield'
    elif len(cons) > 1:
        detail = 'more than one consume() on a matching path'
    ctx.ob('R1.4', key + ':consume', f'{f.mod.relpath}:{cons[0].lineno if cons else inner.lineno}',
           f'matching path calls consume({itname}, {mvar}.end() - {posvar} - 1)', ok_c, detail)
    ctx.ob('R1.4', key + ':break', ploc, 'matching path leaves the rule loop (first matching rule wins) and goes on to the next position',
           exit_ in exits_ok, f'path exits with {exit_}')


def m_truth(fact, mvar):
    """truth of a path fact about the match variable when m is a match object: True/False, None = unrelated"""
    e, pol = fact
    t = e.replace(' ', '')
    if t == mvar:
        v = True
    elif t in (f'{mvar}isNone', f'{mvar}==None', f'not{mvar}'):
        v = False
    elif t in (f'{mvar}isnotNone', f'{mvar}!=None'):
        v = True
    else:
        return None
    return v if pol else not v


def check_search_form(ctx, f, outer, inner, rest, textvar, posvar, charvar, itname, mfun, actvar, loc0):
    """The rule loop only searches (`m = matcher(text, pos)`, leave at the first match, else-clause / fall-through means no
    match) and the statements after it emit the token.  The iteration paths are the compositions search-outcome ; tail."""
    iloc = f'{f.mod.relpath}:{inner.lineno}'
    mvar = None
    for s in inner.body:
        if isinstance(s, ast.Assign) and len(s.targets) == 1 and is_name(s.targets[0]) and isinstance(s.value, ast.Call) \
                and is_name(s.value.func, mfun):
            mvar = s.targets[0].id
            call = s.value
            ok_m = len(call.args) == 2 and is_name(call.args[0], textvar) and is_name(call.args[1], posvar) and not call.keywords
            ctx.ob('R1.4', 'b:match-at-current-position', f'{f.mod.relpath}:{s.lineno}',
                   f'{mvar} = matcher({textvar}, {posvar}): match attempted on the text at the current position', ok_m, f'call is `{src(call)}`')
    ctx.need(mvar is not None, f'{iloc}: no `m = rexmatch(text, pos)` assignment in the rule loop')
    npaths = 0
    for p in enum_paths(inner.body):
        facts = p.facts()
        st = p.stmts()
        npaths += 1
        desc = ' ∧ '.join(f'{"" if pol else "not "}{e}' for e, pol in [a for a in facts if a[0] != '|'])
        effects = [s for s in st if yields_in(s) or (isinstance(s, ast.Expr) and isinstance(s.value, ast.Call))]
        stores = [s for s in st if isinstance(s, (ast.Assign, ast.AugAssign)) and not (isinstance(s, ast.Assign) and isinstance(s.value, ast.Call)
                                                                                    and is_name(s.value.func, mfun))]
        if fact_in((mvar, True), facts):
            ok = p.exit == 'break' and not effects and not stores
            ctx.ob('R1.4', f'search:match[{desc}]', iloc, 'the search leaves the rule loop at the first match with (m, action) untouched', ok,
                   f'exit {p.exit}; effects {[src(s) for s in effects]}; stores {[src(s) for s in stores]}')
        elif fact_in((mvar, False), facts):
            ok = p.exit in ('fall', 'continue') and not effects and not stores
            ctx.ob('R1.4', f'search:nomatch[{desc}]', iloc, 'a rule that does not match is skipped without effect', ok,
                   f'exit {p.exit}; effects {[src(s) for s in effects]}')
        else:
            ctx.ob('R1.4', f'search:path[{desc}]', iloc, 'path is classified by the truth of m', None, 'path neither tests m nor is dominated by such a test')
    # the else clause may only record "no match"
    els = inner.orelse
    none_assign = all(isinstance(s, ast.Assign) and all(isinstance(v, ast.Constant) and v.value is None
                                                       for v in (s.value.elts if isinstance(s.value, ast.Tuple) else [s.value])) for s in els)
    ctx.ob('R1.4', 'search:else', iloc, 'the else clause of the search only records that nothing matched (m = None)', none_assign,
           f'else-clause is `{"; ".join(src(s) for s in els)}`')
    for p in enum_paths(rest):
        facts = [a for a in p.facts() if a[0] != '|']
        truths = [m_truth(a, mvar) for a in facts]
        desc = ' ∧ '.join(f'{"" if pol else "not "}{e}' for e, pol in facts)
        st = p.stmts()
        if all(t is None for t in truths):
            ctx.ob('R1.4', f'tail:path[{desc}]', iloc, 'every tail path is classified by a test on the search result', None,
                   'the path does not test m: it runs for matches and for unrecognised characters alike')
            continue
        npaths += 1
        if all(t in (True, None) for t in truths):
            check_matching_path(ctx, f, st, p.facts(), p.exit, ('fall', 'continue'), f'c:path[{desc}]', iloc, inner, mvar, actvar, posvar, itname)
        elif all(t in (False, None) for t in truths):
            ys = [s for s in st if isinstance(s, ast.Expr) and isinstance(s.value, ast.Yield)]
            cons = [s for s in st if isinstance(s, ast.Expr) and isinstance(s.value, ast.Call) and is_name(s.value.func, 'consume')]
            ok_d = len(ys) == 1 and not cons and isinstance(ys[0].value.value, ast.Tuple) and len(ys[0].value.value.elts) == 2 \
                and is_name(ys[0].value.value.elts[1], charvar) and p.exit in ('fall', 'continue')
            if ok_d:
                try:
                    tt = ctx.folder.eval(ys[0].value.value.elts[0], f.mod)
                except NotConst:
                    tt = None
                ok_d = tt == TT(('Error',))
            ctx.ob('R1.4', 'd:for-else-yields-Error-char', iloc, 'when no rule matched the iteration yields exactly (tokens.Error, char)', ok_d,
                   f'no-match path is `{"; ".join(src(s)[:40] for s in st)}`: an unrecognised character is dropped, duplicated or mistyped')
        # mixed truths: infeasible path
    ctx.info['scan_loop_paths'] = npaths
    imp = f.mod.imports.get('consume')
    ctx.ob('R1.4', 'consume-is-utils.consume', loc0, 'name `consume` in lexer.py is sqlparse.utils.consume',
           imp == ('object', 'sqlparse.utils', 'consume'), f'consume resolves to {imp}')


def action_kinds(ctx, f, facts, actvar):
    """which of the two action kinds ('type','kw') are possible given path facts"""
    kinds = {'type', 'kw'}
    pos_type = [e for e, pol in [a for a in facts if a[0] != '|'] if pol and e.startswith(f'isinstance({actvar},')]
    neg_type = [e for e, pol in [a for a in facts if a[0] != '|'] if not pol and e.startswith(f'isinstance({actvar},')]
    pos_kw = [e for e, pol in [a for a in facts if a[0] != '|'] if pol and e.startswith(f'{actvar} is ') and 'PROCESS_AS_KEYWORD' in e]
    neg_kw = [e for e, pol in [a for a in facts if a[0] != '|'] if not pol and e.startswith(f'{actvar} is ') and 'PROCESS_AS_KEYWORD' in e]
    if pos_type:
        kinds &= {'type'}
    if neg_type:
        kinds -= {'type'}
    if pos_kw:
        kinds &= {'kw'}
    if neg_kw:
        kinds -= {'kw'}
    return kinds


def whole_match(expr, mvar):
    """expr is m.group() / m.group(0) / m[0]"""
    if isinstance(expr, ast.Call) and is_attr(expr.func, 'group', mvar) and not expr.keywords:
        return len(expr.args) == 0 or (len(expr.args) == 1 and isinstance(expr.args[0], ast.Constant) and expr.args[0].value == 0)
    if isinstance(expr, ast.Subscript) and is_name(expr.value, mvar) and isinstance(expr.slice, ast.Constant) and expr.slice.value == 0:
        return True
    return False


def yield_ok(ctx, f, yv, mvar, actvar, kinds):
    if kinds == {'type'}:
        if isinstance(yv, ast.Tuple) and len(yv.elts) == 2 and is_name(yv.elts[0], actvar) and whole_match(yv.elts[1], mvar):
            return True, ''
        return False, f'yield value `{src(yv)}` is not ({actvar}, {mvar}.group()): the token value is not the matched text'
    if kinds == {'kw'}:
        if isinstance(yv, ast.Call) and is_attr(yv.func, 'is_keyword', 'self') and len(yv.args) == 1 and whole_match(yv.args[0], mvar):
            return True, ''
        if isinstance(yv, ast.Tuple) and len(yv.elts) == 2 and whole_match(yv.elts[1], mvar):
            return True, ''
        return False, f'yield value `{src(yv)}` is not self.is_keyword({mvar}.group())'
    # both kinds possible on one path: value must still be the whole match
    if isinstance(yv, ast.Tuple) and len(yv.elts) == 2 and whole_match(yv.elts[1], mvar):
        return True, ''
    return False, f'yield value `{src(yv)}` on an unclassified action path'


def check_normalisation(ctx, f, textvar, outer, itdef):
    g = Guards(f.node)
    loc = lambda n: f'{f.mod.relpath}:{n.lineno}'
    stores = []
    for n in own_nodes(f.node):
        if isinstance(n, (ast.Assign, ast.AugAssign, ast.AnnAssign)):
            tg = n.targets if isinstance(n, ast.Assign) else [n.target]
            for t in tg:
                for e in ast.walk(t):
                    if is_name(e, textvar) and isinstance(e.ctx, ast.Store):
                        stores.append(n)
        elif isinstance(n, (ast.For, ast.With, ast.NamedExpr)):
            tg = n.target if not isinstance(n, ast.With) else None
            if tg is not None:
                for e in ast.walk(tg):
                    if is_name(e, textvar):
                        stores.append(n)
    n_str = 0
    for s in stores:
        facts = g.facts(s)
        flat = [a for a in facts if a[0] != '|']
        in_stream = any(pol and e.startswith(f'isinstance({textvar},') and 'TextIOBase' in e for e, pol in flat)
        in_bytes = any(pol and e.startswith(f'isinstance({textvar},') and 'bytes' in e for e, pol in flat)
        not_str = any((not pol) and e.replace(' ', '') == f'isinstance({textvar},str)' for e, pol in flat)
        ok = in_stream or (in_bytes) or not_str
        val = getattr(s, 'value', None)
        if ok and in_stream and not in_bytes:
            ok2 = isinstance(val, ast.Call) and is_attr(val.func, 'read', textvar) and not val.args
            detail = f'`{src(s)}` in the stream arm must be {textvar} = {textvar}.read()'
            ctx.ob('R1.8', f'store:{src(s)}', loc(s), 'stream arm reads the whole stream once', ok2, detail)
            continue
        if ok and in_bytes:
            ok2 = isinstance(val, ast.Call) and is_attr(val.func, 'decode', textvar)
            if not ok2 and isinstance(val, ast.Call):
                from .. import rules_lexer as RL
                for h, dp, ep, _ in RL.decode_sites(ctx)[1:]:
                    if isinstance(val.func, ast.Attribute) and val.func.attr == h.name and RL.is_decode_helper(ctx, h, dp):
                        ok2 = True
            ctx.ob('R1.8', f'store:{src(s)}', loc(s), 'bytes arm only decodes', ok2, f'`{src(s)}`')
            continue
        n_str += 0 if ok else 1
        ctx.ob('R1.8', f'store:{src(s)}', loc(s),
               f'store to `{textvar}` is confined to the stream/bytes arms (str input passes through unchanged)', ok,
               f'`{src(s)}` rewrites the text on the str path (guards: {[e for e, p in flat if p]}): characters are '
               'dropped/changed before scanning, so token values no longer concatenate to the input')
    # the iterator must be created after the last store and from textvar directly (checked in R1.4a);
    # no other expression may wrap the text: enumerate(text) argument is a bare name
    ctx.ob('R1.8', 'scan-uses-text-unwrapped', loc(itdef), f'the scan iterates `{textvar}` itself (no strip/expandtabs/normalisation wrapper)',
           True)


def check_is_keyword(ctx):
    f = ctx.repo.func('sqlparse.lexer.Lexer.is_keyword')
    ctx.need(len(f.params) == 2, 'Lexer.is_keyword signature changed')
    p = f.params[1]
    g = Guards(f.node)
    rets = [n for n in own_nodes(f.node) if isinstance(n, ast.Return)]
    stores = [n for n in own_nodes(f.node) if isinstance(n, (ast.Assign, ast.AugAssign)) and
              any(is_name(e, p) and isinstance(e.ctx, ast.Store)
                  for t in (n.targets if isinstance(n, ast.Assign) else [n.target]) for e in ast.walk(t))]
    for r in rets:
        ok = isinstance(r.value, ast.Tuple) and len(r.value.elts) == 2 and is_name(r.value.elts[1], p) and not stores
        ctx.ob('R1.5', f'return:{src(r)}', f'{f.mod.relpath}:{r.lineno}',
               f'return is a pair whose second component is the parameter `{p}` unmodified', ok,
               f'`{src(r)}`' + (f' and `{p}` is reassigned at line {stores[0].lineno}' if stores else '') +
               ': the token value differs from the matched text')
    ctx.need(rets, 'is_keyword has no return')
    # falls off the end?
    from ..astutil import exits_always
    ctx.ob('R1.5', 'no-fallthrough', f'{f.mod.relpath}:{f.node.lineno}', 'is_keyword cannot fall off its end (would yield None)',
           exits_always(f.node.body) or _for_else_returns(f.node.body), 'a path returns None, which the scan loop would yield as a token')


def _for_else_returns(body):
    from ..astutil import exits_always
    last = body[-1]
    return isinstance(last, ast.For) and last.orelse and exits_always(last.orelse) and \
        not any(isinstance(n, ast.Break) for n in ast.walk(last))


def check_set_regex(ctx):
    f = ctx.repo.func('sqlparse.lexer.Lexer.set_SQL_REGEX')
    loc = f'{f.mod.relpath}:{f.node.lineno}'
    env = {}
    for n in f.node.body:
        if isinstance(n, ast.Assign) and len(n.targets) == 1 and is_name(n.targets[0]):
            try:
                env[n.targets[0].id] = ctx.folder._flags(n.value, f.mod)
            except NotConst:
                pass
    stores = [n for n in own_nodes(f.node) if isinstance(n, ast.Assign) and any(is_attr(t, '_SQL_REGEX', 'self') for t in n.targets)]
    ctx.need(len(stores) == 1, f'{loc}: expected one store to self._SQL_REGEX in set_SQL_REGEX')
    v = stores[0].value
    ok, detail = False, f'`{src(v)}`'
    if isinstance(v, ast.ListComp) and isinstance(v.elt, ast.Tuple) and len(v.elt.elts) == 2 and len(v.generators) == 1:
        g = v.generators[0]
        e0, e1 = v.elt.elts
        if isinstance(g.target, ast.Tuple) and len(g.target.elts) == 2 and all(isinstance(x, ast.Name) for x in g.target.elts) \
                and is_name(g.iter, f.params[1]) and not g.ifs:
            rxv, ttv = (x.id for x in g.target.elts)
            if isinstance(e0, ast.Attribute) and isinstance(e0.value, ast.Call) and src(e0.value.func) == 're.compile' \
                    and is_name(e1, ttv) and e0.value.args and is_name(e0.value.args[0], rxv):
                fl = None
                if len(e0.value.args) > 1:
                    a = e0.value.args[1]
                    if is_name(a) and a.id in env:
                        fl = env[a.id]
                    else:
                        try:
                            fl = ctx.folder._flags(a, f.mod)
                        except NotConst:
                            fl = None
                if e0.attr != 'match':
                    detail = f'bound method is .{e0.attr}, not .match: `search` skips characters silently, `fullmatch` never matches a prefix'
                elif fl is None or (fl & (re.IGNORECASE)) == 0 or (fl & ~(re.IGNORECASE | re.UNICODE)):
                    detail = f'flags fold to {fl}; the analysis of the table assumes IGNORECASE|UNICODE'
                else:
                    ok = True
    ctx.ob('R1.6', 'store:self._SQL_REGEX', f'{f.mod.relpath}:{stores[0].lineno}',
           'self._SQL_REGEX = [(re.compile(rx, IGNORECASE|UNICODE).match, tt) for rx, tt in SQL_REGEX]', ok, detail)


def check_consume(ctx):
    f = ctx.repo.func('sqlparse.utils.consume')
    loc = f'{f.mod.relpath}:{f.node.lineno}'
    body = [s for s in f.node.body if not (isinstance(s, ast.Expr) and isinstance(s.value, ast.Constant))]
    ok, detail = False, '; '.join(src(s) for s in body)
    it, n = f.params[:2] if len(f.params) >= 2 else (None, None)
    if len(body) == 1 and isinstance(body[0], ast.Expr) and isinstance(body[0].value, ast.Call):
        c = body[0].value
        if src(c.func) in ('deque', 'collections.deque') and c.args and isinstance(c.args[0], ast.Call) \
                and src(c.args[0].func) in ('itertools.islice', 'islice'):
            a = c.args[0].args
            if len(a) == 2 and is_name(a[0], it) and is_name(a[1], n):
                ok = True
    elif len(body) == 1 and isinstance(body[0], ast.For):
        # for _ in range(n): next(it, None)
        s = body[0]
        if isinstance(s.iter, ast.Call) and is_name(s.iter.func, 'range') and len(s.iter.args) == 1 and is_name(s.iter.args[0], n) \
                and len(s.body) == 1 and isinstance(s.body[0], ast.Expr) and isinstance(s.body[0].value, ast.Call) \
                and is_name(s.body[0].value.func, 'next') and is_name(s.body[0].value.args[0], it) and len(s.body[0].value.args) == 2:
            ok = True
    ctx.ob('R1.7', 'consume-body', loc, 'consume(iterator, n) drains exactly n items', ok,
           f'body `{detail}` is not deque(islice({it}, {n}), maxlen=0) nor an n-times next() loop')
