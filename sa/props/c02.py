"""C02 -- parse() is text-preserving."""
import ast

from .. import rules_splitter as RS
from .. import rules_tree as RT
from .. import rules_stack as RK

EXPLANATION = (
    'Decomposition: (i) the splitter hands each lexer token to exactly one statement and drops only a final '
    'whitespace-only statement (R2.1-R2.3, path rules on StatementSplitter.process); (ii) str(node) is the '
    'concatenation of its leaves (R2.4); (iii) nothing that runs under parse() edits a token list or a token value '
    'except TokenList.group_tokens (R2.5, effect analysis over the call graph from grouping.group), which moves a '
    'contiguous slice with identical take/put bounds (R2.6, symbolic comparison of the slices on each arm); '
    '(iv) parse() installs no filter and FilterStack.run composes tokenize -> split -> group in that order (R2.7). '
    'Together with C01 these obligations are sufficient for the round trip under assumptions A0-A2; the check decides '
    'the obligations on the code, it does not run the parser.')


def run(ctx):
    ctx.engines |= {'paths', 'cg', 'fx'}
    ctx.rule('R2.1', 'splitter conservation: on every path of one loop iteration exactly one self.tokens.append(sql.Token(ttype, value)) with the loop targets unmodified', floor=2)
    ctx.rule('R2.2', 'yield/reset pairing: every in-loop yield of Statement(self.tokens) is followed by self._reset() before the append; _reset rebinds self.tokens to a fresh list', floor=2)
    ctx.rule('R2.3', 'final flush: pending tokens are yielded after the loop unless empty or all whitespace', floor=2)
    ctx.rule('R2.4', 'str primitives: Token.__init__/__str__, TokenList.__str__/flatten/__init__ concatenate leaf values in list order', floor=5)
    ctx.rule('R2.5', 'effect confinement: functions reachable from grouping.group edit the tree only via TokenList.group_tokens', floor=30)
    ctx.rule('R2.6', 'slice balance in group_tokens: take and put use identical bounds on the same list in both arms', floor=2)
    ctx.rule('R2.7', 'parse pipeline: parsestream builds a bare FilterStack with grouping; run = tokenize -> preprocess -> split once -> group -> stmtprocess -> postprocess -> yield', floor=6)
    RS.check_conservation(ctx, 'R2.1')
    RS.check_yield_reset(ctx, 'R2.2')
    RS.check_final_flush(ctx, 'R2.3')
    from .c04 import check_ws_rules_only_ws
    ctx.engines |= {'tables', 'rx'}
    check_ws_rules_only_ws(ctx, 'R2.3')
    RT.check_str_primitives(ctx, 'R2.4')
    RT.check_effect_confinement(ctx, 'R2.5')
    RT.check_group_tokens(ctx, 'R2.6')
    RK.check_parse_pipeline(ctx, 'R2.7')
    # the two primitives the round trip rests on, validated by interpretation: group_tokens keeps the leaf sequence and the cached
    # text, str()/flatten() of a node are the concatenation of its leaves
    # bytes input: the text whose round trip is claimed is the documented decoding of the bytes (given codec, else UTF-8, else Latin-1)
    from . import c19
    from .. import rules_lexer as RL
    ctx.rule('R2.8', 'bytes are decoded once, whole, with the given codec / UTF-8 / Latin-1 fallback; the text is scanned in one piece', floor=5)
    before = len(ctx.obs)
    for r_ in ('R19.3', 'R19.4'):
        ctx.rule(r_, '', floor=0)
    c19.check_get_tokens(ctx)
    for o_ in ctx.obs[before:]:
        o_.rule = 'R2.8'
    for r_ in ('R19.3', 'R19.4'):
        ctx.rules.pop(r_, None)
        ctx.floors.pop(r_, None)
    RL.check_whole_text(ctx, 'R2.8')
    from .. import rules_base as RB
    ctx.rule('R2.B', 'base model: group_tokens keeps the leaf sequence, parent links and cached text; str()/flatten() read the leaves in order', floor=2)
    RB.check_base_model(ctx, 'R2.B', parts=('group_tokens', 'tree'))
    ctx.rule('R2.S', 'the leaves parse() starts from carry the input text: Lexer.get_tokens interpreted on short texts yields values that add up to the text', floor=1)
    RL.check_scan_semantics(ctx, 'R2.S', table_agreement=False)
