"""C03 -- grouping is purely structural; the token tree is well formed."""
import ast

from .. import rules_tree as RT
from .. import miniev as ME
from ..astutil import (Guards, enum_paths, src, is_name, is_attr, lin, lin_diff, sym_path, local_defs, assigned_names)
from ..cg import get_cg
from ..fold import TT, NotConst
from ..fx import effects_of
from ..model import own_nodes, Cls

EXPLANATION = (
    'Decided: the leaf sequence and leaf values are preserved by grouping (R3.1a = effect confinement over the call graph '
    'from grouping.group + slice balance of group_tokens); the only re-typing is a store of T.Operator in the post hook of '
    'the operator pass (R3.1b); the token stream that is split and grouped is lexer.tokenize of the unmodified argument, with no '
    'filter in between (R3.0); every placement of a token into a child list is paired with the parent store (R3.2); the '
    'cached value of an extended group is refreshed (R3.3); the two generic drivers correct their running index by exactly '
    'the number of children removed (R3.4) and the hand-written passes resume scanning at the group just built (R3.4b); the '
    'bounds handed to group_tokens come from ordered provenance idioms (R3.5); navigation helpers and read-only accessors '
    'of sql.py are effect-free, transitively (R3.6). Not decided: that run-time index values are in range on every input, '
    'and the arithmetic agreement of token_index/get_token_at_offset with the structure (values, not shapes).')

MUTATORS = {'__init__', 'group_tokens', 'insert_before', 'insert_after'}


def run(ctx):
    ctx.engines |= {'paths', 'cg', 'fx'}
    ctx.rule('R3.1a', 'leaf sequence: functions reachable from grouping.group edit the tree only via group_tokens (effect analysis)', floor=30)
    ctx.rule('R3.1a-slice', 'group_tokens moves a contiguous slice: take and put bounds coincide in both arms', floor=2)
    ctx.rule('R3.1b', 'the only token re-typing during grouping stores T.Operator, in the post hook of the pass that matches Operator/Wildcard tokens', floor=1)
    ctx.rule('R3.2', 'parent pairing: every placement into X.tokens in sql.py is paired with token.parent = X', floor=5)
    ctx.rule('R3.3', 'value refresh: the cached value of an extended group is recomputed after the extension', floor=1)
    ctx.rule('R3.4', 'offset bookkeeping of _group_matching/_group: snapshot iteration, tidx = idx - offset, offset += end - start after each grouping', floor=6)
    ctx.rule('R3.4b', 'hand-written while-token passes resume scanning at the start index of the group just built', floor=7)
    ctx.rule('R3.5', 'bounds handed to group_tokens are ordered by construction (provenance idioms)', floor=10)
    ctx.rule('R3.6', 'navigation helpers and read-only accessors of sql.py have no tree effect, transitively', floor=40)
    ctx.rule('R3.0', 'the tree is built from the lexer output of the unmodified input: parse = tuple(parsestream) = bare FilterStack.run = tokenize(sql) -> split -> group', floor=6)
    from .. import rules_stack as RK
    RK.check_parse_pipeline(ctx, 'R3.0')
    ttype_stores, reach = RT.check_effect_confinement(ctx, 'R3.1a')
    RT.check_group_tokens(ctx, 'R3.1a-slice', 'R3.2', 'R3.3')
    check_retyping(ctx, ttype_stores)
    check_offsets(ctx)
    check_resume(ctx)
    check_bounds(ctx)
    check_stale_index(ctx)
    check_accessors(ctx)
    from .. import rules_base as RB
    ctx.rule('R3.B', 'base model: token-type containment, token flags, Token.match, imt and the navigation helpers behave as the rules assume (source interpreted on a finite matrix)', floor=1)
    check_statement_construction(ctx)
    from .. import rules_lexer as RL
    ctx.rule('R3.7', 'the leaves are the lexer tokens of the whole statement text: the input is scanned in one piece (streams read completely first)', floor=3)
    RL.check_whole_text(ctx, 'R3.7')
    RB.check_base_model(ctx, 'R3.B', parts=('contains', 'flags', 'match', 'imt', 'nav', 'tree', 'group_tokens'))


def check_retyping(ctx, stores):
    repo, folder = ctx.repo, ctx.folder
    if not stores:
        ctx.ob('R3.1b', 'no-retyping', 'sqlparse/engine/grouping.py', 'no .ttype store during grouping (stricter than required)', True)
        return
    for e in stores:
        f = e.func
        val = e.node.value if isinstance(e.node, ast.Assign) else None
        try:
            tt = folder.eval(val, f.mod) if val is not None else None
        except NotConst:
            tt = None
        ok = tt == TT(('Operator',))
        detail = f'`{e.detail}` stores {tt!r}'
        if ok:
            # it must sit in a `post` of a pass whose `match` accepts only Operator/Wildcard typed tokens
            ok = f.name == 'post' and f.parent is not None and 'match' in f.parent.nested
            detail = 'the store is not in the post hook of a _group pass'
            if ok:
                m = f.parent.nested['match']
                ok, detail = match_only_operator(ctx, m)
        ctx.ob('R3.1b', f'ttype-store:{f.short}:{e.detail}', e.loc,
               'the re-typing stores T.Operator on a token the pass matched as Operator/Wildcard', ok,
               detail + ': grouping changes the type of a leaf beyond the one re-typing C03 allows')


def match_only_operator(ctx, m):
    """match(token) == imt(token, t=(types within Operator/Wildcard))"""
    rets = [n for n in own_nodes(m.node) if isinstance(n, ast.Return)]
    if len(rets) != 1:
        return False, f'{m.short} has {len(rets)} returns'
    v = rets[0].value
    tys = None
    if isinstance(v, ast.Call) and is_name(v.func, 'imt') and len(v.args) == 1 and is_name(v.args[0], m.params[0]):
        kws = {k.arg: k.value for k in v.keywords}
        if set(kws) == {'t'}:
            try:
                tys = ctx.folder.eval(kws['t'], m.mod)
            except NotConst:
                tys = None
    elif isinstance(v, ast.Compare) and len(v.ops) == 1 and isinstance(v.ops[0], (ast.In, ast.Eq, ast.Is)) \
            and is_attr(v.left, 'ttype', m.params[0]):
        try:
            tys = ctx.folder.eval(v.comparators[0], m.mod)
        except NotConst:
            tys = None
    if tys is None:
        return False, f'match predicate `{src(v)}` is not a pure token-type test'
    tys = tys if isinstance(tys, (tuple, list)) and not isinstance(tys, TT) else (tys,)
    allowed = (TT(('Operator',)), TT(('Wildcard',)))
    bad = [t for t in tys if not any(a.contains(t) for a in allowed)]
    return (not bad), f'match accepts token types {bad} outside Operator/Wildcard'


def check_offsets(ctx):
    repo = ctx.repo
    for q in ('sqlparse.engine.grouping._group_matching', 'sqlparse.engine.grouping._group'):
        f = repo.func(q)
        tl = f.params[0]
        loops = [s for s in f.node.body if isinstance(s, ast.For)]
        if not loops:
            # worklist form: the scan loop sits in `while W: L = W.pop(); ...`; the offset must then be reset per list
            loops = [s for s in ast.walk(f.node) if isinstance(s, ast.For) and isinstance(s.iter, ast.Call) and is_name(s.iter.func, 'enumerate')]
            if len(loops) == 1:
                names = [n.id for n in ast.walk(loops[0].iter) if isinstance(n, ast.Name) and n.id not in ('enumerate', 'list', 'tuple')]
                tl = names[0] if names else tl
                # the sibling statements of the scan loop must reset the offset (an offset carried over from the previous list is wrong)
                def siblings(stmts):
                    if any(x is loops[0] for x in stmts):
                        return stmts
                    for x in stmts:
                        for fld in ('body', 'orelse'):
                            sub = getattr(x, fld, None)
                            if isinstance(sub, list) and sub and isinstance(sub[0], ast.stmt):
                                r = siblings(sub)
                                if r is not None:
                                    return r
                    return None
                sib = siblings(f.node.body) or []
                resets = [x for x in sib if isinstance(x, ast.Assign) and isinstance(x.value, ast.Constant) and x.value.value == 0]
                ctx.ob('R3.4', f'{f.name}:offset-per-list', f'{f.mod.relpath}:{loops[0].lineno}',
                       'the running offset starts at 0 for every token list that is scanned', bool(resets), 'no `offset = 0` in the per-list block')
        ctx.need(len(loops) == 1, f'{f.short}: expected one scan loop')
        lp = loops[0]
        loc = f'{f.mod.relpath}:{lp.lineno}'
        it = lp.iter
        ok = isinstance(it, ast.Call) and is_name(it.func, 'enumerate') and len(it.args) == 1 and isinstance(it.args[0], ast.Call) \
            and is_name(it.args[0].func, 'list', 'tuple') and is_name(it.args[0].args[0], tl)
        ctx.ob('R3.4', f'{f.name}:snapshot', loc, f'{f.name} iterates a snapshot enumerate(list({tl})) while it regroups {tl}', ok,
               f'iterates `{src(it)}`: the list is mutated by group_tokens during iteration')
        if not (isinstance(lp.target, ast.Tuple) and len(lp.target.elts) == 2 and all(isinstance(e, ast.Name) for e in lp.target.elts)):
            ctx.ob('R3.4', f'{f.name}:targets', loc, 'loop targets are (idx, token)', None, src(lp.target))
            continue
        idxv = lp.target.elts[0].id
        first = lp.body[0]
        offv = None
        ok = False
        if isinstance(first, ast.Assign) and is_name(first.targets[0]):
            d = lin(first.value)
            if d and d.get(idxv) == 1 and len(d) == 2 and -1 in d.values():
                offv = next(k for k, v in d.items() if v == -1)
                ok = True
                curv = first.targets[0].id
        ctx.ob('R3.4', f'{f.name}:current-index', f'{f.mod.relpath}:{first.lineno}',
               'the current index is idx - offset, computed first in the loop body', ok, f'`{src(first)}`')
        if not ok:
            continue
        n = 0
        for p in enum_paths(lp.body):
            evs, env = sym_path(p)
            calls = [(s, v) for (k, s, v, _) in evs if k in ('stmt', 'assign') and any(
                isinstance(c, ast.Call) and is_attr(c.func, 'group_tokens', tl) for c in ast.walk(s))]
            augs = [(s, v) for (k, s, v, nm) in evs if k == 'assign' and nm == offv and isinstance(s, ast.AugAssign)]
            if not calls:
                if augs:
                    ctx.ob('R3.4', f'{f.name}:stray-offset', f'{f.mod.relpath}:{augs[0][0].lineno}',
                           'the offset changes only after a grouping', False, f'`{src(augs[0][0])}` on a path without group_tokens')
                continue
            n += 1
            cs, cv = calls[0]
            call = next(c for c in ast.walk(cv) if isinstance(c, ast.Call) and isinstance(c.func, ast.Attribute) and c.func.attr == 'group_tokens')
            a, b = call.args[1], call.args[2]
            want = lin_diff(b, a)
            key = f'{f.name}:offset-after-grouping'
            if len(augs) != 1 or not isinstance(augs[0][0].op, ast.Add):
                ctx.ob('R3.4', key, f'{f.mod.relpath}:{cs.lineno}', 'offset += end - start after group_tokens(cls, start, end)', False,
                       f'{len(augs)} offset updates on the grouping path')
                continue
            s_aug, v_aug = augs[0]
            # value of the increment in terms of entry symbols
            inc = v_aug.right
            got = lin(inc)
            ok = got == want
            # both arms of group_tokens shrink the list by end - start (include_end=True default): require no include_end=False
            kw = {k.arg: k.value for k in call.keywords}
            if 'include_end' in kw and not (isinstance(kw['include_end'], ast.Constant) and kw['include_end'].value is True):
                ok = False
            ctx.ob('R3.4', key, f'{f.mod.relpath}:{s_aug.lineno}',
                   'after tlist.group_tokens(cls, a, b) the running offset grows by exactly b - a (the number of children removed)', ok,
                   f'`{src(s_aug)}` adds {src(inc)} but the list shrank by {src(b)} - {src(a)}: later indices point at the wrong children')
        ctx.need(n > 0, f'{f.short}: no group_tokens call found in the loop')


def while_token_passes(ctx):
    """grouping functions with a `while <token>:` loop that calls group_tokens"""
    out = []
    for f in ctx.repo.funcs.values():
        if f.mod.name != 'sqlparse.engine.grouping' or isinstance(f.node, ast.Lambda):
            continue
        for s in f.node.body:
            if isinstance(s, ast.While) and any(isinstance(c, ast.Call) and isinstance(c.func, ast.Attribute) and c.func.attr == 'group_tokens'
                                                for c in ast.walk(s)) \
                    and any(isinstance(c, ast.Call) and isinstance(c.func, ast.Attribute) and c.func.attr in ('token_next_by', 'token_next')
                            for c in ast.walk(f.node)):
                out.append((f, s))
    return out


def check_resume(ctx):
    for f, w in while_token_passes(ctx):
        tl = f.params[0]
        for p in enum_paths(w.body):
            evs, env = sym_path(p)
            calls = [v for (k, s, v, _) in evs if k == 'stmt' for c in [c for c in ast.walk(v) if isinstance(c, ast.Call)
                     and isinstance(c.func, ast.Attribute) and c.func.attr == 'group_tokens']]
            gcalls = []
            for (k, s, v, _) in evs:
                if k in ('stmt', 'assign') and v is not None:
                    for c in ast.walk(v):
                        if isinstance(c, ast.Call) and isinstance(c.func, ast.Attribute) and c.func.attr == 'group_tokens':
                            gcalls.append((s, c))
            if not gcalls:
                continue
            s, c = gcalls[-1]
            start = c.args[1]
            # last re-query on the path: X, Y = tlist.token_next_by(..., idx=E) / token_next(E)
            requery = None
            for (k, s2, v, nm) in evs:
                if k == 'unpack' and isinstance(v, ast.Call) and isinstance(v.func, ast.Attribute) \
                        and v.func.attr in ('token_next_by', 'token_next'):
                    requery = (s2, v)
            key = f'{f.name}:resume'
            loc = f'{f.mod.relpath}:{s.lineno}'
            if requery is None or evs.index(next(e for e in evs if e[1] is requery[0])) < max(i for i, e in enumerate(evs) if e[1] is s):
                # `while True:` form: the lookup is the first thing the next iteration does -- take the first lookup of the body,
                # its index argument evaluated with the values the variables have at the end of this path
                first = next(((s2, s2.value) for (k, s2, v, nm) in evs if k == 'unpack' and isinstance(s2.value, ast.Call)
                              and isinstance(s2.value.func, ast.Attribute) and s2.value.func.attr in ('token_next_by', 'token_next')
                              and s2 in w.body), None)
                if first is None or p.exit not in ('fall', 'continue'):
                    ctx.ob('R3.4b', key, loc, 'the loop re-queries after the grouping', False, 'no lookup after group_tokens on this path')
                    continue
                from ..astutil import subst
                raw = first[1]
                ridx = next((k.value for k in raw.keywords if k.arg == 'idx'), raw.args[0] if raw.func.attr == 'token_next' and raw.args else None)
                idx = subst(ridx, env) if ridx is not None else None
                ok = idx is not None and lin_diff(idx, start) == {}
                ctx.ob('R3.4b', key, f'{f.mod.relpath}:{first[0].lineno}',
                       'after group_tokens(cls, start, end) the scan resumes from idx = start (the index of the new group)', ok,
                       f'the next iteration looks up from `{src(idx) if idx is not None else None}` but the group was built at `{src(start)}`: '
                       'siblings after the group are skipped or the index runs past the shrunken list')
                continue
            rq = requery[1]
            idx = next((k.value for k in rq.keywords if k.arg == 'idx'), rq.args[0] if rq.func.attr == 'token_next' and rq.args else None)
            ok = idx is not None and lin_diff(idx, start) == {}
            ctx.ob('R3.4b', key, f'{f.mod.relpath}:{requery[0].lineno}',
                   'after group_tokens(cls, start, end) the scan resumes from idx = start (the index of the new group)', ok,
                   f'resumes from `{src(idx) if idx is not None else None}` (in entry terms) but the group was built at `{src(start)}`: '
                   'siblings after the group are skipped or the index runs past the shrunken list')


ACCEPTED_BOUNDS = {
    'group_comments': 'eidx = index of the last token of the comment run found by scanning forward from tidx (token_not_matching(idx=tidx) then token_prev): eidx >= tidx',
    'group_where': 'end is the token before the first closing keyword after tidx, or the last groupable token: its index is >= tidx (the WHERE keyword itself)',
    'group_values': 'start_idx is the VALUES keyword, end_idx the index of a later Parenthesis found by scanning forward from it',
}


def check_bounds(ctx):
    repo = ctx.repo
    cg = get_cg(ctx)
    n = 0
    for f in repo.funcs.values():
        if f.mod.name != 'sqlparse.engine.grouping' or isinstance(f.node, ast.Lambda):
            continue
        calls = [c for c in own_nodes(f.node, include_lambdas=False) if isinstance(c, ast.Call) and isinstance(c.func, ast.Attribute)
                 and c.func.attr == 'group_tokens']
        for c in calls:
            n += 1
            loc = f'{f.mod.relpath}:{c.lineno}'
            key = f'{f.name}:group_tokens({src(c.args[1])}, {src(c.args[2])})'
            a, b = c.args[1], c.args[2]
            ok, why = bounds_ordered(ctx, f, c, a, b)
            if ok is None and f.name in ACCEPTED_BOUNDS:
                # the invariant was confirmed by reading one particular body; whether today's body keeps it is decided by interpreting the pass (R3.9)
                sim = pass_simulation(ctx, f)
                ctx.ob('R3.5', key, loc, f'bounds ordered by a named invariant ({ACCEPTED_BOUNDS[f.name]}), confirmed by interpreting {f.name} on token lists (R3.9)',
                       True if sim is True else (None if sim is None else False), 'the pass builds an empty group / crashes on an interpreted list, see R3.9' if sim is False else 'the pass is not evaluable, see R3.9')
            else:
                ctx.ob('R3.5', key, loc, f'start <= end at `{src(c)}`', ok, why)
    ctx.need(n >= 10, f'only {n} group_tokens call sites found in engine/grouping.py')


PASS_ATOMS = {
    # pass -> atoms of the token lists it is interpreted on: (label, ttype path or class name, text)
    'group_values': [('V', ('Keyword',), 'values'), ('P', 'Parenthesis', '(1)'), (',', ('Punctuation',), ','), ('x', ('Name',), 'x'), ('w', ('Text', 'Whitespace'), ' ')],
    'group_where': [('W', ('Keyword',), 'where'), ('G', ('Keyword',), 'group by'), ('x', 'Identifier', 'x'), ('P', 'Parenthesis', '(1)'), ('w', ('Text', 'Whitespace'), ' ')],
    'group_comments': [('C', ('Comment', 'Multiline'), '/*c*/'), ('n', ('Text', 'Whitespace', 'Newline'), '\n'), ('w', ('Text', 'Whitespace'), ' '), ('x', ('Name',), 'x')],
}


def pass_simulation(ctx, f):
    """A hand-written pass interpreted (with TokenList.group_tokens and every look-up it calls) on all token lists of up to five atoms and on
    doubled shapes (two runs of its construct, the first longer than the second, two more tokens behind): afterwards the leaves are the
    same, in order, no group is empty, every child names its parent.  True / False / None (not evaluable); the obligation is R3.9."""
    import itertools
    cache = ctx.shared('pass_simulation', dict)
    key = f.qname
    if key in cache:
        return cache[key]
    repo = ctx.repo
    ctx.rule('R3.9', 'hand-written passes whose bounds rest on a named invariant, interpreted on token lists: leaves kept, no empty group, parents right, no crash', floor=1)
    atoms = PASS_ATOMS[f.name]
    loc = f'{f.mod.relpath}:{f.node.lineno}'
    stm = repo.classes.get('sqlparse.sql.Statement')

    def mk(a):
        label, kind, text = a
        if isinstance(kind, str):
            c_ = repo.classes.get(f'sqlparse.sql.{kind}')
            if kind == 'Parenthesis':
                kids = [ME.AbsToken(repo, ttype=TT(('Punctuation',)), value='('), ME.AbsToken(repo, ttype=TT(('Literal', 'Number', 'Integer')), value='1'),
                        ME.AbsToken(repo, ttype=TT(('Punctuation',)), value=')')]
            else:
                kids = [ME.AbsToken(repo, ttype=TT(('Name',)), value=text)]
            return group(c_, kids)
        t_ = ME.AbsToken(repo, ttype=TT(kind), value=text)
        t_.parent = None
        return t_

    def group(c_, kids):
        g_ = ME.AbsToken(repo, cls=c_)
        g_.tokens, g_.parent, g_.is_whitespace = kids, None, False
        g_.value = ''.join(k.value for k in kids)
        for k in kids:
            k.parent = g_
        return g_

    def leaves(t):
        if t.is_group:
            for k in t.tokens:
                yield from leaves(k)
        else:
            yield t

    def wellformed(t):
        if t.is_group:
            if not t.tokens:
                return f'empty {t.cls.name} group'
            for k in t.tokens:
                if k.parent is not t:
                    return f'child {k.value!r} of a {t.cls.name} names another parent'
                r = wellformed(k)
                if r:
                    return r
        return None
    labels = [a[0] for a in atoms]
    byl = {a[0]: a for a in atoms}
    seqs = [p_ for n_ in range(1, 6) for p_ in itertools.product(labels, repeat=n_)] if len(labels) <= 4 else \
        [p_ for n_ in range(1, 5) for p_ in itertools.product(labels, repeat=n_)]
    core = labels[:3]
    shorts = [p_ for n_ in range(1, 3) for p_ in itertools.product(core, repeat=n_)]
    longs = [p_ for n_ in range(2, 5) for p_ in itertools.product(core, repeat=n_)]
    filler = labels[3]
    doubles = [l_ + s_ + (filler, filler) for l_ in longs for s_ in shorts if l_[0] == labels[0] and s_[0] == labels[0]]
    bad, n = [], 0
    res = True
    for sq in seqs + doubles:
        st = group(stm, [mk(byl[x]) for x in sq])
        before = list(leaves(st))
        ev = ME.Evaluator(ctx, f.mod, None)
        ev.effects = True
        try:
            ME.run_function(ev, f.node, {f.params[0]: st}, max_steps=5000)
        except (ME.Unsupported, ME.Unknown) as e:
            ctx.ob('R3.9', f'{f.name}:simulation', loc, f'{f.name} is evaluable on token lists', None, f'{" ".join(sq)}: {e}')
            cache[key] = None
            return None
        except ME.Crash as e:
            bad.append(f'[{" ".join(sq)}]: {e}')
            continue
        n += 1
        after = list(leaves(st))
        if len(after) != len(before) or any(a is not b for a, b in zip(after, before)):
            bad.append(f'[{" ".join(sq)}]: the leaves changed')
            continue
        r = wellformed(st)
        if r:
            bad.append(f'[{" ".join(sq)}]: {r}')
    if bad:
        res = False
    ctx.ob('R3.9', f'{f.name}:simulation', loc, f'{f.name} interpreted on {n} token lists over {labels} (all lists up to {5 if len(labels) <= 4 else 4} atoms, {len(doubles)} doubled shapes) '
           'keeps the leaves and builds no empty group', not bad, f'{len(bad)} list(s), e.g. {bad[:3]}')
    cache[key] = res
    return res


def bounds_ordered(ctx, f, c, a, b):
    d = lin_diff(b, a)
    if d == {}:
        return True, 'same index'
    if d is not None and set(d) == {''}:
        return (d[''] >= 0), f'end - start = {d[""]}'
    defs = local_defs(f.node)
    if f.name == '_group_matching':
        da, db = defs.get(getattr(a, 'id', ''), []), defs.get(getattr(b, 'id', ''), [])
        pop = any(isinstance(x, ast.Call) and isinstance(x.func, ast.Attribute) and x.func.attr == 'pop' and not x.args for x in da if isinstance(x, ast.AST))

        def is_current(vals):
            # idx - offset computed in the loop, or a plain alias of such a variable
            for x in vals:
                if isinstance(x, ast.BinOp) and isinstance(x.op, ast.Sub):
                    return True
                if isinstance(x, ast.Name) and is_current([y for y in defs.get(x.id, []) if isinstance(y, ast.AST)]):
                    return True
            return False
        cur = is_current([x for x in db if isinstance(x, ast.AST)])
        if pop and cur:
            return True, 'start popped from the stack of earlier (smaller) indices, end = current index'
        return False, f'start `{src(a)}` is not the most recently pushed opener index / end `{src(b)}` is not the current index'
    if f.name == '_group':
        # from_idx, to_idx = post(tlist, pidx, tidx, nidx): every post returns a non-decreasing selection
        bad = []
        for g in ctx.repo.funcs.values():
            if g.name == 'post' and g.mod is f.mod:
                r = post_ordered(g)
                if r is not True:
                    bad.append(f'{g.short}: {r}')
        return (not bad), '; '.join(bad) or 'every post hook returns (from, to) chosen in order from (pidx, tidx, nidx)'
    # hand-written passes: end reached from start by forward lookups / start from end by a backward lookup
    r = prove_ge(f, defs, b, a, 0)
    if r is True:
        return True, f'end `{src(b)}` is reached from start `{src(a)}` by forward lookups'
    if isinstance(a, ast.Name):
        for d_ in defs.get(a.id, []):
            if isinstance(d_, tuple) and d_[0] == 'unpack':
                v = d_[1]
                if isinstance(v, ast.Call) and isinstance(v.func, ast.Attribute) and v.func.attr == 'token_prev' and v.args \
                        and src(v.args[0]) == src(b):
                    return True, f'start `{a.id}` is found by a backward lookup from end `{src(b)}`'
    if r is False:
        return False, f'end `{src(b)}` is found by a backward lookup from start `{src(a)}`: end < start, the group would be empty'
    if isinstance(a, ast.Name) and prove_ge(f, defs, a, b, 0) is True and lin_diff(a, b) != {}:
        return False, f'start `{src(a)}` is found by a forward lookup from end `{src(b)}`: start > end'
    return None, 'provenance of the bounds not recognised'


def prove_ge(f, defs, x, a, depth):
    """True: x >= a on every definition of x; False: some definition is a backward lookup from a; None: unknown"""
    if depth > 4:
        return None
    if lin_diff(x, a) == {}:
        return True
    if not isinstance(x, ast.Name):
        return None
    ds = defs.get(x.id, [])
    if not ds:
        return None
    res = True
    for d_ in ds:
        if isinstance(d_, tuple) and d_[0] == 'unpack' and d_[2] == 0:
            v = d_[1]
            if isinstance(v, ast.Call) and isinstance(v.func, ast.Attribute) and v.func.attr in ('token_next', 'token_next_by'):
                idx = next((k.value for k in v.keywords if k.arg == 'idx'), v.args[0] if v.func.attr == 'token_next' and v.args else None)
                if idx is None:
                    return None
                if is_name(idx, x.id):
                    continue      # re-query from itself inside the loop
                r = prove_ge(f, defs, idx, a, depth + 1)
                if r is not True:
                    return r
                continue
            if isinstance(v, ast.Call) and isinstance(v.func, ast.Attribute) and v.func.attr == 'token_prev' and v.args:
                if lin_diff(v.args[0], a) == {}:
                    return False
                return None
            return None
        if isinstance(d_, ast.Name):
            r = prove_ge(f, defs, d_, a, depth + 1)
            if r is not True:
                return r
            continue
        return None
    return res


def post_ordered(g):
    order = {p: i for i, p in enumerate(g.params[1:4])}
    rets = [n for n in own_nodes(g.node) if isinstance(n, ast.Return)]
    if not rets:
        return 'no return'
    defs = local_defs(g.node)

    def rank(e):
        if isinstance(e, ast.Name) and e.id in order:
            # a rebinding `nidx = snidx or nidx` keeps the rank (snidx is a forward lookup from nidx)
            return order[e.id]
        return None

    def check_tuple(t):
        if isinstance(t, ast.IfExp):
            return check_tuple(t.body) and check_tuple(t.orelse)
        if isinstance(t, ast.Tuple) and len(t.elts) == 2:
            r0, r1 = rank(t.elts[0]), rank(t.elts[1])
            return r0 is not None and r1 is not None and r0 <= r1
        return False
    for r in rets:
        if not check_tuple(r.value):
            return f'returns `{src(r.value)}`, not an ordered pair from ({", ".join(order)})'
    # rebinding of the index parameters inside post
    for p in order:
        for d in defs.get(p, []):
            if isinstance(d, ast.BoolOp) and isinstance(d.op, ast.Or) and len(d.values) == 2 and is_name(d.values[1], p):
                continue
            return f'parameter {p} is rebound to `{src(d) if isinstance(d, ast.AST) else d}`'
    return True


def check_accessors(ctx):
    repo = ctx.repo
    cg = get_cg(ctx)
    sqlmod = repo.mod('sqlparse.sql')
    eff_cache = {}

    def bad_effects(fn):
        if fn.qname not in eff_cache:
            out = []
            for e in effects_of(fn, cg):
                if e.kind in ('list-mut', 'tokens-rebind', 'tree-api'):
                    out.append(e)
                elif e.kind == 'attr-store':
                    # stores to attributes of locally constructed objects are not tree effects; self.<x> in __init__ neither
                    if fn.name == '__init__' and e.recv == 'self':
                        continue
                    out.append(e)
                elif e.kind == 'construct' and e.attr != 'Token':
                    out.append(e)   # TokenList constructors re-parent the children they are given
            eff_cache[fn.qname] = out
        return eff_cache[fn.qname]
    n = 0
    for c in sqlmod.classes.values():
        for name, m in c.methods.items():
            if name in MUTATORS:
                continue
            n += 1
            reach = cg.reachable([m.qname])
            offenders = []
            for q in sorted(reach):
                g = repo.funcs[q]
                if g.qname in RT.PRIMITIVES and q != m.qname:
                    # reaching a constructor/group_tokens *is* the effect; reported through the construct/tree-api site
                    continue
                for e in bad_effects(g):
                    offenders.append((g, e))
            if offenders:
                g, e = offenders[0]
                path = cg.path(m.qname, {g.qname}) or [m.qname]
                ctx.ob('R3.6', f'accessor:{m.short}:{e.kind}:{e.detail}', e.loc,
                       f'{m.short} is read-only', False,
                       f'{e.kind} `{e.detail}` in {g.short} (call path {" -> ".join(x.replace("sqlparse.", "") for x in path)}): '
                       'a read-only accessor changes parent links / child lists / values of the parsed tree')
            else:
                ctx.ob('R3.6', f'accessor:{m.short}', f'{m.mod.relpath}:{m.node.lineno}', f'{m.short} is read-only (transitively, {len(reach)} functions)', True)
    ctx.need(n >= 40, f'only {n} accessor methods found in sql.py')


def check_stale_index(ctx):
    """A pass that walks a snapshot of the list (`for idx, token in enumerate(list(tlist))`) translates snapshot positions into current
    ones with an offset (`tidx = idx - offset`) and raises the offset after each grouping.  A position computed before the offset was
    raised is stale in the rest of that iteration: kept (`start = tidx`) or handed on, it points behind the token it was meant for."""
    repo = ctx.repo
    ctx.rule('R3.4c', 'snapshot loops: a position computed as idx - offset is not used after the offset was raised in the same iteration', floor=2)
    n = 0
    for f in repo.funcs.values():
        if f.mod.name != 'sqlparse.engine.grouping' or isinstance(f.node, ast.Lambda):
            continue
        for loop in [x for x in own_nodes(f.node, include_lambdas=False) if isinstance(x, ast.For)]:
            it = loop.iter
            if not (isinstance(it, ast.Call) and is_name(it.func, 'enumerate') and it.args and isinstance(loop.target, ast.Tuple) and loop.target.elts
                    and isinstance(loop.target.elts[0], ast.Name)):
                continue
            idxvar = loop.target.elts[0].id
            offsets = {x.target.id for x in ast.walk(loop) if isinstance(x, ast.AugAssign) and isinstance(x.target, ast.Name)}
            # position variables: X = idx - offset
            posdefs = [x for x in ast.walk(loop) if isinstance(x, ast.Assign) and len(x.targets) == 1 and isinstance(x.targets[0], ast.Name)
                       and isinstance(x.value, ast.BinOp) and isinstance(x.value.op, ast.Sub) and is_name(x.value.left, idxvar)
                       and isinstance(x.value.right, ast.Name) and x.value.right.id in offsets]
            if not posdefs:
                continue
            n += 1
            offvars = {x.value.right.id for x in posdefs}
            found = []

            def loads(node, names):
                return [y for y in ast.walk(node) if isinstance(y, ast.Name) and isinstance(y.ctx, ast.Load) and y.id in names]

            def walk(stmts, pos, stale):
                """pos: names holding a current position; stale: those computed before the last raise of the offset -> state after the block
                (None when every path leaves the iteration)"""
                pos, stale = set(pos), set(stale)
                for st in stmts:
                    if isinstance(st, (ast.Continue, ast.Break, ast.Return, ast.Raise)):
                        if isinstance(st, ast.Return) and st.value is not None:
                            found.extend((y, st) for y in loads(st.value, stale))
                        return None
                    if isinstance(st, ast.If):
                        found.extend((y, st) for y in loads(st.test, stale))
                        a = walk(st.body, pos, stale)
                        b = walk(st.orelse, pos, stale)
                        if a is None and b is None:
                            return None
                        pos = (a[0] if a else set()) | (b[0] if b else set())
                        stale = (a[1] if a else set()) | (b[1] if b else set())
                        continue
                    if isinstance(st, (ast.For, ast.While, ast.Try, ast.With)):
                        found.extend((y, st) for y in loads(st, stale))
                        continue
                    if isinstance(st, ast.AugAssign) and isinstance(st.target, ast.Name) and st.target.id in offvars:
                        found.extend((y, st) for y in loads(st.value, stale))
                        stale |= pos
                        continue
                    if isinstance(st, ast.AugAssign) and isinstance(st.target, ast.Name) and st.target.id in stale:
                        stale.discard(st.target.id)        # corrected in place
                        continue
                    val = getattr(st, 'value', None)
                    if val is not None:
                        found.extend((y, st) for y in loads(val, stale))
                    if isinstance(st, ast.Assign) and len(st.targets) == 1 and isinstance(st.targets[0], ast.Name):
                        t_ = st.targets[0].id
                        v_ = st.value
                        fresh = isinstance(v_, ast.BinOp) and isinstance(v_.op, ast.Sub) and is_name(v_.left, idxvar) and isinstance(v_.right, ast.Name) and v_.right.id in offvars
                        alias = isinstance(v_, ast.Name) and v_.id in pos
                        stale.discard(t_)
                        pos.discard(t_)
                        if fresh or (alias and v_.id not in stale):
                            pos.add(t_)
                        elif alias:
                            pos.add(t_)
                            stale.add(t_)
                return pos, stale
            walk(loop.body, set(), set())
            loc = f'{f.mod.relpath}:{loop.lineno}'
            if not found:
                ctx.ob('R3.4c', f'{f.name}:loop', loc, f'{f.name}: no position of the snapshot loop is used after `{"/".join(sorted(offvars))}` was raised in the same iteration', True)
            for y, st in found[:3]:
                ctx.ob('R3.4c', f'{f.name}:{y.id}:{src(st)[:40]}', f'{f.mod.relpath}:{st.lineno}', f'{f.name}: `{y.id}` is current where `{src(st)[:60]}` uses it', False,
                       f'`{y.id}` was computed as {idxvar} - offset before the offset was raised in this iteration (tokens in front of the current one were grouped): '
                       f'it now points behind the token it was computed for; a group built from it starts too late (empty group, missing keyword, IndexError)')
    ctx.need(n >= 2, f'only {n} snapshot loops with an offset found in engine/grouping.py')


def check_statement_construction(ctx):
    """Parent links and the cached text of a Statement are set by its constructor from the token list it is given.  The splitter must
    therefore build each Statement from its complete token list and not touch it afterwards: a token put into `stmt.tokens` later
    has no parent and is missing from the cached value."""
    from ..fx import effects_of
    from ..cg import get_cg
    repo = ctx.repo
    cg = get_cg(ctx)
    ctx.rule('R3.8', 'the splitter builds every Statement from its complete token list and does not mutate it afterwards', floor=1)
    n = 0
    for f in repo.funcs.values():
        if f.mod.name not in ('sqlparse.engine.statement_splitter', 'sqlparse.engine.filter_stack', 'sqlparse'):
            continue
        for e in effects_of(f, cg):
            if e.kind in ('list-mut', 'tokens-rebind') and e.recv is not None and not e.recv.startswith('self') and (e.recv.endswith('.tokens') or e.kind == 'tokens-rebind'):
                n += 1
                ctx.ob('R3.8', f'{f.short}:{e.detail[:50]}', e.loc, 'no token list of a constructed statement is changed outside sql.py', False,
                       f'`{e.detail}` in {f.short}: tokens added to (or removed from) a Statement after it was built have parent None and are missing from '
                       'its cached value, so is_child_of / has_ancestor / within and `stmt.value` disagree with the tree')
            if e.kind == 'attr-store' and e.attr in ('value', 'parent', 'normalized') and e.recv is not None and not e.recv.startswith('self'):
                n += 1
                ctx.ob('R3.8', f'{f.short}:{e.detail[:50]}', e.loc, 'the splitter / filter stack does not patch token attributes', False, f'`{e.detail}` in {f.short}')
    ctx.ob('R3.8', 'inventory', 'sqlparse/engine/statement_splitter.py', f'{n} mutation(s) of constructed statements in the splitter / filter stack / entry points', True)
