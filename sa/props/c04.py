"""C04 -- split() partitions the input and agrees with parse()."""
import ast

from .. import rules_splitter as RS
from .. import rules_stack as RK
from .. import rules_lexer as RL
from .. import rx
from ..astutil import Guards, enum_paths, src, is_name, is_attr
from ..model import own_nodes
from ..tables import get_tables

EXPLANATION = (
    'Decided: split and parsestream build the same engine.FilterStack and drive the same FilterStack.run, which applies '
    'one freshly constructed StatementSplitter exactly once, unconditionally and before/independently of grouping (R4.1, '
    'R4.2); the splitter conserves tokens and drops only a final whitespace-only statement (R4.4 = R2.1-R2.3); the '
    'statement-terminated flag is set only after the terminator has been appended, so every yielded statement holds a '
    'non-whitespace token and every piece is non-empty after strip() (R4.3); str.strip() and the lexer agree on what '
    'whitespace is (class bitset of \\s against str.isspace over the sampled domain, and every whitespace character is '
    'first matched by a Whitespace/Newline rule) (R4.3b); StripTrailingSemicolonFilter only pops trailing whitespace/";" '
    '(R4.5); both entry points use a fully initialised default lexer (R4.6). Not decided: that splitting a returned piece '
    'again returns it unchanged (needs re-lexing of the stripped text).')


def run(ctx):
    ctx.engines |= {'paths', 'cg', 'rx', 'tables'}
    ctx.rule('R4.1', 'sibling agreement: split and parsestream build FilterStack, add no pre/postprocess filter, forward (sql, encoding) to run; split returns [str(stmt).strip() ...]', floor=4)
    ctx.rule('R4.2', 'one splitter pass shared by split/parse/format, before and independent of grouping', floor=6)
    ctx.rule('R4.3', 'consume_ws is set only after the terminator token has been appended to the current statement', floor=1)
    ctx.rule('R4.3b', 'whitespace agreement: the lexer class \\s equals str.isspace; every whitespace character is lexed by a Whitespace/Newline rule', floor=2)
    ctx.rule('R4.4', 'splitter conservation, yield/reset pairing and final flush (R2.1-R2.3)', floor=6)
    ctx.rule('R4.5', 'StripTrailingSemicolonFilter pops only trailing whitespace or ";" tokens', floor=1)
    ctx.rule('R4.6', 'both entry points tokenise with the lock-protected, fully initialised default lexer', floor=4)
    repo = ctx.repo
    RK.check_run_pipeline(ctx, 'R4.2')
    check_split_entry(ctx)
    RS.check_conservation(ctx, 'R4.4')
    RS.check_yield_reset(ctx, 'R4.4')
    RS.check_final_flush(ctx, 'R4.4')
    check_consume_after_append(ctx)
    check_ws_agreement(ctx)
    check_strip_semicolon(ctx)
    RL.check_singleton_lock(ctx, 'R4.6')
    # "the stripped text of exactly the statements parse() returns": parse() groups, split() does not -- grouping must leave the text alone
    from .. import rules_tree as RT
    ctx.rule('R4.9', 'grouping does not change the text of a statement: functions reachable from grouping.group edit the tree only via group_tokens', floor=30)
    RT.check_effect_confinement(ctx, 'R4.9')
    RT.check_group_tokens(ctx, 'R4.9')
    # every rule above reads the lexer through its tables; that the scan loop applies them faithfully is decided by interpretation
    ctx.rule('R4.S', 'Lexer.get_tokens interpreted on short texts agrees token by token with the rule-table model the other rules use', floor=1)
    RL.check_scan_semantics(ctx, 'R4.S')
    ctx.rule('R4.7', 'per-statement state of the splitter is completely reset (a piece re-split alone sees the same state)', floor=7)
    RS.check_reset_completeness(ctx, 'R4.7')
    ctx.rule('R4.8', 'driver order: a token is classified and the end-of-statement test evaluated after the reset of the previous statement (a piece re-split alone behaves the same)', floor=2)
    RS.check_driver_order(ctx, 'R4.8')


def check_split_entry(ctx):
    repo = ctx.repo
    f = repo.func('sqlparse.split')
    loc = f'{f.mod.relpath}:{f.node.lineno}'
    ctor, var = RK.stack_usage(ctx, f)
    ctx.need(ctor is not None, f'{loc}: split no longer constructs engine.FilterStack')
    kws = {k.arg: src(k.value) for k in ctor.keywords}
    ok = not ctor.args and set(kws) <= {'strip_semicolon'} and all(v in f.params for v in kws.values())
    ctx.ob('R4.1', 'split:stack-ctor', loc, 'split builds FilterStack(strip_semicolon=strip_semicolon) and nothing else', ok, f'`{src(ctor)}`')
    uses = [n.attr for n in own_nodes(f.node) if isinstance(n, ast.Attribute) and is_name(n.value, var)]
    ctx.ob('R4.1', 'split:stack-usage', loc, 'split only calls run() on its stack (no filter installed, grouping not enabled)',
           uses == ['run'], f'uses of the stack: {uses}')
    rets = [n for n in own_nodes(f.node) if isinstance(n, ast.Return)]
    ok, detail = False, f'`{src(rets[0].value) if rets else None}`'
    built = list_builder(f, rets[0].value) if len(rets) == 1 else None
    if built is not None:
        it, target, e, ifs = built
        if isinstance(it, ast.Name):
            from ..astutil import local_defs
            ds = local_defs(f.node).get(it.id, [])
            if len(ds) == 1 and isinstance(ds[0], ast.AST):
                it = ds[0]
        it_ok = isinstance(it, ast.Call) and is_attr(it.func, 'run', var) and [src(a) for a in it.args] == f.params[:2] and not it.keywords
        sv = target.id if isinstance(target, ast.Name) else None
        el_ok = isinstance(e, ast.Call) and isinstance(e.func, ast.Attribute) and e.func.attr == 'strip' and not e.args \
            and isinstance(e.func.value, ast.Call) and is_name(e.func.value.func, 'str') and len(e.func.value.args) == 1 and is_name(e.func.value.args[0], sv)
        ifs_ok = all(src(c) in (f'str({sv}).strip()', sv) for c in ifs)
        ok = it_ok and el_ok and ifs_ok
        if it_ok and not el_ok:
            detail = f'piece expression `{src(e)}` is not str({sv}).strip(): pieces are no longer the stripped statement texts'
        if not it_ok:
            detail = f'iterates `{src(it)}` instead of stack.run({", ".join(f.params[:2])})'
        if not ifs_ok:
            detail = f'pieces are filtered by `{[src(c) for c in ifs]}`'
    ctx.ob('R4.1', 'split:result', loc, 'split returns [str(stmt).strip() for stmt in stack.run(sql, encoding)]', ok, detail)
    # parsestream forwards the same two arguments to the same run (checked in R2.7 for C02; re-checked here briefly)
    p = repo.func('sqlparse.parsestream')
    rets = [n for n in own_nodes(p.node) if isinstance(n, ast.Return)]
    ok = len(rets) == 1 and isinstance(rets[0].value, ast.Call) and isinstance(rets[0].value.func, ast.Attribute) \
        and rets[0].value.func.attr == 'run' and [src(a) for a in rets[0].value.args] == p.params[:2]
    ctx.ob('R4.1', 'parsestream:forwards', f'{p.mod.relpath}:{p.node.lineno}', 'parsestream returns stack.run(stream, encoding)', ok, '')
    pc, pv = RK.stack_usage(ctx, p)
    ctx.ob('R4.1', 'same-stack-class', loc, 'split and parsestream construct the same FilterStack class', pc is not None, '')


def list_builder(f, value):
    """(iterable, target, element expression, filter conditions) of the list a function returns: a list comprehension, or
    `acc = []` / `for T in IT: [if C:] acc.append(E)` / `return acc`"""
    if isinstance(value, ast.ListComp) and len(value.generators) == 1:
        g = value.generators[0]
        return g.iter, g.target, value.elt, list(g.ifs)
    if isinstance(value, ast.Call) and is_name(value.func, 'list') and len(value.args) == 1 and isinstance(value.args[0], ast.GeneratorExp) \
            and len(value.args[0].generators) == 1:
        g = value.args[0].generators[0]
        return g.iter, g.target, value.args[0].elt, list(g.ifs)
    if isinstance(value, ast.Name):
        acc = value.id
        inits = [s for s in f.node.body if isinstance(s, ast.Assign) and len(s.targets) == 1 and is_name(s.targets[0], acc)]
        loops = [s for s in f.node.body if isinstance(s, ast.For) and any(isinstance(n, ast.Name) and n.id == acc for n in ast.walk(s))]
        others = [n for n in own_nodes(f.node) if isinstance(n, ast.Name) and n.id == acc]
        if len(inits) == 1 and isinstance(inits[0].value, ast.List) and not inits[0].value.elts and len(loops) == 1 and not loops[0].orelse:
            lp = loops[0]
            body, ifs = lp.body, []
            while len(body) == 1 and isinstance(body[0], ast.If) and not body[0].orelse:
                ifs.append(body[0].test)
                body = body[0].body
            if len(body) == 1 and isinstance(body[0], ast.Expr) and isinstance(body[0].value, ast.Call) and is_attr(body[0].value.func, 'append', acc) \
                    and len(body[0].value.args) == 1 and len(others) == 3:
                return lp.iter, lp.target, body[0].value.args[0], ifs
    return None


def check_consume_after_append(ctx):
    f, lp, (tv, vv) = RS.splitter_loop(ctx)
    n = 0
    for p in enum_paths(lp.body):
        st = p.stmts()
        sets = [s for s in st if isinstance(s, ast.Assign) and any(is_attr(t, 'consume_ws', 'self') for t in s.targets)
                and isinstance(s.value, ast.Constant) and s.value.value is True]
        for s in sets:
            n += 1
            apps = [a for a in st[:st.index(s)] if RS.is_append_token(ctx, f, a, tv, vv)[0]]
            ctx.ob('R4.3', f'consume_ws=True@[{" ∧ ".join(("" if pol else "not ") + src(t) for t, pol in p.tests())}]',
                   f'{f.mod.relpath}:{s.lineno}', 'the terminator token is appended before consume_ws is set', len(apps) == 1,
                   'consume_ws is set before the terminator is stored: the `;` would open the next statement / an empty piece can be yielded')
    ctx.need(n > 0, 'no `self.consume_ws = True` found in the splitter loop')


def check_ws_agreement(ctx):
    T = get_tables(ctx)
    ws_cls = rx.cls(r'\s', rx.LEXFLAGS)
    isspace = 0
    for i, ch in enumerate(rx.DOM):
        if ch.isspace():
            isspace |= 1 << i
    diff = ws_cls ^ isspace
    ctx.ob('R4.3b', 'class:\\s==isspace', 'sqlparse/keywords.py', 'the regex class \\s (UNICODE) and str.isspace/strip() agree on every sampled character',
           diff == 0, f'differ on {[hex(ord(c)) for c in rx.chars_of(diff)]}')
    # every whitespace char: the first rule whose first set contains it is Whitespace/Newline typed
    from ..fold import TT
    WS = TT(('Text', 'Whitespace'))
    remaining = isspace
    for r in T.lex:
        try:
            fs, nullable = rx.first_set(r.tree)
        except rx.Unsupported as e:
            ctx.ob('R4.3b', f'first:{r.pattern}', f'{T.kwmod.relpath}:{r.line}', 'first-character set computable', None, str(e))
            continue
        hit = fs & remaining
        if hit:
            ok = isinstance(r.action, TT) and WS.contains(r.action)
            # a rule that needs a second specific char (e.g. "# ") is not a whitespace claim; only rules that START with ws matter
            ctx.ob('R4.3b', f'ws-first:{r.pattern}', f'{T.kwmod.relpath}:{r.line}',
                   f'rule #{r.index} {r.pattern!r} can start at a whitespace character and is typed Whitespace/Newline', ok,
                   f'rule typed {r.action_src} can match first at whitespace {[hex(ord(c)) for c in rx.chars_of(hit, 5)]}: '
                   'text between statements would not be whitespace tokens')
            if ok and rx.min_width(r.tree) >= 1 and not rx.lookarounds(r.tree):
                # this rule certainly matches any char of its first set if its first atom alone suffices (width-1 rule)
                if r.tree.getwidth()[0] == 1:
                    remaining &= ~fs
    check_ws_rules_only_ws(ctx, 'R4.3b')
    ctx.ob('R4.3b', 'ws-covered', 'sqlparse/keywords.py', 'every whitespace character is claimed by a width-1 Whitespace/Newline rule',
           remaining == 0, f'whitespace characters not lexed as whitespace: {[hex(ord(c)) for c in rx.chars_of(remaining, 8)]}')


def check_strip_semicolon(ctx):
    from ..astutil import alias_map, canon_text
    f = ctx.repo.func('sqlparse.filters.others.StripTrailingSemicolonFilter.process')
    g = Guards(f.node)
    amap = alias_map(f.node)
    loc = f'{f.mod.relpath}:{f.node.lineno}'
    sp = f.params[1]
    pops = [n for n in own_nodes(f.node) if isinstance(n, ast.Call) and isinstance(n.func, ast.Attribute)
            and n.func.attr in ('pop', 'remove', 'clear') and canon_text(src(n.func.value), amap).endswith('.tokens')]
    dels = [n for n in own_nodes(f.node) if isinstance(n, ast.Delete)]
    ctx.need(pops or dels, 'StripTrailingSemicolonFilter.process no longer pops tokens')
    want = (f'{sp}.tokens[-1].is_whitespace', f"{sp}.tokens[-1].value == ';'")
    for pnode in pops:
        facts = [(canon_text(fa[0], amap), fa[1]) if fa[0] != '|' else ('|', [[(canon_text(e, amap), p_) for e, p_ in alt] for alt in fa[1]])
                 for fa in g.facts(pnode)]
        ok = pnode.func.attr == 'pop' and (not pnode.args or src(pnode.args[0]) == '-1') and canon_text(src(pnode.func.value), amap) == f'{sp}.tokens'
        alt_ok = False
        for fa in facts:
            if fa[0] == '|':
                alts = fa[1]
                alt_ok = alt_ok or (all(len(a) == 1 and a[0][1] and a[0][0] in want for a in alts) and len(alts) <= 2)
            elif fa[1] and fa[0] in want:
                alt_ok = True
        ctx.ob('R4.5', f'pop:{src(pnode)}', f'{f.mod.relpath}:{pnode.lineno}',
               'the filter pops the last token only while it is whitespace or ";"', ok and alt_ok,
               f'`{src(pnode)}` under guards {[x for x in facts if x[0] != "|"]}: other tokens can be removed from the statement')
    for d in dels:
        ctx.ob('R4.5', f'del:{src(d)}', f'{f.mod.relpath}:{d.lineno}', 'the filter removes tokens only by popping the last one under the whitespace/";" guard', False,
               f'`{src(d)}`')


def check_ws_rules_only_ws(ctx, rid):
    """every rule typed inside T.Whitespace matches only characters for which str.isspace() is True
    (the splitter discards a final whitespace-only statement and split() strips the pieces)"""
    from ..fold import TT
    T = get_tables(ctx)
    WS = TT(('Text', 'Whitespace'))
    isspace = 0
    for i, ch in enumerate(rx.DOM):
        if ch.isspace():
            isspace |= 1 << i
    for r in T.lex:
        if isinstance(r.action, TT) and WS.contains(r.action):
            sets = rx.Prog(r.pattern, rx.LEXFLAGS).charsets()
            extra = 0
            for s_ in sets:
                extra |= s_ & ~isspace
            ctx.ob(rid, f'ws-only:{r.pattern}', f'{T.kwmod.relpath}:{r.line}', f'whitespace rule #{r.index} {r.pattern!r} matches only whitespace characters',
                   extra == 0, f'it also matches {[hex(ord(c)) for c in rx.chars_of(extra, 6)]}: such characters are typed Whitespace, so a trailing run of '
                   'them is discarded with the final statement / stripped from a piece although they are not whitespace')
