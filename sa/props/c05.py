"""C05 -- statements end at top-level semicolons; opaque regions never split."""
import ast

from .. import rules_splitter as RS
from .. import rx
from ..astutil import Guards, enum_paths, src, is_name, is_attr, atoms
from ..fold import TT, NotConst
from ..model import own_nodes
from ..tables import get_tables

EXPLANATION = (
    'Decided (mechanism clauses): splitting is triggered only by a token that is exactly (Punctuation, ";") at level <= 0, or '
    'a GO keyword (R5.4); the in-loop yield happens only after that trigger, at the first token that is not whitespace or a '
    'single-line comment; the split level can be positive only inside parentheses or inside a CREATE statement (R5.3); the '
    'splitter never looks at the text of a non-structural token (every read of `value` is dominated by a Punctuation/Keyword '
    'type test), so replacing the contents of a string/comment/dollar body cannot influence boundaries (R5.2); the only rule '
    'of SQL_REGEX that can produce the one-character tokens ";", "(" and ")" is the Punctuation rule and nothing earlier in '
    'the table can start at those characters (R5.1); region bodies are single tokens with extents decided by the extent '
    'automata shared with C14 (R5.5). Not decided: the statement count k as a number for arbitrary scripts.')

SPLITTER = RS.SPLITTER


def run(ctx):
    ctx.engines |= {'paths', 'rx', 'tables'}
    ctx.rule('R5.1', 'structural characters: ";", "(", ")" are produced only by the Punctuation rule and no earlier rule can start there', floor=3)
    ctx.rule('R5.2', 'value independence: every read of a token text in the splitter is dominated by a Punctuation/Keyword type test', floor=5)
    ctx.rule('R5.3', 'positive split level only under parenthesis or CREATE: every positive return of _change_splitlevel is dominated by value == "(" or self._is_create', floor=3)
    ctx.rule('R5.4', 'trigger shape: consume_ws = True only for (level <= 0, Punctuation ";") or a GO keyword; yield only after it at a non-whitespace/non-line-comment token', floor=2)
    ctx.rule('R5.5', 'region bodies (strings, quoted names, dollar bodies, comments) are single tokens: extent automata (shared with C14)', floor=1)
    check_structural_chars(ctx)
    check_value_independence(ctx)
    check_positive_level(ctx)
    check_trigger(ctx)
    from .. import rules_regions as RR
    RR.check_regions(ctx, 'R5.5', quick=True)
    RR.check_quote_agreement(ctx, 'R5.5')
    ctx.rule('R5.7', 'left contexts: whatever token precedes it, the opener of a comment or quoted region starts a region token (its body cannot contribute a ";")', floor=100)
    RR.check_opener_left_contexts(ctx, 'R5.7')
    check_paren_protocol(ctx)
    from .. import rules_lexer as RL
    ctx.rule('R5.6', 'the lexer sees the whole input at once: regions cannot straddle a chunk boundary', floor=3)
    RL.check_whole_text(ctx, 'R5.6')
    # every rule above reads the lexer through its tables; that the scan loop applies them faithfully is decided by interpretation
    ctx.rule('R5.S', 'Lexer.get_tokens interpreted on short texts agrees token by token with the rule-table model the other rules use', floor=1)
    RL.check_scan_semantics(ctx, 'R5.S')
    # R5.1 is a statement about the rule table; it speaks for the scan only if the lexer that scans has that table installed
    check_plain_scripts(ctx)
    ctx.rule('R5.9', 'the lexer that scans the script has the complete rule table: the default instance is published only when initialised', floor=5)
    RL.check_singleton_lock(ctx, 'R5.9')
    from .. import rules_base as RB
    ctx.rule('R5.B', 'base model: token-type containment and token flags behave as the rules assume', floor=1)
    RB.check_base_model(ctx, 'R5.B', parts=('contains', 'flags'))


def check_structural_chars(ctx):
    T = get_tables(ctx)
    PUNCT = TT(('Punctuation',))
    for ch in ';()':
        b = rx.bit(ch)
        owner = None
        for r in T.lex:
            fs, nullable = rx.first_set(r.tree)
            if not (fs & b):
                continue
            loc = f'{T.kwmod.relpath}:{r.line}'
            w = r.tree.getwidth()
            if r.action == PUNCT and w == (1, 1):
                owner = r
                ctx.ob('R5.1', f'char:{ch}:owner', loc, f'{ch!r} is lexed by the one-character Punctuation rule #{r.index}', True)
                break
            # an earlier rule that can start at this character
            # (look-arounds ignored: over-approximation) -- acceptable only if it cannot match `ch` alone and needs more
            m = r.cre.match(ch)
            ctx.ob('R5.1', f'char:{ch}:earlier:{r.pattern}', loc,
                   f'no rule before the Punctuation rule can start at {ch!r}', False,
                   f'rule #{r.index} {r.pattern!r} ({r.action_src}) can match at {ch!r} before the Punctuation rule: a top-level '
                   f'{ch!r} may not reach the splitter as (Punctuation, {ch!r})')
        if owner is None:
            ctx.ob('R5.1', f'char:{ch}:owner', T.kwmod.relpath, f'{ch!r} is lexed by a one-character Punctuation rule', False,
                   f'no rule of width 1 typed tokens.Punctuation matches {ch!r}')


def _value_reads(f, names):
    out = []
    for n in own_nodes(f.node):
        if isinstance(n, ast.Name) and isinstance(n.ctx, ast.Load) and n.id in names:
            out.append(n)
    return out


def type_guarded(facts, tvar):
    """facts prove the token type is Punctuation (identity) or inside Keyword"""
    for fa in facts:
        if fa[0] == '|':
            continue
        e, pol = fa
        e2 = e.replace(' ', '')
        if pol and e2.startswith(f'{tvar}is') and ('Punctuation' in e or 'Keyword' in e):
            return True
        if pol and e2.startswith(f'{tvar}in') and 'Keyword' in e:
            return True
        if pol and e2.startswith(f'{tvar}==') and ('Punctuation' in e or 'Keyword' in e):
            return True
    return False


def check_value_independence(ctx):
    repo = ctx.repo
    f1 = repo.func(SPLITTER + '._change_splitlevel')
    ctx.need(len(f1.params) == 3, '_change_splitlevel signature changed')
    f2, lp, (tv2, vv2) = RS.splitter_loop(ctx)
    todo = [(f1, f1.params[1], f1.params[2]), (f2, tv2, vv2)]
    # private helpers of the splitter that receive (ttype, value) are analysed with their own parameter names
    scls = repo.cls(SPLITTER)
    for fn in (f1, f2):
        for n in own_nodes(fn.node):
            if isinstance(n, ast.Call) and is_attr(n.func, None, 'self') and n.func.attr in scls.methods and len(n.args) == 2 \
                    and all(isinstance(a, ast.Name) for a in n.args):
                h = scls.methods[n.func.attr]
                if h not in [t[0] for t in todo] and len(h.params) == 3:
                    todo.append((h, h.params[1], h.params[2]))
    for f, tvar, vvar in todo:
        g = Guards(f.node)
        tainted = {vvar}
        # names derived from the value
        changed = True
        while changed:
            changed = False
            for n in own_nodes(f.node):
                if isinstance(n, ast.Assign) and len(n.targets) == 1 and is_name(n.targets[0]) and n.targets[0].id not in tainted:
                    if any(isinstance(x, ast.Name) and x.id in tainted for x in ast.walk(n.value)):
                        tainted.add(n.targets[0].id)
                        changed = True
        # parents map to classify allowed uses
        parents = {}
        for n in ast.walk(f.node):
            for c in ast.iter_child_nodes(n):
                parents[id(c)] = n
        for r in _value_reads(f, tainted):
            par = parents.get(id(r))
            loc = f'{f.mod.relpath}:{r.lineno}'
            key = f'{f.name}:read:{r.id}:{src(par) if par is not None else ""}'
            # allowed: argument of sql.Token(ttype, value) / of self._change_splitlevel(ttype, value)
            if isinstance(par, ast.Call) and r in par.args:
                if RS.resolves_to_class(ctx, f, par.func, 'sqlparse.sql.Token') or (
                        is_attr(par.func, None, 'self') and par.func.attr in scls.methods and any(t[0] is scls.methods[par.func.attr] for t in todo)):
                    ctx.ob('R5.2', key, loc, f'`{r.id}` is only stored/forwarded here', True)
                    continue
            ok = type_guarded(g.facts(r), tvar)
            ctx.ob('R5.2', key, loc,
                   f'read of token text `{r.id}` in `{src(par)[:60] if par is not None else ""}` is dominated by a Punctuation/Keyword type test', ok,
                   f'the splitter inspects the text of a token of arbitrary type (guards: {[x for x in g.facts(r) if x[0] != "|"]}): the '
                   'contents of a string/comment/dollar body can change statement boundaries')


def check_positive_level(ctx):
    repo = ctx.repo
    f = repo.func(SPLITTER + '._change_splitlevel')
    g = Guards(f.node)
    vvar = f.params[2]
    n = 0
    for r in [x for x in own_nodes(f.node) if isinstance(x, ast.Return)]:
        v = r.value
        try:
            val = ctx.folder.eval(v, f.mod) if v is not None else None
        except NotConst:
            val = '?'
        loc = f'{f.mod.relpath}:{r.lineno}'
        if val == '?' or not isinstance(val, int) or isinstance(val, bool):
            ctx.ob('R5.3', f'return:{src(r)}', loc, 'the level delta is an integer constant', val != '?' and isinstance(val, int),
                   f'`{src(r)}` is not a constant integer delta')
            continue
        if val <= 0:
            continue
        n += 1
        facts = [x for x in g.facts(r) if x[0] != '|']
        ok = (f"{vvar} == '('", True) in facts or ('self._is_create', True) in facts
        ctx.ob('R5.3', f'return+{val}@[{" ∧ ".join(("" if p else "not ") + e for e, p in facts[-3:])}]', loc,
               'a positive level delta is returned only for "(" or inside a CREATE statement', ok,
               f'`{src(r)}` under guards {facts}: a keyword raises the split level outside CREATE, so a later top-level ";" '
               'no longer ends the statement (the pre-0.4 BEGIN behaviour)')
    ctx.need(n >= 2, '_change_splitlevel has fewer than two positive returns')
    # _is_create is set only under DDL CREATE
    for s in own_nodes(f.node):
        if isinstance(s, ast.Assign) and any(is_attr(t, '_is_create', 'self') for t in s.targets):
            facts = [x for x in g.facts(s) if x[0] != '|']
            ok = any(p and 'DDL' in e for e, p in facts) and any(p and 'CREATE' in e for e, p in facts)
            if isinstance(s.value, ast.Constant) and s.value.value is False:
                ok = True
            ctx.ob('R5.3', f'_is_create-store:{src(s)}', f'{f.mod.relpath}:{s.lineno}',
                   'self._is_create is set only for a Keyword.DDL token starting with CREATE', ok, f'guards {facts}')
    # level is only changed by += _change_splitlevel(...) and reset
    c = repo.cls(SPLITTER)
    for m in c.methods.values():
        for s in own_nodes(m.node):
            tg = s.targets if isinstance(s, ast.Assign) else [s.target] if isinstance(s, ast.AugAssign) else []
            for t in tg:
                if is_attr(t, 'level', 'self'):
                    if m.name == '_reset':
                        ok = isinstance(s.value, ast.Constant) and s.value.value == 0
                    else:
                        ok = isinstance(s, ast.AugAssign) and isinstance(s.op, ast.Add) and isinstance(s.value, ast.Call) \
                            and is_attr(s.value.func, '_change_splitlevel', 'self')
                    ctx.ob('R5.3', f'level-store:{m.name}:{src(s)}', f'{m.mod.relpath}:{s.lineno}',
                           'self.level changes only by += self._change_splitlevel(ttype, value) and is reset to 0', ok, f'`{src(s)}`')


def check_trigger(ctx):
    f, lp, (tv, vv) = RS.splitter_loop(ctx)
    g = Guards(f.node)
    n = 0
    for s in own_nodes(f.node):
        if isinstance(s, ast.Assign) and any(is_attr(t, 'consume_ws', 'self') for t in s.targets) \
                and isinstance(s.value, ast.Constant) and s.value.value is True:
            n += 1
            facts = list(g.facts(s))
            # a guard that is a call of a one-expression private helper is inlined (parameters -> arguments)
            cls_ = ctx.repo.cls(SPLITTER)
            inl = []
            for fa in facts:
                done = False
                if fa[0] != '|' and fa[1]:
                    try:
                        e = ast.parse(fa[0], mode='eval').body
                    except SyntaxError:
                        e = None
                    if isinstance(e, ast.Call) and is_attr(e.func, None, 'self') and e.func.attr in cls_.methods:
                        h = cls_.methods[e.func.attr]
                        body = [b for b in h.node.body if not (isinstance(b, ast.Expr) and isinstance(b.value, ast.Constant))]
                        if len(body) == 1 and isinstance(body[0], ast.Return) and body[0].value is not None:
                            from ..astutil import subst
                            env = {p_: a_ for p_, a_ in zip(h.params[1:], e.args)}
                            inl += atoms(subst(body[0].value, env), True)
                            done = True
                if not done:
                    inl.append(fa)
            facts = inl
            extra = [x for x in facts if x[0] != '|' and x not in g.facts(lp)]
            alts = [x for x in facts if x[0] == '|']
            loc = f'{f.mod.relpath}:{s.lineno}'
            if len(alts) == 1 and not extra:
                alternatives = alts[0][1]
            elif not alts:
                alternatives = (tuple(extra),)
                extra = []
            else:
                ctx.ob('R5.4', 'trigger', loc, 'trigger condition is a disjunction of recognised alternatives', None, f'{facts}')
                continue
            semi = go = 0
            bad = []
            for alt in alternatives:
                aset = {(e, p) for e, p in alt}
                if aset == {('self.level <= 0', True), (f'{tv} is T.Punctuation', True), (f"{vv} == ';'", True)}:
                    semi += 1
                elif (f'{tv} is T.Keyword', True) in aset and len(aset) == 2 and any("'GO'" in e and vv in e and p for e, p in aset):
                    go += 1
                else:
                    bad.append(sorted(aset))
            ok = semi == 1 and go <= 1 and not bad and not extra
            ctx.ob('R5.4', 'trigger', loc,
                   'consume_ws = True exactly when (self.level <= 0 and ttype is T.Punctuation and value == ";") or a GO keyword', ok,
                   f'unrecognised alternative(s) {bad}; extra conjunct(s) {extra}; ";"-alternative present: {semi == 1}: statements '
                   'end at something other than a top-level semicolon, or a top-level semicolon no longer ends them')
    ctx.need(n == 1, f'expected exactly one `self.consume_ws = True`, found {n}')
    # the in-loop yield
    ys = [y for y in ast.walk(lp) if isinstance(y, ast.Yield)]
    for y in ys:
        st = g.stmt_of.get(id(y))
        facts = [x for x in g.facts(st) if x not in g.facts(lp)]
        eos_ok, detail = False, ''
        names = [e for e, p in facts if e != '|' and not p and e.startswith(f'{tv} in ')]
        cw = ('self.consume_ws', True) in facts
        if names:
            nm = names[0].split(' in ', 1)[1]
            try:
                node = ast.parse(nm, mode='eval').body
                env = {}
                for s in f.node.body:
                    if isinstance(s, ast.Assign) and is_name(s.targets[0]):
                        try:
                            env[s.targets[0].id] = ctx.folder.eval(s.value, f.mod)
                        except NotConst:
                            pass
                val = ctx.folder.eval(node, f.mod, env)
                val = val if isinstance(val, (tuple, list)) and not isinstance(val, TT) else (val,)
                allowed = (TT(('Text', 'Whitespace')), TT(('Comment', 'Single')))
                badt = [t for t in val if not any(a.contains(t) for a in allowed)]
                eos_ok = not badt
                detail = f'end-of-statement filler types {val}: {badt} may not be swallowed into the finished statement'
            except (SyntaxError, NotConst) as e:
                detail = str(e)
        ok = cw and eos_ok and len(facts) == 2
        ctx.ob('R5.4', 'yield-guard', f'{f.mod.relpath}:{y.lineno}',
               'the finished statement is yielded at the first token after the trigger that is not whitespace / a single-line comment', ok,
               detail or f'guards {facts}')


PAREN_SKELETONS = {
    'CASE expression in parentheses': 'SELECT ( CASE WHEN a THEN b END ; x ) ;! SELECT 2 ;!',
    'stray END in parentheses': 'SELECT ( a END ; x ) ;! SELECT 2 ;!',
    'stray END IF / END LOOP in parentheses': 'SELECT ( a END_IF ; b END_LOOP ; c ) ;! SELECT 2 ;!',
    'CASE in parentheses in CREATE VIEW': 'CREATE VIEW v AS SELECT ( CASE WHEN a THEN 1 END ; 2 ) ;! SELECT 2 ;!',
    'transaction END then parentheses': 'BEGIN ;! END ;! SELECT ( a ; b ) ;! SELECT 2 ;!',
    'nested parentheses': 'SELECT ( ( a ; b ) ; c ) ;! SELECT 2 ;!',
}


def check_paren_protocol(ctx):
    """R5.8: the transfer function _change_splitlevel (interpreted on keyword skeletons, as in C17) keeps the level positive
    between "(" and its ")" whatever keywords occur in between: a ";" inside parentheses never splits, the ";" after the
    closing parenthesis does."""
    from . import c17
    from .. import vocab as VC
    from .. import miniev as ME
    ctx.rule('R5.8', 'a ";" inside parentheses is never a split point, whatever keywords (END, END IF, CASE ...) stand in the parentheses', floor=4)
    V = VC.get_vocab(ctx)
    f = ctx.repo.func(c17.SPLITTER + '._change_splitlevel')
    init = c17.initial_state(ctx)
    loc = f'{f.mod.relpath}:{f.node.lineno}'
    for name, script in PAREN_SKELETONS.items():
        try:
            bad = c17.judge(c17.simulate(ctx, V, script, f, init))
        except ME.Unsupported as e:
            ctx.ob('R5.8', f'paren:{name}', loc, 'skeleton evaluable on the extracted transfer function', None, str(e))
            continue
        except (ME.Unknown, ME.Crash) as e:
            bad = f'evaluation fails: {e}'
        ctx.ob('R5.8', f'paren:{name}', loc, f'{name}: every ";" inside the parentheses is seen at level >= 1, the one after ")" at level <= 0',
               bad is None, (bad or '') + f' (skeleton: {script})')


PLAIN_SCRIPTS = [
    # (key, text, number of statements, what goes wrong otherwise)
    ('two statements', 'select 1; select 2', 2, ''),
    ('two statements, comment between', 'select 1; /* c */ select 2;', 2, ''),
    ('line comment behind a terminator', 'select 1; -- c\nselect 2', 2, ''),
    ('terminator in a literal, a name, a comment', "select ';', \";\" /* ; */ from t; select 2", 2, ''),
    ('trailing-comment', 'select 1; /* c */', 1, 'a comment behind the last terminator is returned as a statement of its own'),
    ('trailing-comment', 'select 1;\n-- c\n', 1, 'a comment behind the last terminator is returned as a statement of its own'),
    ('go-as-name', 'select stop, go from lights; select 2', 2, 'a column named like the batch separator GO ends the statement'),
    ('go-as-name', 'select a as go from t', 1, 'an alias named like the batch separator GO ends the statement'),
]


def check_plain_scripts(ctx):
    """Plain scripts through the interpreted splitter: the text is lexed with the rule-table model (what R5.S shows the lexer to do), the
    token stream goes through StatementSplitter.process (source interpreted), and the number of statements must be the number of
    semicolon-joined statements written."""
    from . import c17
    from .. import miniev as ME
    ctx.rule('R5.10', 'plain scripts interpreted through StatementSplitter.process: exactly the written statements come back', floor=1)
    T = get_tables(ctx)
    f = ctx.repo.func(c17.SPLITTER + '.process')
    loc = f'{f.mod.relpath}:{f.node.lineno}'
    res = {}
    for key, text, want, what in PLAIN_SCRIPTS:
        stream = [(tt, v) for tt, v, _ in T.lex_all(text)]
        try:
            got = c17.run_process(ctx, stream)
        except (ME.Unsupported, ME.Unknown) as e:
            ctx.ob('R5.10', 'simulation', loc, 'StatementSplitter.process is evaluable on token streams', None, f'{text!r}: {e}')
            return
        except ME.Crash as e:
            res.setdefault(key, []).append(f'{text!r}: {e}')
            continue
        pieces = [''.join(t.value for t in toks) for toks in got]
        res.setdefault(key, [])
        if len(pieces) != want:
            res[key].append(f'{text!r} -> {pieces}: {len(pieces)} statement(s) for {want} written' + (f' ({what})' if what else ''))
    for key, bad in res.items():
        ctx.ob('R5.10', key, loc, f'{key}: the interpreted splitter returns the written statements', not bad, '; '.join(bad[:2]))
