"""C06 -- layout formatting never changes the significant tokens."""
import ast
import re

from .. import rules_filters as RF
from .. import rx
from ..astutil import Guards, src, is_name, is_attr, local_defs, enum_paths
from ..cg import get_cg
from ..fold import TT, NotConst
from ..model import own_nodes, Cls
from ..tables import get_tables

EXPLANATION = (
    'Decided: every tree effect of every layout filter (StripWhitespaceFilter, SpacesAroundOperatorsFilter, ReindentFilter, '
    'AlignedIndentFilter) touches only whitespace (R6.1): an insertion inserts a freshly built token of type T.Whitespace* '
    'whose value is whitespace-only (R6.2: built from whitespace constants, self.n / self.char whose every store is '
    'whitespace-only, constructor arguments that are validate_options\' unconditional "\\t"/" " ); a deletion removes a token '
    'proved whitespace by a dominating guard on the same list/index, on the pair partner of the index, or by a conditional '
    'definition; a value store is dominated by token.is_whitespace and assigns "" or " ". R6.3: each layout option appends '
    'only layout filters, in the fixed order SpacesAroundOperators, StripComments, StripWhitespace, Reindent, AlignedIndent, and '
    'format() without options runs only the serializer. R6.4: every _process_*/_stripws_* handler suffix names a class of '
    'sqlparse.sql. R6.5: the serializer protects exactly the regions its SPLIT_REGEX treats as atomic; the multi-line region '
    'kinds of the lexer are compared with that (table agreement). Not decided: that deleting a whitespace token never makes '
    'two neighbours fuse lexically, and that the output re-splits into the same number of statements.')

SERIALIZER_REGIONS = [
    ('block comment', "/* a  \n b */"),
    ('line comment with trailing blanks', "-- a  \n"),
    ('dollar-quoted body', "$$ a  \n b $$"),
    ('backtick name', "`a  \nb`"),
    ('single-quoted string', "'a  \n b'"),
    ('double-quoted name', '"a  \n b"'),
    ('single-quoted string with doubled quote', "'a''  \n b'"),
    ('single-quoted string with backslash-escaped quote', "'a\\'  \n b'"),
    ('double-quoted name with backslash-escaped quote', '"a\\"  \n b"'),
]


def run(ctx):
    ctx.engines |= {'paths', 'cg', 'fx', 'tables'}
    ctx.rule('R6.1', 'guarded effects: every mutation site of a layout filter inserts / deletes / blanks whitespace only', floor=25)
    ctx.rule('R6.3', 'stack composition: layout options append only layout filters, in a fixed order; no option -> only the serializer', floor=6)
    ctx.rule('R6.4', 'handler registry: every _process_*/_stripws_* suffix is the lower-cased name of a class of sqlparse.sql', floor=10)
    ctx.rule('R6.5', 'serializer: regions that may contain line ends / trailing blanks are atomic for SPLIT_REGEX', floor=5)
    dom = RF.WsDomain(ctx)
    n = 0
    for cname in RF.LAYOUT:
        c = RF.filter_class(ctx, cname)
        n += check_sites(ctx, c, dom)
    ctx.info['layout_mutation_sites'] = n
    check_composition(ctx)
    RF.check_plan_invariants(ctx, 'R6.3')
    check_registry(ctx)
    check_serializer(ctx)
    from .. import rules_lexer as RL
    ctx.rule('R6.9', 'literals and comments reach the filters as single tokens for every input form: the input is scanned in one piece', floor=3)
    RL.check_whole_text(ctx, 'R6.9')
    from . import c10
    c10.check_stripws_simulation(ctx, 'R6.10')
    c10.check_operator_simulation(ctx, 'R6.14')
    c10.check_reindent_simulation(ctx, 'R6.13', filter_name='AlignedIndentFilter', clause_lines=False)
    # the reindent options: whatever the layout, only whitespace may change
    c10.check_reindent_simulation(ctx, 'R6.12', option_sets=[{'comma_first': True}, {'indent_after_first': True}, {'indent_columns': True}, {'wrap_after': 4},
                                                              {'compact': True}, {'char': '\t', 'width': 1}, {'width': 4}, {'comma_first': True, 'indent_columns': True}])
    ctx.rule('R6.11', 'the serializer changes nothing but unquoted line ends and blanks at line ends (sample texts interpreted)', floor=1)
    RF.check_serializer_sim(ctx, 'R6.11')
    ctx.rule('R6.15', 'the whitespace strip_whitespace removes next to ( ) , is lexically insignificant', floor=1)
    RF.check_tight_delimiters(ctx, 'R6.15')
    ctx.rule('R6.8', 'operator spacing: the blank put behind / in front of an operator does not change how the text lexes', floor=1)
    RF.check_operator_spacing_tokens(ctx, 'R6.8')
    ctx.rule('R6.7', 'statement edges: removing the first/last child of a statement cannot fuse it with the neighbouring statement', floor=1)
    RF.check_statement_edges(ctx, 'R6.7')
    ctx.rule('R6.6', 'tree API contract: TokenList.insert_before/insert_after insert exactly the given token and change nothing else', floor=8)
    RF.check_tree_api_contract(ctx, 'R6.6')
    from .. import rules_base as RB
    ctx.rule('R6.B', 'base model: token-type containment, token flags / normal form, Token.match and imt behave as the abstract evaluation assumes', floor=1)
    RB.check_base_model(ctx, 'R6.B', parts=('contains', 'flags', 'match', 'imt'))


def check_sites(ctx, c, dom):
    sites = RF.mutation_sites(ctx, c)
    gcache = {}
    n = 0
    for f, e in sites:
        gd = gcache.setdefault(f.qname, Guards(f.node))
        node = e.node
        call = node if isinstance(node, ast.Call) else None
        loc = e.loc
        key = f'{f.short}:{e.kind}:{e.detail}'
        n += 1
        if e.kind == 'tree-api':
            tokarg = call.args[1] if len(call.args) > 1 else None
            ok, why = RF.is_ws_token_expr(ctx, tokarg, f, dom) if tokarg is not None else (False, 'no token argument')
            ctx.ob('R6.1', key, loc, f'`{e.detail}` inserts a freshly built whitespace token', ok,
                   f'inserted token `{src(tokarg) if tokarg is not None else None}`: {why}: a non-whitespace token (or text) is added to the output')
        elif e.kind == 'list-mut' and e.attr in ('insert', 'append'):
            tokarg = call.args[-1]
            ok, why = RF.is_ws_token_expr(ctx, tokarg, f, dom)
            ctx.ob('R6.1', key, loc, f'`{e.detail}` inserts a freshly built whitespace token', ok, f'inserted `{src(tokarg)}`: {why}')
        elif e.kind == 'list-mut' and e.attr in ('pop', 'remove', 'del'):
            lst = e.recv
            if e.attr == 'pop':
                idx = src(call.args[0]) if call.args else '-1'
                ok, why = RF.ws_proved(ctx, f, node, None, (lst, idx), gd)
            elif e.attr == 'remove':
                t = call.args[0]
                ok, why = RF.ws_proved(ctx, f, node, src(t), None, gd)
            else:
                sub = node.targets[0]
                if isinstance(sub.slice, ast.Slice):
                    ok, why = False, 'slice deletion'
                else:
                    ok, why = RF.ws_proved(ctx, f, node, None, (lst, src(sub.slice)), gd)
            ctx.ob('R6.1', key, loc, f'`{e.detail}` removes a token proved whitespace by a dominating guard', ok,
                   f'{why}: no recognised whitespace guard dominates this deletion, a significant token can be dropped')
        elif e.kind == 'attr-store' and e.attr == 'value':
            target = e.recv
            ok, why = RF.ws_proved(ctx, f, node, target, None, gd)
            val = node.value if isinstance(node, ast.Assign) else None
            vals_ok = val is not None and _blank_only(val)
            if not vals_ok and f.cls is not None and f.cls.name == 'StripWhitespaceFilter':
                # what such a store does to the text of a token is decided by interpretation (R6.10: comments, literals and quoted names
                # byte-identical, anything else changed at most in the whitespace between its words)
                ctx.ob('R6.1', key, loc, f'`{e.detail}` rewrites a token of StripWhitespaceFilter: decided by R6.10 on the interpreted trees', True)
                continue
            ctx.ob('R6.1', key, loc, f'`{e.detail}` rewrites only a whitespace token, to "" or " "', ok and vals_ok,
                   (f'{why}; ' if not ok else '') + (f'assigned value `{src(val)}` is not ""/" "' if not vals_ok else '') +
                   ': the text of a significant token (keyword, literal, comment) is rewritten')
        elif e.kind == 'attr-store' and e.attr in ('ttype', 'normalized', 'parent'):
            ctx.ob('R6.1', key, loc, f'`{e.detail}`: layout filters do not re-type or re-parent tokens', e.attr == 'parent',
                   'a layout filter changes a token attribute other than whitespace text')
        elif e.kind == 'tokens-rebind':
            ctx.ob('R6.1', key, loc, 'layout filters do not replace a child list wholesale', False, f'`{e.detail}`')
        elif e.kind == 'list-mut':
            ctx.ob('R6.1', key, loc, f'`{e.detail}` is a recognised whitespace edit', False, f'list mutation `{e.attr}` is not an accepted idiom')
        elif e.kind == 'item-store':
            n -= 1
        else:
            n -= 1
    return n


def _blank_only(v):
    if isinstance(v, ast.Constant):
        return v.value in ('', ' ')
    if isinstance(v, ast.IfExp):
        return _blank_only(v.body) and _blank_only(v.orelse)
    return False


ORDER = ['SpacesAroundOperatorsFilter', 'StripCommentsFilter', 'StripWhitespaceFilter', 'ReindentFilter', 'AlignedIndentFilter', 'RightMarginFilter']
LAYOUT_OPTS = {'reindent', 'reindent_aligned', 'strip_whitespace', 'use_space_around_operators', 'indent_width', 'indent_tabs',
               'indent_after_first', 'indent_columns', 'wrap_after', 'comma_first', 'compact'}
EXPECT = {'use_space_around_operators': {'SpacesAroundOperatorsFilter'}, 'strip_whitespace': {'StripWhitespaceFilter'},
          'reindent': {'StripWhitespaceFilter', 'ReindentFilter'}, 'reindent_aligned': {'AlignedIndentFilter'}}


def check_composition(ctx, rid='R6.3'):
    b, plan = RF.stack_plan(ctx)
    loc = f'{b.mod.relpath}:{b.node.lineno}'
    stm = [p for p in plan if p['list'] == 'stmtprocess']
    seq = [p['classes'][0] if p['classes'] else '?' for p in stm]
    known = [s for s in seq if s in ORDER]
    want = [s for s in ORDER if s in known]
    ctx.ob(rid, 'stmtprocess-order', loc,
           'statement filters are appended in the order SpacesAroundOperators, StripComments, StripWhitespace, Reindent, AlignedIndent, RightMargin',
           known == want and len(known) == len(seq), f'order in build_filter_stack: {seq}: e.g. blanks inserted around operators are no longer '
           'collapsed by StripWhitespaceFilter / reindent runs on unstripped whitespace')
    for p in stm:
        cn = p['classes'][0] if p['classes'] else '?'
        opts = {o for o, pol in p['options'] if pol}
        for o in opts & set(EXPECT):
            ok = cn in EXPECT[o]
            ctx.ob(rid, f'option:{o}->{cn}', f'{b.mod.relpath}:{p["line"]}', f'layout option {o} installs only layout filters ({sorted(EXPECT[o])})', ok,
                   f'{o} installs {cn}')
    for o, classes in EXPECT.items():
        got = {p['classes'][0] for p in stm if p['classes'] and o in {x for x, pol in p['options'] if pol}}
        ctx.ob(rid, f'option:{o}', loc, f'option {o} installs {sorted(classes)}', classes <= got, f'installs {sorted(got)}')
    # every stmtprocess filter needs grouping
    calls = [n for n in own_nodes(b.node) if isinstance(n, ast.Call) and is_attr(n.func, 'enable_grouping')]
    ctx.ob(rid, 'grouping-enabled', loc, 'each statement filter is installed together with stack.enable_grouping()', len(calls) >= len(stm), f'{len(calls)} enable_grouping calls for {len(stm)} statement filters')
    # format(): serializer appended last, unconditionally
    f = ctx.repo.func('sqlparse.format')
    apps = [n for n in own_nodes(f.node) if isinstance(n, ast.Call) and isinstance(n.func, ast.Attribute) and n.func.attr == 'append'
            and isinstance(n.func.value, ast.Attribute) and n.func.value.attr == 'postprocess']
    ok = len(apps) == 1 and 'SerializerUnicode' in src(apps[0].args[0])
    gd = Guards(f.node)
    ok = ok and not gd.facts(apps[0])
    body = f.node.body
    order_ok = False
    if ok:
        idx_build = next((i for i, s in enumerate(body) if 'build_filter_stack' in src(s)), -1)
        idx_app = next((i for i, s in enumerate(body) if any(n is apps[0] for n in ast.walk(s))), -1)
        idx_val = next((i for i, s in enumerate(body) if 'validate_options' in src(s)), -1)
        order_ok = 0 <= idx_val < idx_build < idx_app
    ctx.ob(rid, 'format:serializer-last', f'{f.mod.relpath}:{f.node.lineno}',
           'format() validates the options, builds the stack, then appends SerializerUnicode last and unconditionally', ok and order_ok, '')


def check_registry(ctx):
    repo = ctx.repo
    cg = get_cg(ctx)
    sqlnames = {c.name.lower() for c in repo.mod('sqlparse.sql').classes.values()}
    n = 0
    for q, d in cg.dispatch.items():
        f = repo.funcs[q]
        for m in d['targets']:
            if m is d['default']:
                continue
            suffix = m.name[len(d['prefix']):]
            if suffix == 'default':
                continue
            n += 1
            ctx.ob('R6.4', f'{m.short}', f'{m.mod.relpath}:{m.node.lineno}',
                   f'handler {m.short} is reachable: `{suffix}` is the lower-cased name of a class in sqlparse.sql', suffix in sqlnames,
                   f'no class named like `{suffix}`: the handler is never dispatched to and the default handler runs instead')
    ctx.need(n >= 10, f'only {n} dispatch handlers found')


def check_serializer(ctx, rid='R6.5', regions=None):
    repo, folder = ctx.repo, ctx.folder
    u = repo.mod('sqlparse.utils')
    try:
        split_rx = folder.module_value(u, 'SPLIT_REGEX')
        line_rx = folder.module_value(u, 'LINE_MATCH')
    except NotConst as e:
        ctx.need(False, f'utils.SPLIT_REGEX/LINE_MATCH not foldable: {e}')
    f = repo.func('sqlparse.filters.others.SerializerUnicode.process')
    text = src(f.node)
    shape = "split_unquoted_newlines(stmt)" in text and "'\\n'.join((line.rstrip() for line in lines))" in text
    ctx.ob(rid, 'serializer-shape', f'{f.mod.relpath}:{f.node.lineno}',
           'SerializerUnicode joins split_unquoted_newlines(stmt) lines with "\\n" after rstrip()', shape, text[-120:])
    g = repo.func('sqlparse.utils.split_unquoted_newlines')
    check_split_conservation(ctx, g, split_rx, rid)
    srx = re.compile(split_rx.pattern, split_rx.flags)
    lrx = re.compile(line_rx.pattern, line_rx.flags)
    T = get_tables(ctx)
    for name, lexeme in (regions or SERIALIZER_REGIONS):
        toks = T.lex_all(lexeme)
        one = len(toks) == 1 or (len(toks) == 2 and toks[1][1] in ('\n',))
        # the serializer's line model applied to the lexeme (constants from utils.py on a constant string)
        lines = ['']
        for piece in srx.split(lexeme):
            if not piece:
                continue
            if lrx.match(piece):
                lines.append('')
            else:
                lines[-1] += piece
        out = '\n'.join(l.rstrip() for l in lines)
        body_kept = out == lexeme or (lexeme.endswith('\n') and out == lexeme[:-1].rstrip() + '\n' and False)
        ctx.ob(rid, f'region:{name}', f'{u.relpath}:{u.assigns["SPLIT_REGEX"].lineno}',
               f'a {name} (one lexer token: {one}) passes the serializer byte-identical', out == lexeme,
               f'{lexeme!r} is rewritten to {out!r}: SPLIT_REGEX does not treat this region as atomic, so line ends / trailing blanks inside it are normalised')


def check_split_conservation(ctx, g, split_rx, rid='R6.5'):
    """split_unquoted_newlines keeps every character except line ends: it iterates SPLIT_REGEX.split(text)
    (re.split with a capturing group returns the matches AND the text between them), or the regex is total."""
    loc = f'{g.mod.relpath}:{g.node.lineno}'
    calls = [n for n in own_nodes(g.node) if isinstance(n, ast.Call) and isinstance(n.func, ast.Attribute) and is_name(n.func.value, 'SPLIT_REGEX')]
    kinds = sorted({c.func.attr for c in calls})
    uses_split = kinds == ['split']
    total = True
    witness = None
    if not uses_split:
        # totality: every single character must be matched by the regex on its own
        cre = re.compile(split_rx.pattern, split_rx.flags)
        for ch in ["'", '"', 'a', ' ', '\n', '\r', '\\', '`', '$', ';']:
            if not cre.fullmatch(ch):
                total = False
                witness = ch
                break
    ctx.ob(rid, 'split_unquoted_newlines:conservation', loc,
           'split_unquoted_newlines iterates SPLIT_REGEX.split(text) (matches and gaps), so no character is lost', uses_split or total,
           f'it uses SPLIT_REGEX.{"/".join(kinds)}(), which returns only the matched chunks, and the regex does not match {witness!r} on its own: '
           'an unbalanced quote (apostrophe in a comment or dollar body) disappears from the output')
    # every non-empty chunk is either a line break (new line) or appended to the current line
    loops = [n for n in own_nodes(g.node) if isinstance(n, ast.For)]
    ok = False
    if len(loops) == 1:
        ok = True
        for p in enum_paths(loops[0].body):
            st = p.stmts()
            app = [x for x in st if isinstance(x, ast.Expr) and isinstance(x.value, ast.Call) and isinstance(x.value.func, ast.Attribute) and x.value.func.attr == 'append']
            aug = [x for x in st if isinstance(x, ast.AugAssign)]
            facts = [a for a in p.facts() if a[0] != '|']
            empty = any((not pol) and e == src(loops[0].target) for e, pol in facts) or p.exit == 'continue' and not app and not aug
            if not (empty or len(app) + len(aug) == 1):
                ok = False
    ctx.ob(rid, 'split_unquoted_newlines:every-chunk-kept', loc, 'every non-empty chunk starts a new line or is appended to the current one', ok, '')
