"""C07 -- totality: any text and any valid option set gives a result or SQLParseError."""
import ast
import re

from .. import nulls as NL
from .. import rules_stack as RK
from .. import rx
from ..astutil import Guards, src, is_name, is_attr, local_defs, exits_always, alias_map, canon_text
from ..cg import get_cg
from ..fold import TT, NotConst, Marker
from ..model import own_nodes, Cls, FUNC_NODES
from ..tables import get_tables
from . import c15

EXPLANATION = (
    'Decided: an error discipline over all code reachable from the entry points and the read-only accessors -- the set of ways '
    'this code base has crashed historically. R7.1: every raise reachable from the entry points raises SQLParseError (accepted '
    'with reason: TypeError for non-text input, NotImplementedError of the undocumented right_margin filter, one assert). '
    'R7.2: format() validates before it builds the stack; every option key read by build_filter_stack is validated (a raise '
    'dominated by a test on that key) or only ever stored by validate_options from validated values; every int() on an option '
    'is inside a try whose handler covers TypeError and ValueError and raises SQLParseError; every test applied to a raw option '
    'value is total (membership in a list/tuple display, never a set display that hashes the value); accepted case values are '
    'str methods; every documented option is handled. R7.3: no possibly-None value (summaries inferred by fixpoint, flow-sensitive '
    'environment with pair correlation) reaches an attribute read, subscript, call, arithmetic, iteration, unpacking, a '
    'container, or a parameter the callee dereferences unguarded. R7.4: every constant subscript / next() / pop() / index() site '
    'is covered by a dominating emptiness/length/membership guard or by a named shape invariant established elsewhere. R7.5: no '
    'read of a possibly-unbound local. R7.6: RecursionError is translated (C15). Not decided: totality itself -- index values '
    'computed at run time, str method corner cases, memory.')

ENTRY = ['sqlparse.parse', 'sqlparse.parsestream', 'sqlparse.split', 'sqlparse.format']

ACCEPTED_RAISE = {
    ('sqlparse.lexer.Lexer.get_tokens', 'TypeError'): 'input that is neither text, bytes nor a text stream is outside the property\'s quantifier ("for every input text")',
    ('sqlparse.filters.right_margin.RightMarginFilter.process', 'NotImplementedError'): 'right_margin is not a documented option (docs/source/api.rst) and the filter is marked "Doesn\'t work"',
    ('sqlparse.filters.output.OutputFilter._process', 'NotImplementedError'): 'abstract method; only the two concrete subclasses are ever instantiated (build_filter_stack)',
}

ACCEPTED_NULL = {
    'filters.others.StripWhitespaceFilter._stripws_parenthesis:arithmetic':
        'PAREN-HAS-CLOSE: the handler is dispatched for Parenthesis groups only, a Parenthesis is built by _group_matching from a matched "(" ... ")" pair (C09 R9.1) and no later pass can absorb its delimiters (R9.5/R9.6), so the lookup of M_CLOSE among its own children succeeds',
    'engine.grouping._group:stored unchecked in a container':
        'a matched group starts with its opening token, which is neither whitespace nor a comment, so the backward lookup from the end always finds a token; the tuple is only used for identity membership tests',
    'engine.grouping.group_comments:argument `end` of sql.TokenList.group_tokens (dereferenced there without a guard)':
        'eidx is the index of a non-comment token found after tidx, so token_prev(eidx) finds at least the comment token at tidx',
    'filters.reindent.ReindentFilter._process_identifierlist:attribute':
        'IDLIST: a comma inside an IdentifierList is always followed by an item (group_identifier_list only joins `x , y`), so token_next finds a token',
    'engine.grouping._group:argument `nidx` of engine.grouping.group_assignment.post (dereferenced there without a guard)':
        'the call is guarded by valid_next(next_), and the valid_next of group_assignment (the only pass whose post looks up from nidx) rejects None; (nidx, next_) come from one lookup, so nidx is an index there',
    'sql.Function.get_parameters:attribute':
        'FUNCTION-HAS-PAREN: group_functions builds a Function only as [name ... Parenthesis], so the Parenthesis lookup succeeds',
    'filters.aligned_indent.AlignedIndentFilter._process_case:stored unchecked in a container':
        'CASE-HAS-END: a Case is built by _group_matching from CASE..END and no later pass can absorb its delimiters (C09 R9.5/R9.6), so the END lookup succeeds',
}


def run(ctx):
    ctx.engines |= {'cg', 'paths', 'nulls', 'tables', 'fx'}
    ctx.rule('R7.1', 'raise inventory: every raise reachable from the entry points raises SQLParseError', floor=20)
    ctx.rule('R7.2', 'options are validated before use, with total tests, and every documented option is handled', floor=30)
    ctx.rule('R7.3', 'nullness: no possibly-None value reaches a dereference', floor=100)
    ctx.rule('R7.4', 'bounds: constant subscripts / next / pop / index are guarded or covered by a named invariant', floor=40)
    ctx.rule('R7.5', 'no read of a possibly-unbound local', floor=100)
    ctx.rule('R7.6', 'RecursionError is translated to SQLParseError around the whole pipeline (C15)', floor=10)
    reach = reachable_functions(ctx)
    ctx.info['functions_in_scope'] = len(reach)
    check_raises(ctx, reach)
    check_options(ctx)
    check_option_totality(ctx)
    check_nullness(ctx, reach)
    check_bounds(ctx, reach)
    check_unbound(ctx, reach)
    from .. import rules_lexer as RL
    ctx.rule('R7.7', 'no caller can obtain a half-initialised default lexer (lock discipline of get_default_instance)', floor=5)
    RL.check_singleton_lock(ctx, 'R7.7')
    # the accepted None / bounds sites (ACCEPTED_NULL, ACCEPTED_BOUNDS) are argued from what the navigation helpers return
    # ("the group ends with its closing token", "token_prev(len) is the last child"): validate those helpers against the model
    from .. import rules_filters as RF
    ctx.rule('R7.8', 'a filter that keeps the previous statement uses only str() of it (its token list may be a spent generator)', floor=1)
    RF.check_retained_statement(ctx, 'R7.8')
    ctx.rule('R7.10', 'a group handler finds the delimiter of every group of its class (literal in the handler vs M_OPEN/M_CLOSE): a lookup that comes back empty is dereferenced', floor=2)
    RF.check_handler_tables(ctx, 'R7.10')
    ctx.rule('R7.9', 'a fixed-length table is not indexed with an unbounded run-time quantity', floor=1)
    RF.check_fixed_tables(ctx, 'R7.9', reach)
    from .. import rules_base as RB
    ctx.rule('R7.B', 'base model: the navigation helpers and token predicates return what the accepted-site arguments assume', floor=1)
    RB.check_base_model(ctx, 'R7.B', parts=('contains', 'flags', 'match', 'imt', 'nav'))
    # R7.6
    before = len(ctx.obs)
    for r in ('R15.1', 'R15.2', 'R15.3', 'R15.4', 'R15.5', 'R15.6', 'R15.7', 'R15.8'):
        ctx.rule(r, '', floor=0)
    c15.run(ctx)
    for o in ctx.obs[before:]:
        o.rule = 'R7.6'
    for r in ('R15.1', 'R15.2', 'R15.3', 'R15.4', 'R15.5', 'R15.6', 'R15.7', 'R15.8'):
        ctx.rules.pop(r, None)
        ctx.floors.pop(r, None)


def reachable_functions(ctx):
    cg = get_cg(ctx)
    repo = ctx.repo
    roots = list(ENTRY)
    for c in repo.mod('sqlparse.sql').classes.values():
        for m in c.methods.values():
            if not m.name.startswith('_') or m.name in ('__init__', '__str__', '__repr__', '__iter__', '__getitem__'):
                roots.append(m.qname)
    # filters are constructed by name in build_filter_stack and run through FilterStack.run
    reach = cg.reachable(roots)
    return {q for q in reach if not repo.funcs[q].mod.name.endswith(('cli', '__main__'))}


def check_raises(ctx, reach):
    repo = ctx.repo
    cg = get_cg(ctx)
    n = 0
    for q in sorted(reach):
        f = repo.funcs[q]
        if isinstance(f.node, ast.Lambda):
            continue
        handlers = {}
        for t in [x for x in own_nodes(f.node, include_lambdas=False) if isinstance(x, ast.Try)]:
            for h in t.handlers:
                for x in ast.walk(h):
                    handlers[id(x)] = h
        for r in [x for x in own_nodes(f.node, include_lambdas=False) if isinstance(x, (ast.Raise, ast.Assert))]:
            n += 1
            loc = f'{f.mod.relpath}:{r.lineno}'
            if isinstance(r, ast.Assert):
                # accepted iff all package callers satisfy it: `assert end is None` under reverse -- callers pass reverse only via token_prev/next
                ok = src(r.test) == 'end is None' and f.qname.endswith('_token_matching') and _reverse_callers_pass_no_end(ctx, f)
                ctx.ob('R7.1', f'{f.short}:assert:{src(r.test)}', loc, f'`assert {src(r.test)}` holds for every package caller', 'accepted' if ok else False,
                       'all callers that pass reverse=True leave `end` at its default None' if ok else 'an assert can raise AssertionError')
                continue
            if r.exc is None:
                ctx.ob('R7.1', f'{f.short}:reraise', loc, 'bare re-raise inside a handler', id(r) in handlers, '')
                continue
            e = r.exc.func if isinstance(r.exc, ast.Call) else r.exc
            name = src(e)
            is_parse_error = RK.resolves_to(ctx, f, e, 'sqlparse.exceptions.SQLParseError')
            if is_parse_error:
                ctx.ob('R7.1', f'{f.short}:raise:{name}@{_guardkey(f, r)}', loc, f'`raise {name}` is SQLParseError', True)
            elif (f.qname, name) in ACCEPTED_RAISE:
                ctx.ob('R7.1', f'{f.short}:raise:{name}', loc, f'`raise {name}` accepted', 'accepted', ACCEPTED_RAISE[(f.qname, name)])
            else:
                ctx.ob('R7.1', f'{f.short}:raise:{name}', loc, f'every raise reachable from the entry points raises SQLParseError', False,
                       f'`{src(r)[:70]}` raises {name} in {f.short}: an exception other than SQLParseError escapes to the caller')
    ctx.need(n >= 20, f'only {n} raise statements found')


def _guardkey(f, r):
    return str(r.lineno - f.node.lineno)


def _reverse_callers_pass_no_end(ctx, f):
    cg = get_cg(ctx)
    for caller, sites in cg.sites.items():
        for call, callees in sites:
            if f.qname in callees:
                kw = {k.arg: k.value for k in call.keywords}
                if 'reverse' in kw and ('end' in kw or len(call.args) >= 3):
                    return False
    return True


# ---------------------------------------------------------------------------
# R7.2 options

WEIRD = [None, True, False, 0, 1, -1, 2, 7, 10 ** 6, 2.5, float('inf'), float('nan'), 'x', '', 'upper', 'Upper', 'php', 'sql', '5', '-3', 'inf', [], [1], {}, (1,), b'x']
NORMAL_FORM = {
    'indent_width': lambda v: isinstance(v, int) and not isinstance(v, bool) and v >= 1,
    'wrap_after': lambda v: isinstance(v, int) and not isinstance(v, bool) and v >= 0,
    'truncate_strings': lambda v: v is None or (isinstance(v, int) and not isinstance(v, bool) and v > 1),
    'right_margin': lambda v: v is None or (isinstance(v, int) and not isinstance(v, bool) and v >= 10),
    'truncate_char': lambda v: isinstance(v, str),
    'keyword_case': lambda v: v in (None, 'upper', 'lower', 'capitalize'),
    'identifier_case': lambda v: v in (None, 'upper', 'lower', 'capitalize'),
    'output_format': lambda v: v in (None, 'sql', 'python', 'php'),
    'indent_char': lambda v: v in (' ', '\t'),
}


def check_option_totality(ctx):
    """R7.2g: validate_options and build_filter_stack are interpreted (optmodel) on every option key x a list of ill-typed and
    boundary values: the outcome is either a dictionary in normal form from which a stack can be built, or SQLParseError."""
    from .. import optmodel as OM
    repo = ctx.repo
    vo = repo.func('sqlparse.formatter.validate_options')
    b = repo.func('sqlparse.formatter.build_filter_stack')
    keys = set()
    for fn in (vo, b):
        for n in own_nodes(fn.node):
            if isinstance(n, ast.Call) and isinstance(n.func, ast.Attribute) and n.func.attr == 'get' and n.args and isinstance(n.args[0], ast.Constant) \
                    and isinstance(n.args[0].value, str):
                keys.add(n.args[0].value)
            if isinstance(n, ast.Subscript) and isinstance(n.slice, ast.Constant) and isinstance(n.slice.value, str) and is_name(n.value, fn.params[-1] if fn is b else fn.params[0]):
                keys.add(n.slice.value)
    ctx.need(len(keys) >= 15, f'only {len(keys)} option keys found in validate_options/build_filter_stack')
    contexts = {'truncate_char': {'truncate_strings': 5}, 'indent_width': {'reindent': True}, 'wrap_after': {'reindent': True},
                'comma_first': {'reindent': True}, 'compact': {'reindent': True}, 'indent_after_first': {'reindent': True},
                'indent_tabs': {'reindent': True}, 'indent_columns': {}}
    n = 0
    for k in sorted(keys):
        bad = []
        for w in WEIRD:
            o = dict(contexts.get(k, {}))
            o[k] = w
            n += 1
            v = OM.validate(ctx, o)
            if isinstance(v, tuple):
                if v[0] == 'raise' and v[1] == ('SQLParseError',):
                    continue
                bad.append((w, f'validate_options fails with {v}'))
                continue
            nf = [(kk, vv) for kk, vv in v.items() if kk in NORMAL_FORM and not NORMAL_FORM[kk](vv)]
            if nf:
                bad.append((w, f'accepted, but not in normal form: {nf}'))
                continue
            boolkeys = [kk for kk in RF_BOOL if kk in v and not (v[kk] is True or v[kk] is False or v[kk] in (0, 1))]
            if boolkeys:
                bad.append((w, f'accepted, but flag(s) {boolkeys} are not boolean'))
                continue
            pl = OM.plan(ctx, v)
            if not isinstance(pl, dict):
                bad.append((w, f'build_filter_stack fails with {pl}'))
        ctx.ob('R7.2', f'g:totality:{k}', f'{vo.mod.relpath}:{vo.node.lineno}',
               f'option {k}: each of {len(WEIRD)} ill-typed/boundary values is rejected with SQLParseError or normalised to a usable value', not bad,
               '; '.join(f'{k}={w!r}: {why}' for w, why in bad[:3]) + ': the call does not end in a result or SQLParseError')
    ctx.info['option_values_evaluated'] = n


RF_BOOL = ('strip_comments', 'use_space_around_operators', 'strip_whitespace', 'indent_columns', 'reindent', 'reindent_aligned',
           'indent_tabs', 'indent_after_first', 'comma_first', 'compact')


def check_options(ctx):
    repo, folder = ctx.repo, ctx.folder
    vo = repo.func('sqlparse.formatter.validate_options')
    b = repo.func('sqlparse.formatter.build_filter_stack')
    g = Guards(vo.node)
    optp = vo.params[0]
    loc0 = f'{vo.mod.relpath}:{vo.node.lineno}'
    # (a) format: validate -> build -> run
    f = repo.func('sqlparse.format')
    body = f.node.body
    iv = next((i for i, s in enumerate(body) if any(isinstance(n, ast.Call) and RK.resolves_to(ctx, f, n.func, vo.qname) for n in ast.walk(s))), -1)
    ib = next((i for i, s in enumerate(body) if any(isinstance(n, ast.Call) and RK.resolves_to(ctx, f, n.func, b.qname) for n in ast.walk(s))), -1)
    ir = next((i for i, s in enumerate(body) if any(isinstance(n, ast.Call) and isinstance(n.func, ast.Attribute) and n.func.attr == 'run' for n in ast.walk(s))), -1)
    ctx.ob('R7.2', 'a:validate-before-build', f'{f.mod.relpath}:{f.node.lineno}', 'format() validates the options before building the stack and before running it',
           0 <= iv < ib < ir, f'statement indices validate={iv} build={ib} run={ir}: an invalid option value reaches the filters before it is rejected')
    # locals bound to options.get(key)
    local_of = {}
    for n in own_nodes(vo.node):
        if isinstance(n, ast.Assign) and is_name(n.targets[0]) and isinstance(n.value, ast.Call) and is_attr(n.value.func, 'get', optp) \
                and n.value.args and isinstance(n.value.args[0], ast.Constant):
            local_of.setdefault(n.value.args[0].value, []).append((n.targets[0].id, n))
    known = set(local_of)
    # (b) keys read by build_filter_stack
    reads = {}
    for n in own_nodes(b.node):
        key = None
        if isinstance(n, ast.Subscript) and is_name(n.value, b.params[1]) and isinstance(n.slice, ast.Constant):
            key = n.slice.value
        if isinstance(n, ast.Call) and is_attr(n.func, 'get', b.params[1]) and n.args and isinstance(n.args[0], ast.Constant):
            key = n.args[0].value
        if key is not None:
            reads.setdefault(key, n)
    raises = [r for r in own_nodes(vo.node) if isinstance(r, ast.Raise)]
    for key, node in sorted(reads.items()):
        validated = False
        why = ''
        for lname, asg in local_of.get(key, []):
            for r in raises:
                facts = g.facts(r)
                if any(_mentions(a, lname) for a in facts) or _in_handler_of_try_using(vo, r, lname):
                    validated = True
        stores = [n for n in own_nodes(vo.node) if isinstance(n, ast.Assign) and isinstance(n.targets[0], ast.Subscript)
                  and is_name(n.targets[0].value, optp) and isinstance(n.targets[0].slice, ast.Constant) and n.targets[0].slice.value == key]
        if not validated and stores:
            # only ever stored by validate_options from constants / validated locals
            def safe(v):
                if isinstance(v, ast.Constant):
                    return True
                if isinstance(v, ast.Name):
                    for k2, ls in local_of.items():
                        for lname, asg in ls:
                            if lname == v.id:
                                return any(any(_mentions(a, lname) for a in g.facts(r)) or _in_handler_of_try_using(vo, r, lname) for r in raises)
                return False
            unconditional = all(not [a for a in g.facts(s_) if a[0] != '|' and not a[0].startswith(optp)] or True for s_ in stores)
            validated = all(safe(s_.value) for s_ in stores) and (key not in local_of or validated)
            why = f'stored as {[src(s_.value) for s_ in stores]}'
        ctx.ob('R7.2', f'b:key:{key}', f'{b.mod.relpath}:{node.lineno}', f'option `{key}` read by build_filter_stack is validated by validate_options', validated,
               f'no `raise SQLParseError` in validate_options is dominated by a test on `{key}` ({why or "never read there"}): an invalid value '
               'reaches a filter and fails there with TypeError/ValueError/AttributeError instead of SQLParseError')
    # (c) int() conversions
    for n in own_nodes(vo.node):
        if isinstance(n, ast.Call) and is_name(n.func, 'int', 'float'):
            t = _enclosing_try(vo, n)
            ok = False
            detail = 'not inside a try'
            if t is not None:
                names = set()
                for h in t.handlers:
                    if h.type is None:
                        names |= {'TypeError', 'ValueError'}
                    else:
                        names |= {src(x) for x in (h.type.elts if isinstance(h.type, ast.Tuple) else [h.type])}
                    if 'Exception' in names:
                        names |= {'TypeError', 'ValueError'}
                hr = all(any(isinstance(x, ast.Raise) and x.exc is not None and RK.resolves_to(ctx, vo, x.exc.func if isinstance(x.exc, ast.Call) else x.exc,
                                                                                             'sqlparse.exceptions.SQLParseError') for x in ast.walk(h)) for h in t.handlers)
                ok = {'TypeError', 'ValueError'} <= names and hr
                detail = f'handlers catch {sorted(names)}'
            ctx.ob('R7.2', f'c:{src(n)}', f'{vo.mod.relpath}:{n.lineno}', f'`{src(n)}` is inside a try that turns TypeError and ValueError into SQLParseError', ok,
                   detail + ': e.g. None or "x" as value escapes as TypeError/ValueError')
    # (d) accepted case values are str methods
    for key in ('keyword_case', 'identifier_case'):
        for lname, asg in local_of.get(key, []):
            for n in own_nodes(vo.node):
                if isinstance(n, ast.Compare) and is_name(n.left, lname) and isinstance(n.ops[0], (ast.In, ast.NotIn)):
                    v = folder.try_eval(n.comparators[0], vo.mod)
                    vals = [x for x in (v or []) if x is not None]
                    bad = [x for x in vals if not (isinstance(x, str) and hasattr(str, x) and callable(getattr(str, x)))]
                    ctx.ob('R7.2', f'd:{key}', f'{vo.mod.relpath}:{n.lineno}', f'every accepted value of {key} names a str method (getattr(str, case))', not bad and bool(vals),
                           f'{bad} are not str methods: _CaseFilter.__init__ raises AttributeError')
    # (e) documented options
    documented = documented_options(ctx)
    ctx.info['documented_options'] = sorted(documented)
    for o in sorted(documented):
        ctx.ob('R7.2', f'e:documented:{o}', 'docs/source/api.rst', f'documented option `{o}` is handled by validate_options', o in known,
               f'`{o}` is documented but never read by validate_options')
    # (f) total tests on raw option values
    for key, ls in sorted(local_of.items()):
        for lname, asg in ls:
            for n in own_nodes(vo.node):
                if isinstance(n, ast.Compare) and is_name(n.left, lname) and isinstance(n.ops[0], (ast.In, ast.NotIn)):
                    c = n.comparators[0]
                    ok = isinstance(c, (ast.List, ast.Tuple))
                    if isinstance(c, (ast.Name, ast.Attribute)):
                        cv = folder.try_eval(c, vo.mod)
                        ok = isinstance(cv, (list, tuple))
                    ctx.ob('R7.2', f'f:membership:{key}', f'{vo.mod.relpath}:{n.lineno}',
                           f'the membership test on the raw value of `{key}` uses a list/tuple display (compares with ==, total for any value)', ok,
                           f'`{src(n)}` tests membership in a {type(c).__name__.lower()} display: an unhashable value (list, dict, ...) raises TypeError '
                           'instead of SQLParseError')
                if isinstance(n, ast.Compare) and is_name(n.left, lname) and isinstance(n.ops[0], (ast.Lt, ast.LtE, ast.Gt, ast.GtE)):
                    # ordering comparisons only after a successful int()
                    conv = [s for s in own_nodes(vo.node) if isinstance(s, ast.Assign) and is_name(s.targets[0], lname) and isinstance(s.value, ast.Call)
                            and is_name(s.value.func, 'int') and s.lineno < n.lineno]
                    ctx.ob('R7.2', f'f:order:{key}:{src(n)}', f'{vo.mod.relpath}:{n.lineno}', f'`{src(n)}` compares a value already converted by int()', bool(conv),
                           'ordering comparison on a raw option value raises TypeError for non-numbers')


def _mentions(fact, name):
    if fact[0] == '|':
        return any(_mentions(a, name) for alt in fact[1] for a in alt)
    return re.search(r'(?<![\w.])' + re.escape(name) + r'(?!\w)', fact[0]) is not None


def _enclosing_try(f, node):
    best = None
    for t in [x for x in ast.walk(f.node) if isinstance(x, ast.Try)]:
        if any(n is node for b in t.body for n in ast.walk(b)):
            best = t
    return best


def _in_handler_of_try_using(f, r, lname):
    """raise inside the handler of a try whose body converts `lname`"""
    for t in [x for x in ast.walk(f.node) if isinstance(x, ast.Try)]:
        for h in t.handlers:
            if any(n is r for n in ast.walk(h)):
                if any(isinstance(n, ast.Name) and n.id == lname for b in t.body for n in ast.walk(b)):
                    return True
    return False


def documented_options(ctx):
    try:
        text = ctx.repo.read_text('docs/source/api.rst')
    except OSError:
        ctx.need(False, 'docs/source/api.rst not found')
    opts = set(re.findall(r'^``(\w+)``', text, re.M))
    ctx.need(len(opts) >= 10, f'only {len(opts)} documented options found in docs/source/api.rst')
    # CLI-only options and strip_whitespace (named by C06/C10)
    cp = ctx.repo.func('sqlparse.cli.create_parser')
    for n in own_nodes(cp.node):
        if isinstance(n, ast.Call) and isinstance(n.func, ast.Attribute) and n.func.attr == 'add_argument':
            d = next((k.value for k in n.keywords if k.arg == 'dest'), None)
            if isinstance(d, ast.Constant) and d.value not in ('filename', 'outfile', 'encoding'):
                opts.add(d.value)
    opts.add('strip_whitespace')
    return opts


# ---------------------------------------------------------------------------
# R7.3 nullness

def check_nullness(ctx, reach):
    N = ctx.shared('nulls', lambda: NL.Nulls(ctx))
    repo = ctx.repo
    nsum = sum(1 for s in N.summ.values() if s.pair_none or (s.none and s.none_only_if is None))
    ctx.info['none_returning_summaries'] = nsum
    nfun = 0
    for q in sorted(reach):
        f = repo.funcs[q]
        if isinstance(f.node, ast.Lambda):
            continue
        nfun += 1
        fs = N.analyse(f)
        if not fs:
            ctx.ob('R7.3', f'fn:{f.short}', f'{f.mod.relpath}:{f.node.lineno}', f'{f.short}: no possibly-None value reaches a dereference', True)
        for x in fs:
            k = f'{f.short}:{x.kind}'
            if k in ACCEPTED_NULL:
                ctx.ob('R7.3', x.key, x.loc, f'{x.kind} on possibly-None {x.expr}', 'accepted', ACCEPTED_NULL[k])
            else:
                ctx.ob('R7.3', x.key, x.loc, f'{f.short}: no possibly-None value reaches a dereference', False,
                       f'{x.kind} on {x.expr}: {x.why}, and no guard (truthiness, `is not None`, isinstance, imt, early exit, loop condition) '
                       'dominates this use: AttributeError/TypeError on input where the lookup finds nothing')
    # vacuous tests on a value that is always a 2-tuple
    for q in sorted(reach):
        f = repo.funcs[q]
        if isinstance(f.node, ast.Lambda):
            continue
        ld = local_defs(f.node)
        for n in own_nodes(f.node, include_lambdas=False):
            if isinstance(n, (ast.If, ast.While, ast.IfExp)):
                t = n.test
                if isinstance(t, ast.UnaryOp) and isinstance(t.op, ast.Not):
                    t = t.operand
                if isinstance(t, ast.Name):
                    defs = ld.get(t.id, [])
                    if defs and all(isinstance(d, ast.Call) and any(N.summ[c].is_pair and N.summ[c].pair_none for c in N.cg.callees_of_call(f.qname, d) if c in N.summ)
                                    for d in defs):
                        ctx.ob('R7.3', f'{f.short}:vacuous-test:{t.id}', f'{f.mod.relpath}:{n.lineno}',
                               'a truthiness test is meaningful', False,
                               f'`{src(n.test)}` tests a value that is always a 2-tuple ((None, None) when nothing is found): the guard never triggers')
    ctx.info['functions_analysed_for_nullness'] = nfun


# ---------------------------------------------------------------------------
# R7.4 bounds

ACCEPTED_BOUNDS = {
    ('engine.grouping.group_where', 'tlist._groupable_tokens[-1]'): 'NONEMPTY: the WHERE keyword found in tlist is never a delimiter, so the groupable slice contains it',
    ('filters.aligned_indent.AlignedIndentFilter._process_parenthesis', 'tlist[0]'): 'PAREN>=2: a Parenthesis is built from a "(" ... ")" pair (R9.1) and keeps both (R9.5/R9.6)',
    ('filters.aligned_indent.AlignedIndentFilter._process_parenthesis', 'tlist[-1]'): 'PAREN>=2',
    ('filters.others.StripWhitespaceFilter._stripws_parenthesis', 'tlist.tokens[1]'): 'PAREN>=2: index 1 is at most the closing ")"',
    ('filters.others.StripWhitespaceFilter._stripws_parenthesis', 'tlist.tokens[-2]'): 'PAREN>=2: index -2 is at least the opening "("',
    ('filters.others.StripWhitespaceFilter._stripws_parenthesis', 'tlist.tokens[-2].tokens[-1]'): 'NONEMPTY-GROUP (R3.5): a group has at least one child',
    ('filters.others.StripWhitespaceFilter._stripws_parenthesis', 'tlist.tokens[cidx - 1].tokens[-1]'): 'NONEMPTY-GROUP (R3.5): a group has at least one child',
    ('filters.others.StripWhitespaceFilter._stripws_parenthesis', 'tlist.tokens[cidx - 1]'): 'PAREN>=2: cidx is the index of the closing ")", which follows the opening "(" at index 0',
    ('filters.aligned_indent.AlignedIndentFilter._process_identifierlist', 'identifiers.pop(0)'): 'IDLIST>=2: an IdentifierList is built from `x , y` (R3.5), get_identifiers yields at least two items',
    ('filters.reindent.ReindentFilter._process_identifierlist', 'identifiers[0]'): 'IDLIST>=2',
    ('filters.reindent.ReindentFilter._process_identifierlist', 'identifiers.pop(0)'): 'IDLIST>=2',
    ('filters.reindent.ReindentFilter._process_identifierlist', 'next(identifiers[0].flatten())'): 'NONEMPTY-GROUP: every item has at least one leaf',
    ('filters.reindent.ReindentFilter._process_identifierlist', 'next(identifiers.pop(0).flatten())'): 'NONEMPTY-GROUP',
    ('filters.reindent.ReindentFilter._flatten_up_to_token', 'next(token.flatten())'): 'NONEMPTY-GROUP',
    ('filters.reindent.ReindentFilter._process_function', 'tlist[0]'): 'NONEMPTY-GROUP',
    ('filters.reindent.ReindentFilter._process_case', 'tlist[0]'): 'NONEMPTY-GROUP',
    ('filters.reindent.ReindentFilter._process_case', 'next(iterable)'): 'CASE: CASE and END are separated by at least one token (lexically "CASEEND" is a Name), so get_cases() returns at least one part',
    ('filters.reindent.ReindentFilter._process_case', 'cond[0]'): 'CASE: the first part starts with the whitespace/expression token that follows CASE',
    ('filters.reindent.ReindentFilter._process_case', 'next(cond[0].flatten())'): 'CASE + NONEMPTY-GROUP',
    ('filters.reindent.ReindentFilter._process_case', 'value[0]'): 'CASE: an ELSE part (cond is None) was opened by the ELSE token itself, which is appended to it',
    ('filters.aligned_indent.AlignedIndentFilter._process_case', 'value[0]'): 'CASE: parts with cond None are ELSE (holding the ELSE token) or the appended [end_token]',
    ('sql.Comparison.left', 'self.tokens[0]'): 'NONEMPTY-GROUP',
    ('sql.Comparison.right', 'self.tokens[-1]'): 'NONEMPTY-GROUP',
    ('sql.Case.get_cases', 'ret[-1]'): 'the statement before (`if mode and not ret: ret.append(...)`) makes ret non-empty whenever mode is CONDITION or VALUE',
    ('sql.Case.get_cases', 'ret[-1][0]'): 'pairs appended to ret are 2-tuples',
    ('sql.Case.get_cases', 'ret[-1][1]'): 'pairs appended to ret are 2-tuples',
    ('sql.TokenList.token_index', 'self.tokens[start:].index(token)'): 'API contract: token_index is called with a child of the list (all package callers pass a token obtained from the same list)',
    ('utils.remove_quotes', 'val[0]'): 'TOKEN-NONEMPTY (C01 R1.2): callers pass token.value, which is never empty',
    ('utils.remove_quotes', 'val[-1]'): 'TOKEN-NONEMPTY',
    ('sql.Function.get_window', 'over_clause.tokens[-1]'): 'NONEMPTY-GROUP',
    ('engine.grouping._group_matching', 'tlist.tokens[0]'): 'under isinstance(tlist, <matched class>): the matched group classes are built from two distinct delimiter tokens (R9.1)',
    ('engine.grouping._group_matching', 'tlist.tokens[-1]'): 'under isinstance(tlist, <matched class>): the matched group classes are built from two distinct delimiter tokens (R9.1)',
    ('engine.grouping._group', 'tlist.tokens[0]'): 'the matched group classes are built from two distinct delimiter tokens (R9.1)',
    ('engine.grouping._group', 'tlist.tokens[-1]'): 'the matched group classes are built from two distinct delimiter tokens (R9.1)',
}


def check_bounds(ctx, reach):
    repo = ctx.repo
    T = get_tables(ctx)
    N = ctx.shared('nulls', lambda: NL.Nulls(ctx))
    n = 0
    for q in sorted(reach):
        f = repo.funcs[q]
        if isinstance(f.node, ast.Lambda):
            continue
        g = Guards(f.node)
        tries = [t for t in own_nodes(f.node, include_lambdas=False) if isinstance(t, ast.Try)]
        for x in own_nodes(f.node, include_lambdas=False):
            kind = None
            if isinstance(x, ast.Subscript) and isinstance(x.ctx, ast.Load) and not isinstance(x.slice, ast.Slice):
                sl = x.slice
                if (isinstance(sl, ast.Constant) and isinstance(sl.value, int)) or (isinstance(sl, ast.UnaryOp) and isinstance(sl.operand, ast.Constant)):
                    kind = 'index'
            elif isinstance(x, ast.Call) and is_name(x.func, 'next') and len(x.args) == 1:
                kind = 'next'
            elif isinstance(x, ast.Call) and isinstance(x.func, ast.Attribute) and x.func.attr == 'pop' and not (x.args and isinstance(x.args[0], ast.Constant) and isinstance(x.args[0].value, str)):
                kind = 'pop'
            elif isinstance(x, ast.Call) and isinstance(x.func, ast.Attribute) and x.func.attr == 'index' and len(x.args) == 1:
                kind = 'index()'
            if kind is None:
                continue
            n += 1
            amap = alias_map(f.node)
            text = canon_text(src(x), amap)
            # locals of an expanded helper carry the helper's name as a suffix (normalize.py): the invariant is about the value
            text = re.sub(r'\b(\w+?)___\w+\b', r'\1', text)
            loc = f'{f.mod.relpath}:{x.lineno}'
            key = f'{f.short}:{text}'
            ok, why = discharge_bound(ctx, T, N, f, g, x, kind, tries)
            if ok:
                ctx.ob('R7.4', key, loc, f'`{text}` is in range', True, why)
            elif (f.short, text) in ACCEPTED_BOUNDS:
                ctx.ob('R7.4', key, loc, f'`{text}` is in range by a named invariant', 'accepted', ACCEPTED_BOUNDS[(f.short, text)])
            else:
                ctx.ob('R7.4', key, loc, f'`{text}` is covered by a dominating emptiness/length/membership guard or a named shape invariant', False,
                       f'{why}: IndexError/StopIteration/ValueError on input where the sequence is shorter than assumed')
    ctx.need(n >= 40, f'only {n} bounds sites found')


def discharge_bound(ctx, T, N, f, g, x, kind, tries):
    amap = alias_map(f.node)
    facts = [(canon_text(a[0], amap), a[1]) for a in g.facts(x) if a[0] != '|']
    pos = {e for e, p in facts if p}
    if kind == 'pop':
        recv = canon_text(src(x.func.value), amap)
        idx = src(x.args[0]) if x.args else '-1'
        if f'{recv}[{idx}].is_whitespace' in pos or recv in pos or f'{recv}[{idx}]' in pos:
            return True, 'the same element was just tested / the list is non-empty'
        for t in tries:
            if any(n is x for b in t.body for n in ast.walk(b)) and any(h.type is None or 'IndexError' in src(h.type) for h in t.handlers):
                return True, 'inside try/except IndexError'
        return False, f'no guard on `{recv}`'
    if kind == 'next':
        return False, 'next() without default'
    if kind == 'index()':
        return False, '.index() raises ValueError when the element is missing'
    base = x.value
    bs = canon_text(src(base), amap)
    idx = src(x.slice)
    # tuple component of a pair-returning package call
    if isinstance(base, ast.Call):
        cs = N.cg.callees_of_call(f.qname, base)
        if cs and all(N.summ[c].is_pair and not (N.summ[c].none and N.summ[c].none_only_if is None) for c in cs if c in N.summ) and idx in ('0', '1'):
            return True, 'component of a function that always returns a 2-tuple'
        if isinstance(base.func, ast.Attribute) and base.func.attr == 'split':
            if base.args and isinstance(base.args[0], ast.Constant):
                sep = base.args[0].value
                if idx in ('0', '-1'):
                    return True, 'str.split(sep) returns at least one element'
                if idx == '1' and f'{sep!r} in {src(base.func.value)}' in pos:
                    return True, f'guard {sep!r} in the string'
            else:
                # split() without separator: needs a non-blank string
                recvv = src(base.func.value)
                if nonblank_by_type(ctx, T, facts, recvv):
                    return True, 'KEYWORD-NONBLANK: no keyword/name rule of SQL_REGEX matches a whitespace-only lexeme (computed on the table)'
        if isinstance(base.func, ast.Attribute) and base.func.attr == 'splitlines' and idx == '-1':
            r = base.func.value
            if isinstance(r, ast.BoolOp) and isinstance(r.op, ast.Or) and isinstance(r.values[-1], ast.Constant) and r.values[-1].value:
                return True, '(x or "\\n").splitlines() is never empty'
            if any("in " + src(r) in e for e in pos):
                return True, 'the string contains a line break'
        if isinstance(base.func, ast.Attribute) and base.func.attr == 'groups' and isinstance(base.func.value, ast.Name):
            mname = base.func.value.id
            if (f'{mname} is None', False) in [(e, p) for e, p in facts] or mname in pos:
                for d in local_defs(f.node).get(mname, []):
                    if isinstance(d, ast.Call) and src(d.func) in ('re.search', 're.match') and isinstance(d.args[0], ast.Constant):
                        ng = re.compile(d.args[0].value).groups
                        if ng > int(idx):
                            return True, f'REGEX-HAS-GROUP: the pattern has {ng} group(s) and the match object is not None'
        if isinstance(base.func, ast.Attribute) and base.func.attr == 'strip':
            recvv = src(base.func.value)
            if nonblank_by_type(ctx, T, facts, recvv):
                return True, 'NAME-NONBLANK: no Name/String.Symbol rule matches a whitespace-only lexeme'
    # guard on the same container
    for cand in (bs,):
        if cand in pos or f'len({cand}) > 0' in pos or any(e.startswith(f'len({cand}) >') for e in pos):
            return True, f'guard on `{cand}`'
        if any(e.startswith(f'{cand}[{idx}]') for e in pos):
            return True, 'the same element was just tested'
    if f'{bs}[{idx}].is_whitespace' in pos or f'{bs}[{idx}].is_group' in pos:
        return True, 'the same element was just tested'
    return False, f'no guard on `{bs}` dominates this access (guards: {sorted(pos)[-3:]})'


def nonblank_by_type(ctx, T, facts, recv):
    """the string is the text of a Keyword / Name / Symbol token, and no rule of those types can match a blank-only lexeme"""
    ws = rx.cls(r'\s', rx.LEXFLAGS)
    fams = [TT(('Keyword',)), TT(('Name',)), TT(('Literal', 'String', 'Symbol'))]
    for r in T.lex:
        if isinstance(r.action, TT) and any(fm.contains(r.action) for fm in fams) or r.is_kw:
            fs, nullable = rx.first_set(r.tree)
            if fs & ws or nullable:
                return False
    return True


# ---------------------------------------------------------------------------
# R7.5 unbound locals

def check_unbound(ctx, reach):
    repo = ctx.repo
    n = 0
    for q in sorted(reach):
        f = repo.funcs[q]
        if isinstance(f.node, ast.Lambda):
            continue
        n += 1
        bad = unbound_reads(f)
        if not bad:
            ctx.ob('R7.5', f'fn:{f.short}', f'{f.mod.relpath}:{f.node.lineno}', f'{f.short}: every local is assigned on all paths before it is read', True)
        for name, node in bad:
            ctx.ob('R7.5', f'{f.short}:{name}', f'{f.mod.relpath}:{node.lineno}', f'local `{name}` is assigned on every path before this read', False,
                   f'`{name}` is unassigned on some path reaching line {node.lineno}: UnboundLocalError')


def unbound_reads(f):
    locals_ = set()
    for n in own_nodes(f.node, include_lambdas=False):
        if isinstance(n, ast.Name) and isinstance(n.ctx, ast.Store):
            locals_.add(n.id)
        if isinstance(n, FUNC_NODES):
            locals_.add(n.name)
    globals_ = set()
    for n in own_nodes(f.node):
        if isinstance(n, (ast.Global, ast.Nonlocal)):
            globals_ |= set(n.names)
    locals_ -= globals_
    bad = []
    seen = set()

    def reads(e, assigned):
        if e is None:
            return
        for n in _walk_expr(e):
            if isinstance(n, ast.Name) and isinstance(n.ctx, ast.Load) and n.id in locals_ and n.id not in assigned and n.id not in seen:
                seen.add(n.id)
                bad.append((n.id, n))

    def _walk_expr(e):
        # comprehension targets are their own scope
        comp_targets = set()
        for n in ast.walk(e):
            if isinstance(n, ast.comprehension):
                for t in ast.walk(n.target):
                    if isinstance(t, ast.Name):
                        comp_targets.add(t.id)
        for n in ast.walk(e):
            if isinstance(n, ast.Lambda):
                continue
            if isinstance(n, ast.Name) and n.id in comp_targets:
                continue
            yield n

    def targets(t, assigned):
        for n in ast.walk(t):
            if isinstance(n, ast.Name) and isinstance(n.ctx, ast.Store):
                assigned.add(n.id)

    def block(stmts, assigned):
        """returns assigned set at fall-through or None"""
        for s in stmts:
            assigned = stmt(s, assigned)
            if assigned is None:
                return None
        return assigned

    def stmt(s, a):
        if isinstance(s, ast.Assign):
            reads(s.value, a)
            for t in s.targets:
                for n in ast.walk(t):
                    if isinstance(n, (ast.Subscript, ast.Attribute)):
                        reads(n.value, a)
                targets(t, a)
            return a
        if isinstance(s, ast.AugAssign):
            reads(s.value, a)
            if isinstance(s.target, ast.Name):
                reads(ast.Name(id=s.target.id, ctx=ast.Load(), lineno=s.lineno), a)
            return a
        if isinstance(s, (ast.Expr, ast.Return)):
            reads(s.value, a)
            return None if isinstance(s, ast.Return) else a
        if isinstance(s, ast.Raise):
            reads(s.exc, a)
            return None
        if isinstance(s, (ast.Continue, ast.Break)):
            return None
        if isinstance(s, ast.If):
            reads(s.test, a)
            r1 = block(s.body, set(a))
            r2 = block(s.orelse, set(a))
            if r1 is None:
                return r2
            if r2 is None:
                return r1
            return r1 & r2
        if isinstance(s, ast.While):
            reads(s.test, a)
            block(s.body, set(a))
            return block(s.orelse, set(a)) if s.orelse else a
        if isinstance(s, ast.For):
            reads(s.iter, a)
            b = set(a)
            targets(s.target, b)
            block(s.body, b)
            return block(s.orelse, set(a)) if s.orelse else a
        if isinstance(s, ast.Try):
            r = block(s.body, set(a))
            outs = []
            if r is not None:
                outs.append(block(s.orelse, r) if s.orelse else r)
            for h in s.handlers:
                b = set(a)
                if h.name:
                    b.add(h.name)
                outs.append(block(h.body, b))
            outs = [o for o in outs if o is not None]
            res = set.intersection(*outs) if outs else None
            if s.finalbody:
                res = block(s.finalbody, res if res is not None else set(a))
            return res
        if isinstance(s, ast.With):
            for it in s.items:
                reads(it.context_expr, a)
                if it.optional_vars is not None:
                    targets(it.optional_vars, a)
            return block(s.body, a)
        if isinstance(s, FUNC_NODES):
            a.add(s.name)
            return a
        if isinstance(s, ast.Delete):
            return a
        if isinstance(s, ast.Assert):
            reads(s.test, a)
            return a
        return a
    block(f.node.body, set(f.params))
    return bad
