"""C08 -- targeted filters change exactly their target tokens and nothing else."""
import ast
import re

from .. import miniev as ME
from .. import rules_filters as RF
from .. import rx
from ..astutil import Guards, enum_paths, src, is_name, is_attr, local_defs, yields_in, sym_path, fact_in, path_feasible
from ..cg import get_cg
from ..fold import TT, NotConst
from ..model import own_nodes
from ..tables import get_tables

EXPLANATION = (
    'Decided: which tokens each targeted filter may touch and how. R8.1 (stream conservation): in the process() generators of '
    'the case and truncate filters every path of one loop iteration yields exactly one (ttype, value) pair, ttype untouched, '
    'value either untouched or replaced by the one permitted transform under the type guard: self.convert(value) where '
    'every store to self.convert is getattr(str, <case>) (a pure letter-case method applied to the whole value), resp. '
    'quote + inner[:self.width] + self.char + quote under len(inner) > self.width. R8.2: the type guards, evaluated on every '
    'token type of the lexer output, select exactly the keyword types / exactly Name and String.Symbol / exactly '
    'String.Single. R8.3 (StripCommentsFilter): only the token found by the comment lookup is removed or replaced; both hint '
    'types are skipped before any effect; the replacement is a whitespace token; removal without a separator happens only when '
    'the left neighbour is absent or "(". R8.4: case/truncate filters run on the token stream (preprocess), comment stripping on '
    'grouped statements. R8.2 is decided by interpreting one iteration of <Filter>.process (method resolved through the MRO, helper '
    'methods expanded) on every token type of the lexer table x {plain, double-quoted} value. Not decided: idempotence; case mappings that change length; fusion across group boundaries.')

KW = TT(('Keyword',))
NAME = TT(('Name',))
SYMBOL = TT(('Literal', 'String', 'Symbol'))
SINGLE = TT(('Literal', 'String', 'Single'))
CASE_METHODS = {'upper', 'lower', 'capitalize', 'title', 'swapcase', 'casefold'}


def run(ctx):
    ctx.engines |= {'paths', 'cg', 'fx', 'tables'}
    ctx.rule('R8.1', 'stream conservation and permitted transform in the token-stream filters', floor=8)
    ctx.rule('R8.2', 'type guards select exactly the target token types', floor=30)
    ctx.rule('R8.3', 'StripCommentsFilter removes/replaces only non-hint comments and keeps a separator', floor=6)
    ctx.rule('R8.4', 'placement: case/truncate in preprocess, comment stripping in stmtprocess with grouping', floor=4)
    T = get_tables(ctx)
    seen = set()
    for cname in ('KeywordCaseFilter', 'IdentifierCaseFilter'):
        c = RF.filter_class(ctx, cname)
        f = ctx.repo.lookup_method(c, 'process')
        if f is not None and f.qname in seen:
            continue
        seen.add(f.qname if f is not None else cname)
        check_case_filter(ctx, c)
    check_convert(ctx)
    check_truncate(ctx)
    check_guards(ctx, T)
    check_case_decisions(ctx, T)
    check_strip_comments(ctx, T)
    check_placement(ctx)
    check_strip_simulation(ctx)
    check_truncate_simulation(ctx, T)
    ctx.rule('R8.9', 'the serializer every formatted statement passes through changes nothing but unquoted line ends and blanks at line ends', floor=1)
    RF.check_serializer_sim(ctx, 'R8.9')
    from .. import rules_tree as RT2
    ctx.rule('R8.5', 'strip_comments reaches every comment: the filter descends into every group (get_sublists yields every group child)', floor=3)
    RT2.check_filter_descends(ctx, 'R8.5', RF.filter_class(ctx, 'StripCommentsFilter'))
    from .. import rules_base as RB
    ctx.rule('R8.B', 'base model: token-type containment, token flags / normal form, Token.match and imt behave as the abstract evaluation assumes', floor=1)
    RB.check_base_model(ctx, 'R8.B', parts=('contains', 'flags', 'match', 'imt'))


def stream_loop(ctx, f):
    ctx.need(len(f.params) == 2, f'{f.short} signature changed')
    st = f.params[1]
    loops = [s for s in f.node.body if isinstance(s, ast.For) and is_name(s.iter, st)]
    stray = [y for s in f.node.body if not isinstance(s, ast.For) for y in yields_in(s)]
    ctx.need(len(loops) == 1 and isinstance(loops[0].target, ast.Tuple) and len(loops[0].target.elts) == 2,
             f'{f.short}: expected one `for ttype, value in stream` loop')
    return loops[0], [e.id for e in loops[0].target.elts], stray


def check_case_filter(ctx, c):
    f = ctx.repo.lookup_method(c, 'process')
    ctx.need(f is not None, f'{c.name}.process not found')
    lp, (tv, vv), stray = stream_loop(ctx, f)
    loc = f'{f.mod.relpath}:{lp.lineno}'
    tag = f'{c.name}[{f.cls.name}.process]' if f.cls is not c else c.name
    ctx.ob('R8.1', f'{tag}:no-stray-yield', loc, 'no yield outside the stream loop', not stray, 'a token is invented outside the loop')
    for p in enum_paths(lp.body):
        st = p.stmts()
        ys = [s for s in st if isinstance(s, ast.Expr) and isinstance(s.value, ast.Yield)]
        desc = ' ∧ '.join(('' if pol else 'not ') + src(t) for t, pol in p.tests()) or 'always'
        key = f'{tag}:path[{desc}]'
        if len(ys) != 1 or p.exit not in ('fall', 'continue'):
            ctx.ob('R8.1', key, loc, 'exactly one yield per input token', False, f'{len(ys)} yields, exit {p.exit}: a token is dropped or duplicated')
            continue
        y = ys[0].value.value
        def val_ok(e):
            # the value itself, or self.convert(value) written in place
            return is_name(e, vv) or (isinstance(e, ast.Call) and is_attr(e.func, 'convert', 'self') and len(e.args) == 1
                                      and is_name(e.args[0], vv) and not e.keywords)
        ok = isinstance(y, ast.Tuple) and len(y.elts) == 2 and is_name(y.elts[0], tv) and val_ok(y.elts[1])
        t_stores = [s for s in st if isinstance(s, ast.Assign) and any(is_name(t, tv) for t in s.targets)]
        v_stores = [s for s in st if isinstance(s, (ast.Assign, ast.AugAssign)) and any(
            is_name(t, vv) for t in (s.targets if isinstance(s, ast.Assign) else [s.target]))]
        detail = f'yields `{src(y)}`'
        if ok and t_stores:
            ok, detail = False, f'`{src(t_stores[0])}` changes the token type'
        if ok:
            for s in v_stores:
                good = isinstance(s, ast.Assign) and isinstance(s.value, ast.Call) and is_attr(s.value.func, 'convert', 'self') \
                    and len(s.value.args) == 1 and is_name(s.value.args[0], vv)
                if not good:
                    ok, detail = False, f'`{src(s)}` is not `{vv} = self.convert({vv})`'
        ctx.ob('R8.1', key, f'{f.mod.relpath}:{ys[0].lineno}', 'yields (ttype, value), the value at most replaced by self.convert(value)', ok,
               detail + ': a token is modified by more than its letter case')
    return f, lp, tv, vv


def check_case_decisions(ctx, T):
    """R8.2: run one loop iteration of <Filter>.process (method resolved through the MRO, helper methods of the filter
    inlined) on every token type the lexer can emit x {plain, double-quoted} value and compare the decision `converted /
    untouched` with the property: all keyword types resp. exactly Name and String.Symbol not starting with a double quote."""
    from .. import miniev as ME
    repo = ctx.repo
    types = set()
    for r in T.lex:
        if isinstance(r.action, TT):
            types.add(tuple(r.action))
    for _, d in T.kw:
        for v in d.values():
            if isinstance(v, TT):
                types.add(tuple(v))
    types.add(('Name',))
    wants = {
        'KeywordCaseFilter': lambda t, v: KW.contains(t),
        'IdentifierCaseFilter': lambda t, v: tuple(t) in (tuple(NAME), tuple(SYMBOL)) and not v.strip().startswith('"'),
    }
    for cname, want in wants.items():
        c = RF.filter_class(ctx, cname)
        f = repo.lookup_method(c, 'process')
        lp, (tv, vv), stray = stream_loop(ctx, f)
        node, owner = repo.lookup_class_attr(c, 'ttype')
        ctx.need(node is not None, f'{cname}.ttype not found')
        for t in sorted(types):
            tt = TT(t)
            for val in ('abc', '"abc"'):
                if cname == 'KeywordCaseFilter' and val != 'abc':
                    continue
                out = []
                ev = ME.Evaluator(ctx, f.mod, f.cls)
                ev.on_yield = out.append
                me = ME.Obj(_cls=c, convert=lambda x: ('CONVERTED', x))
                env = {'self': me, tv: tt, vv: val}
                try:
                    ME.run_function(ev, ast.FunctionDef(name='it', body=lp.body, args=None), env)
                    res = out
                except ME.Unsupported as e:
                    ctx.need(False, f'{cname}.process not evaluable on ({tt!r}, {val!r}): {e}')
                except (ME.Crash, ME.Unknown) as e:
                    res = f'raises/unknown: {e}'
                w = want(tt, val)
                expect = [(tt, ('CONVERTED', val) if w else val)]
                good = isinstance(res, list) and len(res) == 1 and isinstance(res[0], tuple) and len(res[0]) == 2 and \
                    isinstance(res[0][0], TT) and tuple(res[0][0]) == t and res[0][1] == expect[0][1]
                ctx.ob('R8.2', f'{cname}:{tt!r}:{val}', f'{f.mod.relpath}:{lp.lineno}',
                       f'{cname} {"converts" if w else "leaves"} a {tt!r} token {val!r}', good,
                       f'one iteration yields {res}: ' + ('a target token keeps its case' if w else 'a token that is not a target '
                       '(placeholder, builtin, quoted name ...) is case-converted'))


def check_convert(ctx):
    c = RF.filter_class(ctx, '_CaseFilter')
    stores = []
    for cc in [c] + [x for x in ctx.repo.subclasses(c) if x is not c]:
        for m in cc.methods.values():
            for n in own_nodes(m.node):
                if isinstance(n, ast.Assign) and any(is_attr(t, 'convert', 'self') for t in n.targets):
                    stores.append((m, n))
            if m.name == 'convert':
                stores.append((m, m.node))
    ctx.need(stores, '_CaseFilter no longer stores self.convert')
    for m, n in stores:
        v = getattr(n, 'value', None)
        ok = False
        detail = f'`{src(n)[:80]}`'
        if isinstance(v, ast.Call) and is_name(v.func, 'getattr') and len(v.args) == 2 and is_name(v.args[0], 'str'):
            ok = True      # the attribute name is a validated case option (R7.2d / C07)
        elif isinstance(v, ast.Attribute) and is_name(v.value, 'str') and v.attr in CASE_METHODS:
            ok = True
        ctx.ob('R8.1', f'convert-store:{m.short}', f'{m.mod.relpath}:{n.lineno}',
               'self.convert is a str letter-case method (getattr(str, case)) applied to the whole token value', ok,
               detail + ': the conversion is a custom function, which is not provably a pure letter-case mapping of the whole value '
               '(e.g. split/join also rewrites whitespace inside multi-word keywords and quoted names)')
    init = c.methods.get('__init__')
    if init is not None:
        # `case = case or 'upper'` default and getattr(str, case)
        pass


def check_truncate(ctx):
    c = RF.filter_class(ctx, 'TruncateStringFilter')
    f = c.methods['process']
    lp, (tv, vv), stray = stream_loop(ctx, f)
    loc = f'{f.mod.relpath}:{lp.lineno}'
    for p in enum_paths(lp.body):
        st = p.stmts()
        evs, env = sym_path(p)
        ys = [s for s in st if isinstance(s, ast.Expr) and isinstance(s.value, ast.Yield)]
        facts = [a for a in p.facts() if a[0] != '|']
        desc = ' ∧ '.join(('' if pol else 'not ') + e for e, pol in facts) or 'always'
        key = f'TruncateStringFilter:path[{desc}]'
        if len(ys) != 1:
            ctx.ob('R8.1', key, loc, 'exactly one yield per input token', False, f'{len(ys)} yields')
            continue
        y = ys[0].value.value
        ok = isinstance(y, ast.Tuple) and len(y.elts) == 2 and is_name(y.elts[0], tv) and is_name(y.elts[1], vv)
        v_stores = [(s, v) for (k, s, v, nm) in evs if k == 'assign' and nm == vv]
        detail = f'yields `{src(y)}`'
        is_single = any((e.replace(' ', '') in (f'{tv}==T.Literal.String.Single', f'{tv}isT.Literal.String.Single', f'{tv}==T.String.Single')) and pol
                        for e, pol in facts) or any((e.replace(' ', '') in (f'{tv}==T.Literal.String.Single', f'{tv}==T.String.Single')) and pol is True for e, pol in facts)
        # the early-exit path is `ttype != Single` -> facts contain (ttype == Single, False)
        not_single = any('String.Single' in e and not pol for e, pol in facts)
        if v_stores:
            s, v = v_stores[-1]
            inner_names = {n_.value.value.id for n_ in ast.walk(s.value) if isinstance(n_, ast.Subscript) and isinstance(n_.value, ast.Name)
                           and isinstance(n_.slice, ast.Slice) and src(n_.slice.upper or ast.Constant(value=None)) == 'self.width'} if False else \
                {n_.value.id for n_ in ast.walk(s.value) if isinstance(n_, ast.Subscript) and isinstance(n_.value, ast.Name)
                 and isinstance(n_.slice, ast.Slice) and n_.slice.upper is not None and src(n_.slice.upper) == 'self.width'}
            longer = any(pol and e.replace(' ', '') in {f'len({nm})>self.width' for nm in inner_names} for e, pol in facts)
            # what the rewritten text is (quote + first characters + marker + quote, cut between characters) is decided by
            # interpretation in R8.8; here only: the rewrite happens on the String.Single path and one (ttype, value) pair is yielded
            ok = ok and not not_single
            detail = f'`{src(s)}` = {src(v)[:90]}; on the String.Single path: {not not_single}'
        ctx.ob('R8.1', key, f'{f.mod.relpath}:{ys[0].lineno}',
               'yields the token unchanged, or rewrites the text of a String.Single token only (contents of the rewrite: R8.8)', ok, detail)


def truncation_shape(v, vv):
    """v (in entry terms) == ''.join((Q, value[k:-k][:self.width], self.char, Q)) with Q the k-quote"""
    parts = None
    if isinstance(v, ast.Call) and isinstance(v.func, ast.Attribute) and v.func.attr == 'join' and isinstance(v.func.value, ast.Constant) \
            and v.func.value.value == '' and len(v.args) == 1 and isinstance(v.args[0], (ast.Tuple, ast.List)):
        parts = v.args[0].elts
    elif isinstance(v, ast.BinOp):
        parts = []

        def flat(e):
            if isinstance(e, ast.BinOp) and isinstance(e.op, ast.Add):
                flat(e.left)
                flat(e.right)
            else:
                parts.append(e)
        flat(v)
    if not parts or len(parts) != 4:
        return False, 'not a 4-part concatenation'
    q1, body, marker, q2 = parts
    if not (isinstance(q1, ast.Constant) and isinstance(q2, ast.Constant) and q1.value == q2.value and q1.value in ("'", "''")):
        return False, f'quotes `{src(q1)}` / `{src(q2)}`'
    k = len(q1.value)
    if src(marker) != 'self.char':
        return False, f'marker `{src(marker)}`'
    want = f'{vv}[{k}:-{k}][:self.width]'
    if src(body) != want:
        return False, f'body `{src(body)}` is not `{want}`'
    return True, 'shape ok'


def check_guards(ctx, T):
    repo, folder = ctx.repo, ctx.folder
    types = set()
    for r in T.lex:
        if isinstance(r.action, TT):
            types.add(tuple(r.action))
    for _, d in T.kw:
        for v in d.values():
            if isinstance(v, TT):
                types.add(tuple(v))
    types.add(('Name',))
    for cname, want in (('KeywordCaseFilter', lambda t: KW.contains(t)), ('IdentifierCaseFilter', lambda t: tuple(t) in (tuple(NAME), tuple(SYMBOL)))):
        c = RF.filter_class(ctx, cname)
        node, owner = repo.lookup_class_attr(c, 'ttype')
        try:
            v = folder.eval(node, owner.mod, None, owner)
        except NotConst as e:
            ctx.need(False, f'{cname}.ttype not foldable: {e}')
        for t in sorted(types):
            tt = TT(t)
            if isinstance(v, TT):
                got = v.contains(tt)
            elif isinstance(v, (tuple, list)):
                got = any(tuple(x) == t for x in v if isinstance(x, TT))
            else:
                got = None
            ctx.ob('R8.2', f'{cname}:{tt!r}', f'{c.mod.relpath}:{node.lineno}',
                   f'`ttype in {cname}.ttype` is {want(tt)} for {tt!r}', got == want(tt),
                   f'guard table {v} gives {got}: {"a target type is skipped" if want(tt) else "a non-target token type is case-converted"}')
    # truncate: the guard compares with String.Single exactly
    f = RF.filter_class(ctx, 'TruncateStringFilter').methods['process']
    cmps = [n for n in own_nodes(f.node) if isinstance(n, ast.Compare) and isinstance(n.ops[0], (ast.NotEq, ast.Eq, ast.Is, ast.IsNot))
            and folder.try_eval(n.comparators[0], f.mod) == SINGLE]
    ctx.ob('R8.2', 'TruncateStringFilter:guard', f'{f.mod.relpath}:{f.node.lineno}', 'truncation is guarded by an exact comparison with String.Single',
           len(cmps) == 1, f'{[src(c) for c in cmps]}')


def check_strip_comments(ctx, T):
    repo, folder = ctx.repo, ctx.folder
    from ..cg import get_cg
    cg = get_cg(ctx)
    c = RF.filter_class(ctx, 'StripCommentsFilter')
    f = c.methods['_process']
    tl = f.params[0]
    dom = RF.WsDomain(ctx)
    defs = local_defs(f.node)

    def callee(call, owner):
        """the package function a call expression resolves to (nested def, module-level function, method)"""
        if isinstance(call.func, ast.Name):
            p_ = owner
            while p_ is not None:
                if call.func.id in p_.nested:
                    return p_.nested[call.func.id]
                p_ = p_.parent
        for cq in cg.callees_of_call(owner.qname, call):
            return repo.funcs[cq]
        return None

    # (c) the inserted token: every expression put into tl.tokens is a whitespace token
    def token_ctor_ok(v, owner):
        if not (isinstance(v, ast.Call) and len(v.args) == 2):
            return False
        tt = folder.try_eval(v.args[0], owner.mod)
        if not (isinstance(tt, TT) and RF.WS.contains(tt)):
            return False
        a_ = v.args[1]
        if dom.ws_only(a_, owner):
            return True
        if (isinstance(a_, ast.Subscript) and 'groups()' in src(a_)) or (
                isinstance(a_, ast.Call) and isinstance(a_.func, ast.Attribute) and a_.func.attr == 'group'):
            # group of re.search(<pattern of line breaks>, token.value)
            pats = [n.args[0].value for n in own_nodes(owner.node) if isinstance(n, ast.Call) and src(n.func) in ('re.search', 're.match')
                    and n.args and isinstance(n.args[0], ast.Constant)]
            wsb = rx.cls(r'\s', re.UNICODE)
            return bool(pats) and all((s_ & ~wsb) == 0 for ptn in pats for s_ in rx.Prog(ptn, 0).charsets())
        return False

    def inserted_ok(e, owner, depth=0):
        """(ok, description)"""
        if isinstance(e, ast.Name):
            ds = local_defs(owner.node).get(e.id, [])
            if not ds:
                return False, f'`{e.id}` has no local definition'
            for d in ds:
                if isinstance(d, tuple):
                    return False, f'`{e.id}` is not built here'
                ok, why = inserted_ok(d, owner, depth + 1)
                if not ok:
                    return ok, why
            return True, f'{e.id}: every definition is a whitespace token'
        if isinstance(e, ast.Call):
            if token_ctor_ok(e, owner):
                return True, f'`{src(e)[:50]}`'
            g = callee(e, owner) if depth < 3 else None
            if g is not None and g.cls is None or (g is not None and g.name != '__init__'):
                rets = [r for r in own_nodes(g.node) if isinstance(r, ast.Return) and r.value is not None]
                if not rets:
                    return False, f'{g.short} returns nothing'
                for r in rets:
                    ok, why = inserted_ok(r.value, g, depth + 1)
                    if not ok:
                        return False, f'{g.short} returns {why}'
                return True, f'{g.short}: every return is a whitespace token'
        return False, f'`{src(e)[:60]}` is not a Whitespace token holding a blank or line breaks'

    # (a) the lookup: (idx, tok) pairs come from tl.token_next_by(i=sql.Comment, t=T.Comment, idx=...)
    def lookup_call(v, owner, depth=0):
        """the token_next_by call a lookup expression amounts to, or None"""
        if isinstance(v, ast.Call) and isinstance(v.func, ast.Attribute) and v.func.attr == 'token_next_by':
            return v, owner
        if isinstance(v, ast.Call) and depth < 2:
            g = callee(v, owner)
            if g is not None:
                rets = [r for r in own_nodes(g.node) if isinstance(r, ast.Return) and r.value is not None]
                if len(rets) == 1:
                    return lookup_call(rets[0].value, g, depth + 1)
        return None, None
    lookups = []
    for n in own_nodes(f.node, include_lambdas=False):
        if isinstance(n, ast.Assign) and isinstance(n.targets[0], ast.Tuple) and len(n.targets[0].elts) == 2 \
                and all(isinstance(e, ast.Name) for e in n.targets[0].elts):
            lc, owner = lookup_call(n.value, f)
            if lc is not None:
                kw = {k.arg: folder.try_eval(k.value, owner.mod) for k in lc.keywords}
                if getattr(kw.get('i'), 'cls', None) is not None or kw.get('t') is not None:
                    lookups.append((n, lc, owner, kw))
    ctx.need(lookups, 'StripCommentsFilter._process: no (idx, token) = ...token_next_by(...) lookup found')
    pairs = {(n.targets[0].elts[0].id, n.targets[0].elts[1].id) for n, _, _, _ in lookups}
    ctx.need(len(pairs) == 1, f'StripCommentsFilter._process: several lookup pairs {sorted(pairs)}')
    idxv, tokv = next(iter(pairs))
    okl = True
    for n, lc, owner, kw in lookups:
        okl = okl and kw.get('t') == TT(('Comment',)) and getattr(kw.get('i'), 'cls', None) is not None and kw['i'].cls.name == 'Comment' \
            and 'm' not in kw and not lc.args
    # every other store to the pair would let a non-comment into the loop
    other = [n for n in own_nodes(f.node, include_lambdas=False) if isinstance(n, (ast.Assign, ast.AugAssign)) and not any(n is l[0] for l in lookups)
             and tokv in RF_names_stored(n)]
    okl = okl and not other
    # (b) hints
    hints = sorted({tuple(r.action) for r in T.lex if isinstance(r.action, TT) and r.action and r.action[-1] == 'Hint'})
    hint_names = set()
    sh = None
    for n in own_nodes(f.node, include_lambdas=False):
        if isinstance(n, ast.Assign) and is_name(n.targets[0]):
            v = folder.try_eval(n.value, f.mod)
            if isinstance(v, tuple) and v and all(isinstance(x, TT) and x and x[-1] == 'Hint' for x in v):
                hint_names.add(n.targets[0].id)
                sh = v if sh is None else sh
    if sh is None:
        # the hint types written inline (`token.ttype in (T.Comment.Multiline.Hint, ...)`)
        for n in own_nodes(f.node, include_lambdas=False):
            if isinstance(n, ast.Compare) and isinstance(n.ops[0], ast.In):
                v = folder.try_eval(n.comparators[0], f.mod)
                if isinstance(v, tuple) and v and all(isinstance(x, TT) and x and x[-1] == 'Hint' for x in v):
                    sh = v
    okb = isinstance(sh, tuple) and sorted(tuple(x) for x in sh) == hints
    ctx.ob('R8.3', 'b:hint-types', f'{f.mod.relpath}:{f.node.lineno}', f'the hint test covers every hint type of the lexer {[TT(h) for h in hints]}', okb,
           f'hint types tested: {sh}: an optimizer hint of a type not listed is stripped')

    def mentions_hint(text):
        return 'Hint' in text or any(re.search(r'\b' + re.escape(h) + r'\b', text) for h in hint_names)
    # flags set to True under a hint test (is_sql_hint = True)
    gd = Guards(f.node)
    for _ in range(2):
        for n in own_nodes(f.node, include_lambdas=False):
            if isinstance(n, ast.Assign) and is_name(n.targets[0]) and isinstance(n.value, ast.Constant) and n.value.value is True:
                facts = [a for a in gd.facts(n) if a[0] != '|']
                if any(pol and mentions_hint(e) for e, pol in facts):
                    hint_names.add(n.targets[0].id)
            elif isinstance(n, ast.Assign) and is_name(n.targets[0]) and isinstance(n.value, (ast.BoolOp, ast.Compare)) and mentions_hint(src(n.value)):
                hint_names.add(n.targets[0].id)
    # (b2) a Comment *group* is a run of comments (group_comments joins consecutive comments and the line breaks between them); its
    # own ordinary comments are stripped by the bottom-up pass (f), so when the group itself is judged, a hint may sit at any
    # position in it: the hint test on a group must look at every child, not at a fixed index
    from ..astutil import alias_map, canon_text
    amap = alias_map(f.node)
    hint_tests = [n for n in own_nodes(f.node, include_lambdas=False) if isinstance(n, ast.Compare) and len(n.ops) == 1 and isinstance(n.ops[0], ast.In)
                  and mentions_hint(src(n.comparators[0]))]
    fixed, quantified = [], []
    for n in hint_tests:
        left = canon_text(src(n.left), amap)
        if re.search(r'\.tokens\[-?\d+\]\.ttype$', left):
            fixed.append(left)
        elif any(isinstance(g, (ast.GeneratorExp, ast.ListComp)) and any(x is n for x in ast.walk(g)) and any(
                'tokens' in canon_text(src(c.iter), amap) or 'flatten' in src(c.iter) for c in g.generators)
                for g in own_nodes(f.node, include_lambdas=False)):
            quantified.append(left)
    ctx.ob('R8.3', 'b:hint-anywhere-in-group', f'{f.mod.relpath}:{f.node.lineno}',
           'a Comment group is kept when any of its children is a hint (the test quantifies over the children)', bool(quantified) and not fixed,
           f'the group test looks only at {fixed or "no child at all"}: in `/* c */\\n/*+ hint */` the run is one Comment group whose first child is the ordinary comment '
           '(or, after the bottom-up pass removed it, the line break), so the whole group -- hint included -- is removed')
    w = [s for s in ast.walk(f.node) if isinstance(s, ast.While)]
    ctx.need(len(w) == 1, 'StripCommentsFilter._process: expected one while loop')
    w = w[0]
    prevv = None
    for n in own_nodes(f.node, include_lambdas=False):
        if isinstance(n, ast.Assign) and isinstance(n.targets[0], ast.Tuple) and len(n.targets[0].elts) == 2 and isinstance(n.value, ast.Call) \
                and is_attr(n.value.func, 'token_prev', tl) and n.value.args and is_name(n.value.args[0], idxv) and is_name(n.targets[0].elts[1]):
            prevv = n.targets[0].elts[1].id
    npaths = 0
    ins_checked = {}
    for p in enum_paths(w.body):
        if not path_feasible(p):
            continue
        allfacts = p.facts()
        facts = [a for a in allfacts if a[0] != '|']
        alts = [a for a in allfacts if a[0] == '|']
        st = p.stmts()
        effects = []
        for s_ in st:
            for n in ast.walk(s_):
                if isinstance(n, ast.Call) and isinstance(n.func, ast.Attribute) and is_attr(n.func.value, 'tokens', tl) \
                        and n.func.attr in ('insert', 'remove', 'pop', 'append', 'extend', 'clear'):
                    effects.append((n.func.attr, n))
            if isinstance(s_, ast.Assign) and isinstance(s_.targets[0], ast.Subscript) and is_attr(s_.targets[0].value, 'tokens', tl):
                effects.append(('replace', s_))
            if isinstance(s_, ast.Delete):
                effects.append(('del', s_))
        desc = ' ∧ '.join(('' if pol else 'not ') + e for e, pol in facts)[:150]
        # leaving the loop because the lookup found nothing
        if p.exit == 'break' and fact_in((tokv, False), allfacts) and not effects:
            continue
        hint_path = any(pol and mentions_hint(e) for e, pol in facts) or any(
            all(any(pol and mentions_hint(e) for e, pol in alt) for alt in a[1]) for a in alts)
        npaths += 1
        if hint_path:
            ctx.ob('R8.3', f'b:hint-path[{desc}]', f'{f.mod.relpath}:{w.lineno}', 'a hint is skipped before any effect', not effects and p.exit in ('continue', 'fall'),
                   f'effects {[e[0] for e in effects]}, exit {p.exit}')
            continue
        kinds = [e[0] for e in effects]
        key = f'path[{desc}]'

        def ins_ok(e):
            k = src(e)
            if k not in ins_checked:
                ins_checked[k] = inserted_ok(e, f)
            return ins_checked[k]
        if kinds == ['replace']:
            s_ = effects[0][1]
            iok, why = ins_ok(s_.value)
            ok = src(s_.targets[0].slice) == idxv and iok
            ctx.ob('R8.3', 'a:' + key, f'{f.mod.relpath}:{s_.lineno}', 'the comment found by the lookup is replaced in place by the separator token', ok,
                   f'`{src(s_)}`; {why}')
        elif kinds in (['insert', 'remove'], ['remove']):
            rm = effects[-1][1]
            ok = is_name(rm.args[0], tokv)
            detail = f'`{src(rm)}`'
            if kinds[0] == 'insert':
                ins = effects[0][1]
                iok, why = ins_ok(ins.args[1]) if len(ins.args) == 2 else (False, 'insert arity')
                ok = ok and src(ins.args[0]) == idxv and iok
                detail += f'; `{src(ins)}`; {why}'
            else:
                # (d) removal without separator only if prev_ is None or prev_ is '('
                flat = {(e, pol) for e, pol in facts}
                pv = prevv or 'prev_'
                allowed = False
                for a_ in alts:
                    if all(any((f'{pv} is None', True) == x or (x[1] and x[0].startswith(f'{pv}.match(T.Punctuation') and "'('" in x[0]) for x in alt) and len(alt) == 1
                           for alt in a_[1]) and len(a_[1]) == 2:
                        allowed = True
                if (f'{pv} is None', True) in flat or any(pol and e.startswith(f'{pv}.match(T.Punctuation') and "'('" in e for e, pol in flat):
                    allowed = True
                ok = ok and allowed
                detail += f'; removal without separator under {[x for x in allfacts][-1:]}'
                # "no left neighbour" only means "first child of this list": in a nested group the token in front of the group is the
                # real neighbour, so the arm is safe only for the statement itself
                none_arm = (f'{pv} is None', True) in flat or any(any((f'{pv} is None', True) in alt for alt in a_[1]) for a_ in alts)
                top_only = any(pol and re.sub(r'\s', '', e) == f'{tl}.parentisNone' for e, pol in flat) or any(
                    all(any(re.sub(r'\s', '', e) in (f'{tl}.parentisNone',) and pol for e, pol in alt) or (f'{pv} is None', True) not in alt for alt in a_[1])
                    for a_ in alts if any((f'{pv} is None', True) in alt for alt in a_[1]))
                if none_arm:
                    ctx.ob('R8.3', 'd2:' + key, f'{f.mod.relpath}:{rm.lineno}',
                           'a comment that is the first child of a nested group is not removed without a separator (the "no left neighbour" arm applies to the statement only)',
                           top_only, f'the comment is removed under `{pv} is None` in any token list: in `1/*a*/as x` the comment is the first child of the inner '
                           'Identifier, so "1" and "as" are fused')
            ctx.ob('R8.3', ('d:' if kinds == ['remove'] else 'a:') + key, f'{f.mod.relpath}:{rm.lineno}',
                   'the comment is removed; a separator is inserted unless the left neighbour is absent or "("', ok,
                   detail + ': two tokens can fuse (or a token other than the comment is removed)')
        elif not kinds:
            ctx.ob('R8.3', 'a:' + key, f'{f.mod.relpath}:{w.lineno}', 'every non-hint comment is removed or replaced', False, 'a comment is left in place')
        else:
            ctx.ob('R8.3', 'e:' + key, f'{f.mod.relpath}:{w.lineno}', 'only the recognised remove/insert/replace effects occur', False, f'effects {kinds}')
    okc = bool(ins_checked) and all(v[0] for v in ins_checked.values())
    ctx.ob('R8.3', 'c:replacement-is-whitespace', f'{f.mod.relpath}:{f.node.lineno}',
           'the token put in place of a comment is a Whitespace token holding a blank or the comment\'s line breaks', okc,
           '; '.join(f'{k[:40]}: {v[1]}' for k, v in ins_checked.items()))
    # (f) bottom-up traversal: sub-groups (e.g. a Comment group [ordinary comment, hint]) are stripped before the group itself is judged
    pr = c.methods['process']
    order = []
    for n in own_nodes(pr.node):
        if isinstance(n, ast.Call) and is_attr(n.func, 'process', 'self'):
            order.append(('recurse', n.lineno, n.col_offset))
        if isinstance(n, ast.Call) and isinstance(n.func, ast.Attribute) and n.func.attr == '_process':
            order.append(('self', n.lineno, n.col_offset))
    order.sort(key=lambda x: (x[1], x[2]))
    kinds = [k for k, _, _ in order]
    ctx.ob('R8.3', 'f:bottom-up', f'{pr.mod.relpath}:{pr.node.lineno}', 'process() strips the sub-groups first and the group itself afterwards', kinds == ['recurse', 'self'],
           f'order of calls in process(): {kinds}: a Comment group is judged by its first token before its own non-hint comments are removed, so a hint that follows an ordinary comment is stripped with it')
    ctx.ob('R8.3', 'a:lookup', f'{f.mod.relpath}:{f.node.lineno}', 'the lookup selects exactly T.Comment leaves and sql.Comment groups', okl,
           f'lookups: {[src(l[1])[:70] for l in lookups]}; other stores to the pair: {[src(o)[:40] for o in other]}')


def RF_names_stored(n):
    out = set()
    for t in (n.targets if isinstance(n, ast.Assign) else [n.target]):
        for e in ast.walk(t):
            if isinstance(e, ast.Name) and isinstance(e.ctx, ast.Store):
                out.add(e.id)
    return out


def check_placement(ctx):
    b, plan = RF.stack_plan(ctx)
    want = {'KeywordCaseFilter': 'preprocess', 'IdentifierCaseFilter': 'preprocess', 'TruncateStringFilter': 'preprocess', 'StripCommentsFilter': 'stmtprocess'}
    opt = {'KeywordCaseFilter': 'keyword_case', 'IdentifierCaseFilter': 'identifier_case', 'TruncateStringFilter': 'truncate_strings', 'StripCommentsFilter': 'strip_comments'}
    for cn, lst in want.items():
        ps = [p for p in plan if cn in p['classes']]
        ok = len(ps) == 1 and ps[0]['list'] == lst and {o for o, pol in ps[0]['options'] if pol} == {opt[cn]}
        ctx.ob('R8.4', f'placement:{cn}', f'{b.mod.relpath}:{ps[0]["line"] if ps else b.node.lineno}', f'{cn} is installed once in {lst} under option {opt[cn]}', ok,
               f'{[(p["list"], p["options"]) for p in ps]}')
        if ps:
            a = ps[0]['node'].args[0]
            if isinstance(a, ast.Call) and cn.endswith('CaseFilter'):
                ok = len(a.args) == 1 and src(a.args[0]) == f"options['{opt[cn]}']"
                ctx.ob('R8.4', f'argument:{cn}', f'{b.mod.relpath}:{ps[0]["line"]}', f'{cn} receives the validated option value', ok, f'`{src(a)}`')


# ---------------------------------------------------------------------------
# R8.6: StripCommentsFilter.process interpreted on small trees

def _sc_shapes():
    import itertools
    flat = []
    for n_ in range(1, 5):
        for p in itertools.product('clhwx', repeat=n_):
            s_ = ''.join(p)
            if 'xx' in s_:
                continue
            flat.append(list(s_))
    shapes = [('statement', sh) for sh in flat]
    short = [sh for sh in flat if len(sh) <= 3]
    for sh in short:
        if sh[0] != 'x':
            shapes.append(('first child of a nested group', ['x', ('T', list(sh))]))
        shapes.append(('nested group', ['x', 'w', ('T', list(sh)), 'w', 'x']))
        shapes.append(('parenthesis', ['x', ('P', ['('] + list(sh) + [')'])]))
    # comment groups as group_comments / align_comments build them
    groups = [['c', 'c'], ['c', 'h'], ['h', 'c'], ['l', 'l'], ['l', 'h'], ['c', 'n', 'c'], ['c', 'n', 'h'], ['h', 'n', 'c'],
              ['c', 'w', ('G', ['h'])], ['h', 'w', ('G', ['c'])], ['c', 'w', ('G', ['c'])], ['c', 'w', ('G', ['c', 'w', ('G', ['h'])])],
              ['c'], ['h'], ['l']]
    for g in groups:
        shapes.append(('comment group', ['x', 'w', ('G', g), 'w', 'x']))
        shapes.append(('comment group', [('G', g), 'w', 'x']))
        shapes.append(('comment group', ['x', ('G', g), 'x']))
        shapes.append(('comment group in parenthesis', ['x', ('P', ['(', ('G', g), 'x', ')'])]))
    return shapes


def check_strip_simulation(ctx):
    """strip_comments decided on concrete small trees: the source of StripCommentsFilter.process (and of every TokenList helper it
    calls) is interpreted on each tree; afterwards no ordinary comment is left, every hint and every other significant token is
    still there in order, two names that were apart are still apart, and a second run changes nothing."""
    repo = ctx.repo
    ctx.rule('R8.6', 'StripCommentsFilter.process interpreted on small token trees: all ordinary comments gone, hints and other tokens kept, no fusion, idempotent', floor=1)
    c = RF.filter_class(ctx, 'StripCommentsFilter')
    f = c.methods['process']
    loc = f'{f.mod.relpath}:{f.node.lineno}'
    CM, CS, HINT = TT(('Comment', 'Multiline')), TT(('Comment', 'Single')), TT(('Comment', 'Multiline', 'Hint'))
    WSP, NL, NAME, PUN, COMMENT = TT(('Text', 'Whitespace')), TT(('Text', 'Whitespace', 'Newline')), TT(('Name',)), TT(('Punctuation',)), TT(('Comment',))
    classes = {'G': repo.classes.get('sqlparse.sql.Comment'), 'P': repo.classes.get('sqlparse.sql.Parenthesis'), 'T': repo.classes.get('sqlparse.sql.Identifier'),
               'S': repo.classes.get('sqlparse.sql.Statement')}
    ctx.need(all(classes.values()), 'sqlparse.sql.Comment / Parenthesis / Identifier / Statement not found')
    mk = {'c': (CM, '/*c*/'), 'l': (CS, '-- c\n'), 'h': (HINT, '/*+ h */'), 'w': (WSP, ' '), 'n': (NL, '\n'), 'x': (NAME, 'x'), '(': (PUN, '('), ')': (PUN, ')')}

    def build(shape):
        out = []
        for s_ in shape:
            if isinstance(s_, str):
                t_ = ME.AbsToken(repo, ttype=mk[s_][0], value=mk[s_][1])
                t_.parent = None
                out.append(t_)
            else:
                out.append(group(classes[s_[0]], build(s_[1])))
        return out

    def group(cls, kids):
        g = ME.AbsToken(repo, cls=cls)
        g.tokens, g.parent, g.is_whitespace = kids, None, False
        g.value = ''.join(k.value for k in kids)
        for k in kids:
            k.parent = g
        return g

    def leaves(t):
        if t.is_group:
            for k in t.tokens:
                yield from leaves(k)
        else:
            yield t

    def show(shape):
        return ''.join(s_ if isinstance(s_, str) else f'{s_[0]}[{show(s_[1])}]' for s_ in shape).replace('\n', '\\n')

    def run(st):
        ev = ME.Evaluator(ctx, f.mod, c)
        ev.effects = True
        ME.run_function(ev, f.node, {f.params[0]: ME.Obj(_cls=c), f.params[1]: st}, max_steps=2000)

    bad, n, unsupported = [], 0, None
    for where, shape in _sc_shapes():
        st = group(classes['S'], build(shape))
        before = list(leaves(st))
        try:
            run(st)
            after = list(leaves(st))
            vals1 = [t.value for t in after]
            run(st)
            vals2 = [t.value for t in leaves(st)]
        except (ME.Unsupported, ME.Unknown) as e:
            unsupported = f'{show(shape)}: {e}'
            break
        except ME.Crash as e:
            bad.append(f'{show(shape)} ({where}): crash {e}')
            continue
        n += 1
        why = None
        left = [t for t in after if t.ttype is not None and COMMENT.contains(t.ttype) and t.ttype[-1] != 'Hint']
        keep_b = [t for t in before if not (t.ttype is not None and (COMMENT.contains(t.ttype) and t.ttype[-1] != 'Hint' or WSP.contains(t.ttype)))]
        keep_a = [t for t in after if not (t.ttype is not None and (COMMENT.contains(t.ttype) and t.ttype[-1] != 'Hint' or WSP.contains(t.ttype)))]
        if left:
            why = f'{len(left)} ordinary comment(s) left'
        elif len(keep_a) != len(keep_b) or any(a is not b for a, b in zip(keep_a, keep_b)):
            lost = [t.value for t in keep_b if not any(t is a for a in keep_a)]
            why = f'token(s) lost or reordered: {lost}'
        else:
            for a, b in zip(after, after[1:]):
                if a.ttype is not None and b.ttype is not None and NAME.contains(a.ttype) and NAME.contains(b.ttype):
                    why = 'two names that were apart are fused'
            if why is None and vals1 != vals2:
                why = f'a second run changes the result: {"".join(vals1)!r} -> {"".join(vals2)!r}'
        if why:
            bad.append(f'{show(shape)} ({where}) -> {"".join(vals1)!r}: {why}')
    if unsupported is not None:
        ctx.note(f'R8.6 simulation not evaluable on this tree ({unsupported}); the structural rules R8.3 stand alone')
        ctx.ob('R8.6', 'simulation', loc, 'strip_comments simulation evaluable', True)
        return
    ctx.info['strip_comments_simulated_trees'] = n
    # the one place where a comment goes without a replacement although a token follows: the start of a statement.  Safe only if
    # the statement boundary in front has punctuation or whitespace on it; the splitter also ends a statement behind the word GO,
    # and a comment can follow GO directly.
    st = group(classes['S'], build(['c', 'x']))
    try:
        run(st)
        bare = [t.value for t in leaves(st)] == ['x']
    except (ME.Unsupported, ME.Unknown, ME.Crash):
        bare = False
    sp = repo.func('sqlparse.engine.statement_splitter.StatementSplitter.process')
    words = sorted({x.value for x in own_nodes(sp.node) if isinstance(x, ast.Constant) and isinstance(x.value, str) and x.value.isalpha() and x.value.isupper()})
    ctx.rule('R8.7', 'a comment that opens a statement is removed without a separator only where the preceding statement cannot end in a word', floor=1)
    if not bare or not words:
        ctx.ob('R8.7', 'statement-start', loc, 'a leading comment is replaced by a separator, or every statement boundary has punctuation on it', True)
    for w in (words if bare else []):
        ctx.ob('R8.7', f'statement-start:{w}', loc, f'the comment that opens a statement is dropped without a separator only if the previous statement cannot end with {w}', False,
               f'`select 1 {w}/*c*/select 2`: the splitter ends the first statement behind {w}, the second one starts with the comment, the comment '
               f'is removed without a replacement and format() joins the statements: `select 1 {w}select 2` ({w} and select fused, one statement)')
    ctx.need(n >= 1000, f'strip_comments simulation ran on {n} trees only')
    # one obligation per distinct failure class so that known findings can be keyed
    classes_ = {}
    for b in bad:
        classes_.setdefault(b.rsplit(': ', 1)[1].split(':')[0][:40], []).append(b)
    ctx.ob('R8.6', 'simulation', loc, f'{n} trees (flat statements up to 4 children, nested groups, parentheses, comment groups): '
           'ordinary comments removed, hints and other tokens kept in order, no fusion, idempotent', not bad,
           f'{len(bad)} tree(s) violate it (c block comment, l line comment, h hint, w blank, n newline, x name; G comment group, T nested group, '
           f'P parenthesis), e.g. ' + ' | '.join(v[0] for v in list(classes_.values())[:4]))


# ---------------------------------------------------------------------------
# R8.8: TruncateStringFilter.process interpreted on concrete literals, read back with the lexer's own rule

def check_truncate_simulation(ctx, T):
    """truncate_strings is a writer of single-quoted literals, the lexer rule for them is the reader: whatever the filter emits for a
    literal the lexer produced must again be one String.Single token (else the edit has split it), must be unchanged when the
    contents fit, and must otherwise be the opening quote, the first characters of the contents, the marker and the closing quote."""
    import itertools
    repo = ctx.repo
    ctx.rule('R8.8', 'TruncateStringFilter.process interpreted on concrete literals: the result is again one single-quoted literal, cut between characters', floor=1)
    c = RF.filter_class(ctx, 'TruncateStringFilter')
    f = c.methods['process']
    loc = f'{f.mod.relpath}:{f.node.lineno}'
    SINGLE = TT(('Literal', 'String', 'Single'))
    NAME = TT(('Name',))
    units = ['a', 'b', "''", "\\'", ' ']
    # what the lexer can put in front of the opening quote of a String.Single token (N'..', E'..', U&'..' in some dialects)
    prefixes = [''] + [px for px in ('N', 'n', 'E', 'B', 'X', 'x', 'U&', 'R', 'b', '_utf8') if T.lex_one(px + "'ab' x", 0)[1] == len(px) + 4 and T.lex_one(px + "'ab' x", 0)[2] == SINGLE]
    ctx.info['string_literal_prefixes'] = prefixes
    lits = []
    for px in prefixes:
        for n_ in range(0, 6 if px == '' else 4):
            for p in itertools.product(units, repeat=n_):
                v = px + "'" + ''.join(p) + "'"
                r, end, tt = T.lex_one(v, 0)
                if end == len(v) and tt == SINGLE:
                    lits.append((p, v))
    ctx.need(len(lits) >= 500, f'only {len(lits)} literals over the unit alphabet are single String.Single tokens')
    marker = '[...]'
    bad, n = {}, 0
    for width in (1, 2, 3):
        for p, v in lits:
            ev = ME.Evaluator(ctx, f.mod, c)
            ev.effects = True
            out = []
            ev.on_yield = out.append
            me = ME.Obj(_cls=c, width=width, char=marker)
            try:
                ME.run_function(ev, f.node, {f.params[0]: me, f.params[1]: [(SINGLE, v), (NAME, 'x')]}, max_steps=200)
            except (ME.Unsupported, ME.Unknown) as e:
                ctx.ob('R8.8', 'simulation', loc, 'truncate_strings is evaluable on concrete literals', None, f'{v!r}: {e}')
                return
            except ME.Crash as e:
                bad.setdefault('crash', []).append(f'{v} width {width}: {e}')
                continue
            n += 1
            q0 = v.index("'")
            px = v[:q0]
            body = v[q0 + 1:-1]
            nunits = len(p)
            why = None
            if len(out) != 2 or out[1] != (NAME, 'x') or out[0][0] != SINGLE:
                why = 'stream'
                bad.setdefault(why, []).append(f'{v} width {width} -> {out}')
                continue
            o = out[0][1]
            r, end, tt = T.lex_one(o, 0)
            if not (end == len(o) and tt == SINGLE):
                why = 'the result is no longer one single-quoted literal (the token is split)'
            elif len(body) <= width and o != v:
                why = 'a literal that fits is changed'
            elif o != v:
                core = o[len(px) + 1:-(len(marker) + 1)] if o.endswith(marker + "'") and o.startswith(px + "'") else None
                if core is None or not body.startswith(core) or len(core) > width:
                    why = 'the result is not quote + first characters + marker + quote'
            elif len(body) > width + len(marker) + 2 and nunits > width:
                why = 'a literal much longer than the limit is not shortened'
            if why:
                bad.setdefault(why, []).append(f'{v} width {width} -> {o}')
    ctx.info['truncate_simulated_literals'] = n
    if not bad:
        ctx.ob('R8.8', 'simulation', loc, f'{n} (literal, width) pairs over the units a, b, doubled quote, backslash-quote, blank: result is one literal, cut between characters', True)
    for why, items in sorted(bad.items()):
        ctx.ob('R8.8', f'simulation:{why[:40]}', loc, f'truncate_strings keeps every literal one token and cuts it between characters ({n} pairs interpreted)', False,
               f'{len(items)} pair(s): {why}, e.g. {items[:3]}')
