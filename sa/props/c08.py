"""C08 -- targeted filters change exactly their target tokens and nothing else."""
import ast
import re

from .. import rules_filters as RF
from .. import rx
from ..astutil import Guards, enum_paths, src, is_name, is_attr, local_defs, yields_in, sym_path
from ..cg import get_cg
from ..fold import TT, NotConst
from ..model import own_nodes
from ..tables import get_tables

EXPLANATION = (
    'Decided: which tokens each targeted filter may touch and how. R8.1 (stream conservation): in the process() generators of '
    'the case and truncate filters every path of one loop iteration yields exactly one (ttype, value) pair, ttype untouched, '
    'value either untouched or replaced by the one permitted transform under the type guard: self.convert(value) where '
    'every store to self.convert is getattr(str, <case>) (a pure letter-case method applied to the whole value), resp. '
    'quote + inner[:self.width] + self.char + quote under len(inner) > self.width. R8.2: the type guards, evaluated on every '
    'token type of the lexer output, select exactly the keyword types / exactly Name and String.Symbol / exactly '
    'String.Single. R8.3 (StripCommentsFilter): only the token found by the comment lookup is removed or replaced; both hint '
    'types are skipped before any effect; the replacement is a whitespace token; removal without a separator happens only when '
    'the left neighbour is absent or "(". R8.4: case/truncate filters run on the token stream (preprocess), comment stripping on '
    'grouped statements. Not decided: idempotence; case mappings that change length; fusion across group boundaries.')

KW = TT(('Keyword',))
NAME = TT(('Name',))
SYMBOL = TT(('Literal', 'String', 'Symbol'))
SINGLE = TT(('Literal', 'String', 'Single'))
CASE_METHODS = {'upper', 'lower', 'capitalize', 'title', 'swapcase', 'casefold'}


def run(ctx):
    ctx.engines |= {'paths', 'cg', 'fx', 'tables'}
    ctx.rule('R8.1', 'stream conservation and permitted transform in the token-stream filters', floor=8)
    ctx.rule('R8.2', 'type guards select exactly the target token types', floor=30)
    ctx.rule('R8.3', 'StripCommentsFilter removes/replaces only non-hint comments and keeps a separator', floor=6)
    ctx.rule('R8.4', 'placement: case/truncate in preprocess, comment stripping in stmtprocess with grouping', floor=4)
    T = get_tables(ctx)
    seen = set()
    for cname in ('KeywordCaseFilter', 'IdentifierCaseFilter'):
        c = RF.filter_class(ctx, cname)
        f = ctx.repo.lookup_method(c, 'process')
        if f is not None and f.qname in seen:
            continue
        seen.add(f.qname if f is not None else cname)
        check_case_filter(ctx, c)
    check_convert(ctx)
    check_truncate(ctx)
    check_guards(ctx, T)
    check_case_decisions(ctx, T)
    check_strip_comments(ctx, T)
    check_placement(ctx)


def stream_loop(ctx, f):
    ctx.need(len(f.params) == 2, f'{f.short} signature changed')
    st = f.params[1]
    loops = [s for s in f.node.body if isinstance(s, ast.For) and is_name(s.iter, st)]
    stray = [y for s in f.node.body if not isinstance(s, ast.For) for y in yields_in(s)]
    ctx.need(len(loops) == 1 and isinstance(loops[0].target, ast.Tuple) and len(loops[0].target.elts) == 2,
             f'{f.short}: expected one `for ttype, value in stream` loop')
    return loops[0], [e.id for e in loops[0].target.elts], stray


def check_case_filter(ctx, c):
    f = ctx.repo.lookup_method(c, 'process')
    ctx.need(f is not None, f'{c.name}.process not found')
    lp, (tv, vv), stray = stream_loop(ctx, f)
    loc = f'{f.mod.relpath}:{lp.lineno}'
    tag = f'{c.name}[{f.cls.name}.process]' if f.cls is not c else c.name
    ctx.ob('R8.1', f'{tag}:no-stray-yield', loc, 'no yield outside the stream loop', not stray, 'a token is invented outside the loop')
    for p in enum_paths(lp.body):
        st = p.stmts()
        ys = [s for s in st if isinstance(s, ast.Expr) and isinstance(s.value, ast.Yield)]
        desc = ' ∧ '.join(('' if pol else 'not ') + src(t) for t, pol in p.tests()) or 'always'
        key = f'{tag}:path[{desc}]'
        if len(ys) != 1 or p.exit not in ('fall', 'continue'):
            ctx.ob('R8.1', key, loc, 'exactly one yield per input token', False, f'{len(ys)} yields, exit {p.exit}: a token is dropped or duplicated')
            continue
        y = ys[0].value.value
        ok = isinstance(y, ast.Tuple) and len(y.elts) == 2 and is_name(y.elts[0], tv) and is_name(y.elts[1], vv)
        t_stores = [s for s in st if isinstance(s, ast.Assign) and any(is_name(t, tv) for t in s.targets)]
        v_stores = [s for s in st if isinstance(s, (ast.Assign, ast.AugAssign)) and any(
            is_name(t, vv) for t in (s.targets if isinstance(s, ast.Assign) else [s.target]))]
        detail = f'yields `{src(y)}`'
        if ok and t_stores:
            ok, detail = False, f'`{src(t_stores[0])}` changes the token type'
        if ok:
            for s in v_stores:
                good = isinstance(s, ast.Assign) and isinstance(s.value, ast.Call) and is_attr(s.value.func, 'convert', 'self') \
                    and len(s.value.args) == 1 and is_name(s.value.args[0], vv)
                if not good:
                    ok, detail = False, f'`{src(s)}` is not `{vv} = self.convert({vv})`'
        ctx.ob('R8.1', key, f'{f.mod.relpath}:{ys[0].lineno}', 'yields (ttype, value), the value at most replaced by self.convert(value)', ok,
               detail + ': a token is modified by more than its letter case')
    return f, lp, tv, vv


def check_case_decisions(ctx, T):
    """R8.2: run one loop iteration of <Filter>.process (method resolved through the MRO, helper methods of the filter
    inlined) on every token type the lexer can emit x {plain, double-quoted} value and compare the decision `converted /
    untouched` with the property: all keyword types resp. exactly Name and String.Symbol not starting with a double quote."""
    from .. import miniev as ME
    repo = ctx.repo
    types = set()
    for r in T.lex:
        if isinstance(r.action, TT):
            types.add(tuple(r.action))
    for _, d in T.kw:
        for v in d.values():
            if isinstance(v, TT):
                types.add(tuple(v))
    types.add(('Name',))
    wants = {
        'KeywordCaseFilter': lambda t, v: KW.contains(t),
        'IdentifierCaseFilter': lambda t, v: tuple(t) in (tuple(NAME), tuple(SYMBOL)) and not v.strip().startswith('"'),
    }
    for cname, want in wants.items():
        c = RF.filter_class(ctx, cname)
        f = repo.lookup_method(c, 'process')
        lp, (tv, vv), stray = stream_loop(ctx, f)
        node, owner = repo.lookup_class_attr(c, 'ttype')
        ctx.need(node is not None, f'{cname}.ttype not found')
        for t in sorted(types):
            tt = TT(t)
            for val in ('abc', '"abc"'):
                if cname == 'KeywordCaseFilter' and val != 'abc':
                    continue
                out = []
                ev = ME.Evaluator(ctx, f.mod, f.cls)
                ev.on_yield = out.append
                me = ME.Obj(_cls=c, convert=lambda x: ('CONVERTED', x))
                env = {'self': me, tv: tt, vv: val}
                try:
                    ME.run_function(ev, ast.FunctionDef(name='it', body=lp.body, args=None), env)
                    res = out
                except ME.Unsupported as e:
                    ctx.need(False, f'{cname}.process not evaluable on ({tt!r}, {val!r}): {e}')
                except (ME.Crash, ME.Unknown) as e:
                    res = f'raises/unknown: {e}'
                w = want(tt, val)
                expect = [(tt, ('CONVERTED', val) if w else val)]
                good = isinstance(res, list) and len(res) == 1 and isinstance(res[0], tuple) and len(res[0]) == 2 and \
                    isinstance(res[0][0], TT) and tuple(res[0][0]) == t and res[0][1] == expect[0][1]
                ctx.ob('R8.2', f'{cname}:{tt!r}:{val}', f'{f.mod.relpath}:{lp.lineno}',
                       f'{cname} {"converts" if w else "leaves"} a {tt!r} token {val!r}', good,
                       f'one iteration yields {res}: ' + ('a target token keeps its case' if w else 'a token that is not a target '
                       '(placeholder, builtin, quoted name ...) is case-converted'))


def check_convert(ctx):
    c = RF.filter_class(ctx, '_CaseFilter')
    stores = []
    for cc in [c] + [x for x in ctx.repo.subclasses(c) if x is not c]:
        for m in cc.methods.values():
            for n in own_nodes(m.node):
                if isinstance(n, ast.Assign) and any(is_attr(t, 'convert', 'self') for t in n.targets):
                    stores.append((m, n))
            if m.name == 'convert':
                stores.append((m, m.node))
    ctx.need(stores, '_CaseFilter no longer stores self.convert')
    for m, n in stores:
        v = getattr(n, 'value', None)
        ok = False
        detail = f'`{src(n)[:80]}`'
        if isinstance(v, ast.Call) and is_name(v.func, 'getattr') and len(v.args) == 2 and is_name(v.args[0], 'str'):
            ok = True      # the attribute name is a validated case option (R7.2d / C07)
        elif isinstance(v, ast.Attribute) and is_name(v.value, 'str') and v.attr in CASE_METHODS:
            ok = True
        ctx.ob('R8.1', f'convert-store:{m.short}', f'{m.mod.relpath}:{n.lineno}',
               'self.convert is a str letter-case method (getattr(str, case)) applied to the whole token value', ok,
               detail + ': the conversion is a custom function, which is not provably a pure letter-case mapping of the whole value '
               '(e.g. split/join also rewrites whitespace inside multi-word keywords and quoted names)')
    init = c.methods.get('__init__')
    if init is not None:
        # `case = case or 'upper'` default and getattr(str, case)
        pass


def check_truncate(ctx):
    c = RF.filter_class(ctx, 'TruncateStringFilter')
    f = c.methods['process']
    lp, (tv, vv), stray = stream_loop(ctx, f)
    loc = f'{f.mod.relpath}:{lp.lineno}'
    for p in enum_paths(lp.body):
        st = p.stmts()
        evs, env = sym_path(p)
        ys = [s for s in st if isinstance(s, ast.Expr) and isinstance(s.value, ast.Yield)]
        facts = [a for a in p.facts() if a[0] != '|']
        desc = ' ∧ '.join(('' if pol else 'not ') + e for e, pol in facts) or 'always'
        key = f'TruncateStringFilter:path[{desc}]'
        if len(ys) != 1:
            ctx.ob('R8.1', key, loc, 'exactly one yield per input token', False, f'{len(ys)} yields')
            continue
        y = ys[0].value.value
        ok = isinstance(y, ast.Tuple) and len(y.elts) == 2 and is_name(y.elts[0], tv) and is_name(y.elts[1], vv)
        v_stores = [(s, v) for (k, s, v, nm) in evs if k == 'assign' and nm == vv]
        detail = f'yields `{src(y)}`'
        is_single = any((e.replace(' ', '') in (f'{tv}==T.Literal.String.Single', f'{tv}isT.Literal.String.Single', f'{tv}==T.String.Single')) and pol
                        for e, pol in facts) or any((e.replace(' ', '') in (f'{tv}==T.Literal.String.Single', f'{tv}==T.String.Single')) and pol is True for e, pol in facts)
        # the early-exit path is `ttype != Single` -> facts contain (ttype == Single, False)
        not_single = any('String.Single' in e and not pol for e, pol in facts)
        if v_stores:
            s, v = v_stores[-1]
            inner_names = {n_.value.value.id for n_ in ast.walk(s.value) if isinstance(n_, ast.Subscript) and isinstance(n_.value, ast.Name)
                           and isinstance(n_.slice, ast.Slice) and src(n_.slice.upper or ast.Constant(value=None)) == 'self.width'} if False else \
                {n_.value.id for n_ in ast.walk(s.value) if isinstance(n_, ast.Subscript) and isinstance(n_.value, ast.Name)
                 and isinstance(n_.slice, ast.Slice) and n_.slice.upper is not None and src(n_.slice.upper) == 'self.width'}
            longer = any(pol and e.replace(' ', '') in {f'len({nm})>self.width' for nm in inner_names} for e, pol in facts)
            shape, why = truncation_shape(v, vv)
            ok = ok and shape and longer and not not_single
            detail = f'`{src(s)}` = {src(v)[:90]}; {why}; guard len(inner) > self.width: {longer}; on the String.Single path: {not not_single}'
        ctx.ob('R8.1', key, f'{f.mod.relpath}:{ys[0].lineno}',
               'yields the token unchanged, or a String.Single longer than width cut to quote + first width characters + marker + quote', ok, detail)


def truncation_shape(v, vv):
    """v (in entry terms) == ''.join((Q, value[k:-k][:self.width], self.char, Q)) with Q the k-quote"""
    parts = None
    if isinstance(v, ast.Call) and isinstance(v.func, ast.Attribute) and v.func.attr == 'join' and isinstance(v.func.value, ast.Constant) \
            and v.func.value.value == '' and len(v.args) == 1 and isinstance(v.args[0], (ast.Tuple, ast.List)):
        parts = v.args[0].elts
    elif isinstance(v, ast.BinOp):
        parts = []

        def flat(e):
            if isinstance(e, ast.BinOp) and isinstance(e.op, ast.Add):
                flat(e.left)
                flat(e.right)
            else:
                parts.append(e)
        flat(v)
    if not parts or len(parts) != 4:
        return False, 'not a 4-part concatenation'
    q1, body, marker, q2 = parts
    if not (isinstance(q1, ast.Constant) and isinstance(q2, ast.Constant) and q1.value == q2.value and q1.value in ("'", "''")):
        return False, f'quotes `{src(q1)}` / `{src(q2)}`'
    k = len(q1.value)
    if src(marker) != 'self.char':
        return False, f'marker `{src(marker)}`'
    want = f'{vv}[{k}:-{k}][:self.width]'
    if src(body) != want:
        return False, f'body `{src(body)}` is not `{want}`'
    return True, 'shape ok'


def check_guards(ctx, T):
    repo, folder = ctx.repo, ctx.folder
    types = set()
    for r in T.lex:
        if isinstance(r.action, TT):
            types.add(tuple(r.action))
    for _, d in T.kw:
        for v in d.values():
            if isinstance(v, TT):
                types.add(tuple(v))
    types.add(('Name',))
    for cname, want in (('KeywordCaseFilter', lambda t: KW.contains(t)), ('IdentifierCaseFilter', lambda t: tuple(t) in (tuple(NAME), tuple(SYMBOL)))):
        c = RF.filter_class(ctx, cname)
        node, owner = repo.lookup_class_attr(c, 'ttype')
        try:
            v = folder.eval(node, owner.mod, None, owner)
        except NotConst as e:
            ctx.need(False, f'{cname}.ttype not foldable: {e}')
        for t in sorted(types):
            tt = TT(t)
            if isinstance(v, TT):
                got = v.contains(tt)
            elif isinstance(v, (tuple, list)):
                got = any(tuple(x) == t for x in v if isinstance(x, TT))
            else:
                got = None
            ctx.ob('R8.2', f'{cname}:{tt!r}', f'{c.mod.relpath}:{node.lineno}',
                   f'`ttype in {cname}.ttype` is {want(tt)} for {tt!r}', got == want(tt),
                   f'guard table {v} gives {got}: {"a target type is skipped" if want(tt) else "a non-target token type is case-converted"}')
    # truncate: the guard compares with String.Single exactly
    f = RF.filter_class(ctx, 'TruncateStringFilter').methods['process']
    cmps = [n for n in own_nodes(f.node) if isinstance(n, ast.Compare) and isinstance(n.ops[0], (ast.NotEq, ast.Eq, ast.Is, ast.IsNot))
            and folder.try_eval(n.comparators[0], f.mod) == SINGLE]
    ctx.ob('R8.2', 'TruncateStringFilter:guard', f'{f.mod.relpath}:{f.node.lineno}', 'truncation is guarded by an exact comparison with String.Single',
           len(cmps) == 1, f'{[src(c) for c in cmps]}')


def check_strip_comments(ctx, T):
    repo, folder = ctx.repo, ctx.folder
    c = RF.filter_class(ctx, 'StripCommentsFilter')
    f = c.methods['_process']
    tl = f.params[0]
    dom = RF.WsDomain(ctx)
    # (c) the inserted token
    git = f.nested.get('_get_insert_token')
    ctx.need(git is not None, 'StripCommentsFilter._process._get_insert_token not found')
    rets = [n for n in own_nodes(git.node) if isinstance(n, ast.Return)]
    okc = bool(rets)
    details = []
    for r in rets:
        v = r.value
        good = False
        if isinstance(v, ast.Call) and len(v.args) == 2:
            tt = folder.try_eval(v.args[0], git.mod)
            if isinstance(tt, TT) and RF.WS.contains(tt):
                a = v.args[1]
                if dom.ws_only(a, git):
                    good = True
                elif (isinstance(a, ast.Subscript) and 'groups()' in src(a)) or (
                        isinstance(a, ast.Call) and isinstance(a.func, ast.Attribute) and a.func.attr == 'group'):
                    # group of re.search(<pattern of line breaks>, token.value)
                    pats = [n.args[0].value for n in own_nodes(git.node) if isinstance(n, ast.Call) and src(n.func) in ('re.search', 're.match')
                            and isinstance(n.args[0], ast.Constant)]
                    wsb = rx.cls(r'\s', re.UNICODE)
                    good = bool(pats) and all((s & ~wsb) == 0 for ptn in pats for s in rx.Prog(ptn, 0).charsets())
        details.append(f'`{src(v)[:60]}`: {good}')
        okc = okc and good
    ctx.ob('R8.3', 'c:replacement-is-whitespace', f'{git.mod.relpath}:{git.node.lineno}',
           'the token put in place of a comment is a Whitespace token holding a blank or the comment\'s line breaks', okc, '; '.join(details))
    # (b) hints
    hints = sorted({tuple(r.action) for r in T.lex if isinstance(r.action, TT) and r.action and r.action[-1] == 'Hint'})
    env = {}
    for s in f.node.body:
        if isinstance(s, ast.Assign) and is_name(s.targets[0]):
            v = folder.try_eval(s.value, f.mod)
            if v is not None:
                env[s.targets[0].id] = v
    sh = env.get('sql_hints')
    okb = isinstance(sh, tuple) and sorted(tuple(x) for x in sh) == hints
    ctx.ob('R8.3', 'b:hint-types', f'{f.mod.relpath}:{f.node.lineno}', f'the hint test covers every hint type of the lexer {[TT(h) for h in hints]}', okb,
           f'sql_hints = {sh}: an optimizer hint of a type not listed is stripped')
    w = [s for s in f.node.body if isinstance(s, ast.While)]
    ctx.need(len(w) == 1, 'StripCommentsFilter._process: expected one while loop')
    tokv = src(w[0].test)
    npaths = 0
    idxv = None
    for s in f.node.body:
        if isinstance(s, ast.Assign) and isinstance(s.targets[0], ast.Tuple) and len(s.targets[0].elts) == 2 and is_name(s.targets[0].elts[1], tokv):
            idxv = s.targets[0].elts[0].id
            lookup = s.value
    for p in enum_paths(w[0].body):
        facts = [a for a in p.facts() if a[0] != '|']
        st = p.stmts()
        effects = []
        for s in st:
            for n in ast.walk(s):
                if isinstance(n, ast.Call) and isinstance(n.func, ast.Attribute) and is_attr(n.func.value, 'tokens', tl) \
                        and n.func.attr in ('insert', 'remove', 'pop', 'append', 'extend', 'clear'):
                    effects.append((n.func.attr, n))
            if isinstance(s, ast.Assign) and isinstance(s.targets[0], ast.Subscript) and is_attr(s.targets[0].value, 'tokens', tl):
                effects.append(('replace', s))
            if isinstance(s, ast.Delete):
                effects.append(('del', s))
        hint_path = ('is_sql_hint', True) in facts
        npaths += 1
        desc = ' ∧ '.join(('' if pol else 'not ') + e for e, pol in facts)[:150]
        if hint_path:
            ctx.ob('R8.3', f'b:hint-path[{desc}]', f'{f.mod.relpath}:{w[0].lineno}', 'a hint is skipped before any effect', not effects and p.exit == 'continue',
                   f'effects {[e[0] for e in effects]}, exit {p.exit}')
            continue
        kinds = [e[0] for e in effects]
        key = f'path[{desc}]'
        if kinds == ['replace']:
            s = effects[0][1]
            ok = src(s.targets[0].slice) == idxv and isinstance(s.value, ast.Call) and is_name(s.value.func, '_get_insert_token')
            ctx.ob('R8.3', 'a:' + key, f'{f.mod.relpath}:{s.lineno}', 'the comment found by the lookup is replaced in place by the separator token', ok, f'`{src(s)}`')
        elif kinds in (['insert', 'remove'], ['remove']):
            rm = effects[-1][1]
            ok = is_name(rm.args[0], tokv)
            detail = f'`{src(rm)}`'
            if kinds[0] == 'insert':
                ins = effects[0][1]
                ok = ok and src(ins.args[0]) == idxv and isinstance(ins.args[1], ast.Call) and is_name(ins.args[1].func, '_get_insert_token')
                detail += f'; `{src(ins)}`'
            else:
                # (d) removal without separator only if prev_ is None or prev_ is '('
                flat = {(e, pol) for e, pol in facts}
                alts = [a for a in p.facts() if a[0] == '|']
                allowed = False
                for a in alts:
                    if all(any(('prev_ is None', True) == x or (x[1] and x[0].startswith('prev_.match(T.Punctuation') and "'('" in x[0]) for x in alt) and len(alt) == 1
                           for alt in a[1]) and len(a[1]) == 2:
                        allowed = True
                if ('prev_ is None', True) in flat or any(pol and e.startswith('prev_.match(T.Punctuation') and "'('" in e for e, pol in flat):
                    allowed = True
                ok = ok and allowed
                detail += f'; removal without separator under {[x for x in p.facts()][-1:]}'
            ctx.ob('R8.3', ('d:' if kinds == ['remove'] else 'a:') + key, f'{f.mod.relpath}:{rm.lineno}',
                   'the comment is removed; a separator is inserted unless the left neighbour is absent or "("', ok,
                   detail + ': two tokens can fuse (or a token other than the comment is removed)')
        elif not kinds:
            ctx.ob('R8.3', 'a:' + key, f'{f.mod.relpath}:{w[0].lineno}', 'every non-hint comment is removed or replaced', False, 'a comment is left in place')
        else:
            ctx.ob('R8.3', 'e:' + key, f'{f.mod.relpath}:{w[0].lineno}', 'only the recognised remove/insert/replace effects occur', False, f'effects {kinds}')
    # (a) the lookup finds comments only
    okl = isinstance(lookup, ast.Call) and is_name(lookup.func, 'get_next_comment')
    gnc = f.nested.get('get_next_comment')
    if gnc is not None:
        r = [n for n in own_nodes(gnc.node) if isinstance(n, ast.Return)][0].value
        kw = {k.arg: folder.try_eval(k.value, gnc.mod) for k in r.keywords}
        okl = okl and isinstance(r, ast.Call) and r.func.attr == 'token_next_by' and kw.get('t') == TT(('Comment',)) \
            and getattr(kw.get('i'), 'cls', None) is not None and kw['i'].cls.name == 'Comment' and 'm' not in kw
    # (f) bottom-up traversal: sub-groups (e.g. a Comment group [ordinary comment, hint]) are stripped before the group itself is judged
    pr = c.methods['process']
    order = []
    for n in own_nodes(pr.node):
        if isinstance(n, ast.Call) and is_attr(n.func, 'process', 'self'):
            order.append(('recurse', n.lineno, n.col_offset))
        if isinstance(n, ast.Call) and isinstance(n.func, ast.Attribute) and n.func.attr == '_process':
            order.append(('self', n.lineno, n.col_offset))
    order.sort(key=lambda x: (x[1], x[2]))
    kinds = [k for k, _, _ in order]
    ctx.ob('R8.3', 'f:bottom-up', f'{pr.mod.relpath}:{pr.node.lineno}', 'process() strips the sub-groups first and the group itself afterwards', kinds == ['recurse', 'self'],
           f'order of calls in process(): {kinds}: a Comment group is judged by its first token before its own non-hint comments are removed, so a hint that follows an ordinary comment is stripped with it')
    ctx.ob('R8.3', 'a:lookup', f'{f.mod.relpath}:{f.node.lineno}', 'the lookup selects exactly T.Comment leaves and sql.Comment groups', okl, '')


def check_placement(ctx):
    b, plan = RF.stack_plan(ctx)
    want = {'KeywordCaseFilter': 'preprocess', 'IdentifierCaseFilter': 'preprocess', 'TruncateStringFilter': 'preprocess', 'StripCommentsFilter': 'stmtprocess'}
    opt = {'KeywordCaseFilter': 'keyword_case', 'IdentifierCaseFilter': 'identifier_case', 'TruncateStringFilter': 'truncate_strings', 'StripCommentsFilter': 'strip_comments'}
    for cn, lst in want.items():
        ps = [p for p in plan if cn in p['classes']]
        ok = len(ps) == 1 and ps[0]['list'] == lst and {o for o, pol in ps[0]['options'] if pol} == {opt[cn]}
        ctx.ob('R8.4', f'placement:{cn}', f'{b.mod.relpath}:{ps[0]["line"] if ps else b.node.lineno}', f'{cn} is installed once in {lst} under option {opt[cn]}', ok,
               f'{[(p["list"], p["options"]) for p in ps]}')
        if ps:
            a = ps[0]['node'].args[0]
            if isinstance(a, ast.Call) and cn.endswith('CaseFilter'):
                ok = len(a.args) == 1 and src(a.args[0]) == f"options['{opt[cn]}']"
                ctx.ob('R8.4', f'argument:{cn}', f'{b.mod.relpath}:{ps[0]["line"]}', f'{cn} receives the validated option value', ok, f'`{src(a)}`')
