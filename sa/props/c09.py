"""C09 -- bracketed and block groups are exactly the properly matched pairs."""
import ast

from .. import kinds as KD
from .. import miniev as ME
from .. import vocab as VC
from ..astutil import Guards, enum_paths, src, is_name, is_attr, sym_path, lin, lin_diff
from ..fold import TT, NotConst, ClsRef
from ..model import own_nodes
from ..tables import get_tables

EXPLANATION = (
    'Decided: _group_matching is a stack matcher (R9.1: a token matching cls.M_OPEN pushes the corrected index, one matching '
    'cls.M_CLOSE pops or, on an empty stack, continues without effect; the group is built from (popped, current); groups of '
    'other classes are descended into, groups of cls are not) with exact index correction (R9.2); every (ttype, value) of the '
    'M_OPEN/M_CLOSE tables of the six matched classes is a token the lexer really emits with exactly that type (R9.3, table '
    'agreement) and no longer fused token hides it (R9.3b); the six matching passes run before every joining pass, brackets and '
    'parentheses first (R9.4); joining passes cannot absorb the delimiters of the Parenthesis/SquareBrackets they run inside: '
    'the operand predicates of each _group client are evaluated abstractly on the delimiter kinds (R9.5), and hand-written '
    'passes that extend a group to the end of the list stop at the last groupable child (R9.6). Not decided: equality with a '
    'reference matcher on arbitrary input; "ends with its closing token ignoring trailing comments".')

MATCHED = ['SquareBrackets', 'Parenthesis', 'Case', 'If', 'For', 'Begin']


def run(ctx):
    ctx.engines |= {'paths', 'tables', 'kinds'}
    ctx.rule('R9.1', 'stack discipline of _group_matching', floor=6)
    ctx.rule('R9.2', 'index correction of _group_matching: tidx = idx - offset; offset += close_idx - open_idx', floor=2)
    ctx.rule('R9.3', 'M_OPEN/M_CLOSE of the matched classes are tokens the lexer emits with exactly that type', floor=10)
    ctx.rule('R9.3b', 'no fused keyword hides an opener/closer from the block matchers', floor=2)
    ctx.rule('R9.4', 'pass order in grouping.group: matching passes first (brackets, parentheses, then keyword blocks), joining passes after', floor=6)
    ctx.rule('R9.5', 'delimiter capture: no _group client accepts ( ) [ ] as an operand it absorbs', floor=20)
    ctx.rule('R9.6', 'hand-written passes that run to the end of the list stop at the last groupable child; every matched class excludes its delimiters from _groupable_tokens', floor=1)
    KD.check_imt_shape(ctx)
    check_stack(ctx)
    check_matching_delimiters(ctx)
    check_tables(ctx)
    check_order(ctx)
    check_capture(ctx)
    check_where_end(ctx, 'R9.6')
    check_closer_stays_last(ctx)
    from .. import rules_tree as RT2
    ctx.rule('R9.7', 'grouping is total: no size/depth cut-off in the drivers and passes this property relies on', floor=1)
    RT2.check_no_cutoff(ctx, 'R9.7', only={'_group_matching', '_group'})
    from .. import rules_base as RB
    ctx.rule('R9.B', 'base model: token-type containment, token flags / normal form, Token.match and imt behave as the abstract evaluation assumes', floor=1)
    RB.check_base_model(ctx, 'R9.B', parts=('contains', 'flags', 'match', 'imt'))


def check_stack(ctx):
    repo = ctx.repo
    from ..astutil import alias_map, canon_text
    f = repo.func('sqlparse.engine.grouping._group_matching')
    tl0, clsp = f.params[0], f.params[1]
    amap = alias_map(f.node)
    # the scan loop `for idx, token in enumerate(list(L))`, at function level (recursive form) or inside a worklist loop
    scans = [s for s in ast.walk(f.node) if isinstance(s, ast.For) and isinstance(s.target, ast.Tuple) and len(s.target.elts) == 2
             and isinstance(s.iter, ast.Call) and is_name(s.iter.func, 'enumerate')]
    ctx.need(len(scans) == 1, f'{f.short}: expected one `for idx, token in enumerate(list(tlist))` scan loop, found {len(scans)}')
    lp = scans[0]
    tokv = lp.target.elts[1].id
    loc = f'{f.mod.relpath}:{lp.lineno}'
    listvars = [n.id for n in ast.walk(lp.iter) if isinstance(n, ast.Name) and n.id not in ('enumerate', 'list', 'tuple')]
    tl = listvars[0] if listvars else tl0
    # the block that is executed once per token list: the function body, or the body of the worklist loop the scan sits in
    def find_block(stmts):
        if any(s is lp for s in stmts):
            return stmts
        for s in stmts:
            for fld in ('body', 'orelse'):
                sub = getattr(s, fld, None)
                if isinstance(sub, list) and sub and isinstance(sub[0], ast.stmt):
                    r = find_block(sub)
                    if r is not None:
                        return r
        return None
    per_list = find_block(f.node.body)
    worklist = None
    if per_list is not f.node.body:
        # the enclosing loop must take its list from a worklist: L = W.pop()
        for s in per_list:
            if isinstance(s, ast.Assign) and is_name(s.targets[0], tl) and isinstance(s.value, ast.Call) and isinstance(s.value.func, ast.Attribute) \
                    and s.value.func.attr in ('pop', 'popleft') and isinstance(s.value.func.value, ast.Name):
                worklist = s.value.func.value.id
        ctx.need(worklist is not None, f'{f.short}: the scan loop is nested but its list does not come from a worklist')
    # names: stack variable = a local initialised to [] (the worklist itself excluded)
    inits = [s for s in ast.walk(f.node) if isinstance(s, ast.Assign) and len(s.targets) == 1 and is_name(s.targets[0])
             and isinstance(s.value, ast.List) and not s.value.elts and s.targets[0].id != worklist]
    stacks = sorted({s.targets[0].id for s in inits})
    ctx.ob('R9.1', 'stack-exists', loc, 'an (initially empty) open-stack exists', len(stacks) == 1, f'stack candidates {stacks}')
    if len(stacks) != 1:
        return
    st = stacks[0]
    init_in_scope = any(s in per_list for s in inits)
    ctx.ob('R9.1', 'stack-per-list', f'{f.mod.relpath}:{inits[0].lineno}',
           'every token list is matched with an open-stack of its own (initialised in the block that runs once per list)', init_in_scope,
           f'`{st} = []` is executed once for all lists of the worklist `{worklist}`: an opener left unmatched in one list is popped by a surplus closer in '
           'another list, and group_tokens is called with an index that belongs to a different list (the node no longer starts with its opener)')
    paths = enum_paths(lp.body)
    seen = {'open': 0, 'close': 0, 'descend': 0}
    from .c03 import check_offsets   # R9.2 shares the rule
    for p in paths:
        evs, env = sym_path(p)
        facts = p.facts()
        flat = [a for a in facts if a[0] != '|']
        flat = [(canon_text(e, amap), pol) for e, pol in flat]
        is_open = (f'{tokv}.match(*{clsp}.M_OPEN)', True) in flat
        is_close = (f'{tokv}.match(*{clsp}.M_CLOSE)', True) in flat
        is_group_other = (f'{tokv}.is_group', True) in flat and (f'isinstance({tokv}, {clsp})', False) in flat
        stm = p.stmts()
        pushes = [s for s in stm if isinstance(s, ast.Expr) and isinstance(s.value, ast.Call) and is_attr(s.value.func, 'append', st)]
        pops = [s for s in stm if isinstance(s, ast.Assign) and isinstance(s.value, ast.Call) and is_attr(s.value.func, 'pop', st)]
        groups = [s for s in stm if any(isinstance(c, ast.Call) and is_attr(c.func, 'group_tokens', tl) for c in ast.walk(s))]
        recs = [s for s in stm if any(isinstance(c, ast.Call) and (is_name(c.func, f.name) or (
            worklist is not None and is_attr(c.func, 'append', worklist))) for c in ast.walk(s))]
        desc = ' ∧ '.join(('' if pol else 'not ') + e for e, pol in flat)
        excepts = [e for e in p.events if e[0] == 'except']
        if is_group_other:
            seen['descend'] += 1
            ok = len(recs) == 1 and not pushes and not pops and not groups and p.exit == 'continue'
            if ok:
                c = next(c for c in ast.walk(recs[0]) if isinstance(c, ast.Call) and (is_name(c.func, f.name) or is_attr(c.func, 'append', worklist or '')))
                ok = is_name(c.args[0], tokv) and (is_name(c.args[1], clsp) if is_name(c.func, f.name) else len(c.args) == 1)
            ctx.ob('R9.1', f'descend[{desc}]', loc, 'a group of another class is descended into (same class argument) and then skipped', ok,
                   f'recursions {len(recs)}, pushes {len(pushes)}, exit {p.exit}: later kinds would be matched across, not inside, earlier groups')
        elif is_open and not excepts:
            seen['open'] += 1
            ok = len(pushes) == 1 and not pops and not groups
            if ok:
                a = pushes[0].value.args[0]
                d = lin(next(v for (k, s, v, nm) in evs if k == 'assign' and nm == getattr(a, 'id', None))) if is_name(a) else None
                ok = d is not None and len(d) == 2 and 1 in d.values() and -1 in d.values()
            ctx.ob('R9.1', f'open[{desc}]', loc, 'an opening token pushes the corrected current index', ok, f'pushes: {[src(s) for s in pushes]}')
        elif is_close and not excepts and (st, False) not in flat:
            seen['close'] += 1
            ok = len(pops) == 1 and len(groups) == 1 and not pushes
            detail = f'pops {len(pops)}, group_tokens calls {len(groups)}'
            if ok:
                pop = pops[0].value
                ok = not pop.args
                detail = f'`{src(pop)}` does not pop the most recent opener (innermost first)'
                if ok:
                    c = next(c for c in ast.walk(groups[0]) if isinstance(c, ast.Call) and is_attr(c.func, 'group_tokens', tl))
                    popped = pops[0].targets[0].id
                    ok = is_name(c.args[0], clsp) and is_name(c.args[1], popped) and len(c.keywords) == 0 and len(c.args) == 3
                    detail = f'`{src(c)}` does not group (popped opener, current closer) inclusively'
            ctx.ob('R9.1', f'close[{desc}]', loc, 'a closing token pops the innermost opener and groups (opener, closer)', ok, detail)
        elif is_close and (excepts or (st, False) in flat):
            ok = not groups and not pushes and p.exit in ('continue', 'fall')
            ctx.ob('R9.1', f'unmatched-close[{desc}]', loc, 'a closer on an empty stack is left ungrouped and the scan continues', ok,
                   f'exit {p.exit}, groups {len(groups)}')
        else:
            ok = not pushes and not pops and not groups
            ctx.ob('R9.1', f'other[{desc}]', loc, 'other tokens have no effect on the stack', ok, f'pushes {len(pushes)} pops {len(pops)}')
    ctx.ob('R9.1', 'arms-present', loc, 'the loop has an opener arm, a closer arm and a descend arm',
           all(seen.values()), f'{seen}')
    # R9.2
    save = ctx.rules.get('R3.4')
    import types
    sub = types.SimpleNamespace()
    # reuse the offset rule under R9.2's name
    from . import c03
    obs_before = len(ctx.obs)
    ctx.rule('R3.4', 'offset bookkeeping (shared with C03)', floor=0)
    c03.check_offsets(ctx)
    for o in ctx.obs[obs_before:]:
        o.rule = 'R9.2' if o.key.startswith('_group_matching') else 'R9.2g'
    ctx.rules.pop('R3.4', None)
    ctx.floors.pop('R3.4', None)
    ctx.rule('R9.2g', 'index correction of the generic joining driver _group (shared with C03)', floor=1)


def check_matching_delimiters(ctx):
    """Two matched kinds can share a delimiter token (END closes CASE and BEGIN).  A later matching pass scans the inside of the
    groups of earlier kinds; if it also looks at the first/last token of such a group, it pairs its own opener with the enclosing
    group's closer (`CASE BEGIN END END`: the Begin pass takes the Case's END), and that node no longer ends with its closing
    token.  Sibling agreement with _group: the scan of _group_matching skips the delimiters of the list it runs on."""
    from ..astutil import alias_map, canon_text
    repo = ctx.repo
    f = repo.func('sqlparse.engine.grouping._group_matching')
    tl0 = f.params[0]
    # shared delimiters between matched classes
    delim = {}
    for cname in MATCHED:
        c = repo.cls(f'sqlparse.sql.{cname}')
        for attr in ('M_OPEN', 'M_CLOSE'):
            node, owner = repo.lookup_class_attr(c, attr)
            if node is None:
                continue
            try:
                v = ctx.folder.eval(node, owner.mod, None, owner)
            except NotConst:
                continue
            for ttype, vals, rgx in VC._as_patterns(v):
                for w in (vals or ()):
                    delim.setdefault((repr(ttype), w.upper()), set()).add(cname)
    shared = {k: sorted(v) for k, v in delim.items() if len(v) > 1}
    ctx.info['shared_block_delimiters'] = {f'{k[0]} {k[1]}': v for k, v in shared.items()}
    loc = f'{f.mod.relpath}:{f.node.lineno}'
    if not shared:
        ctx.ob('R9.1', 'shared-delimiters', loc, 'no two matched kinds share an opening or closing token', True)
        return
    sharing = sorted({c for v in shared.values() for c in v})
    scans = [s for s in ast.walk(f.node) if isinstance(s, ast.For) and isinstance(s.target, ast.Tuple) and len(s.target.elts) == 2
             and isinstance(s.iter, ast.Call) and is_name(s.iter.func, 'enumerate')]
    ctx.need(len(scans) == 1, f'{f.short}: scan loop not found')
    lp = scans[0]
    tokv = lp.target.elts[1].id
    names = [n.id for n in ast.walk(lp.iter) if isinstance(n, ast.Name) and n.id not in ('enumerate', 'list', 'tuple')]
    tl = names[0] if names else tl0
    amap = alias_map(f.node)
    # locals holding (tl.tokens[0], <closing>) for the sharing classes
    dvars = set()
    for n in ast.walk(f.node):
        if isinstance(n, ast.Assign) and len(n.targets) == 1 and is_name(n.targets[0]) and isinstance(n.value, ast.Tuple) and len(n.value.elts) == 2:
            elts = [canon_text(src(e), amap) for e in n.value.elts]
            if elts[0] == f'{tl}.tokens[0]':
                dvars.add(n.targets[0].id)
    gd = Guards(f.node)
    arms = []
    for n in own_nodes(f.node):
        if isinstance(n, ast.Call) and isinstance(n.func, ast.Attribute) and n.func.attr in ('append', 'pop', 'group_tokens') \
                and any(x is n for x in ast.walk(lp)):
            if n.func.attr == 'append' and not (n.args and isinstance(n.args[0], ast.Name)):
                continue
            arms.append(n)
    ok_all = bool(arms)
    missing = []
    for n in arms:
        facts = [(canon_text(e, amap), pol) for e, pol in gd.facts(n) if e != '|']
        prot = any((not pol) and any(e == f'{tokv} in {dv}' for dv in dvars) for e, pol in facts)
        if not prot:
            ok_all = False
            missing.append(src(n)[:40])
    ctx.ob('R9.1', 'scan-excludes-own-delimiters', f'{f.mod.relpath}:{lp.lineno}',
           f'the matcher does not take the first/last token of the list it scans as opener/closer of an inner group ({", ".join(f"{k[1]} shared by {v}" for k, v in shared.items())})',
           ok_all, f'effects {missing} are not guarded by `{tokv} not in (<first token>, <closing token>)`: in `CASE BEGIN x END END` the Begin pass, run '
           'inside the Case group, pairs BEGIN with the END that closes the Case, so the Case node no longer ends with its closing token')


def check_tables(ctx):
    repo = ctx.repo
    V = VC.get_vocab(ctx)
    T = V.T
    for cname in MATCHED:
        c = repo.cls(f'sqlparse.sql.{cname}')
        for attr in ('M_OPEN', 'M_CLOSE'):
            node, owner = repo.lookup_class_attr(c, attr)
            if node is None:
                ctx.ob('R9.3', f'{cname}.{attr}', f'{c.mod.relpath}:{c.node.lineno}', f'{cname} defines {attr}', False,
                       f'{cname}.{attr} is missing: _group_matching raises AttributeError / never matches')
                continue
            try:
                v = ctx.folder.eval(node, owner.mod, None, owner)
            except NotConst as e:
                ctx.ob('R9.3', f'{cname}.{attr}', f'{c.mod.relpath}:{node.lineno}', 'table foldable', None, str(e))
                continue
            for ttype, vals, rgx in VC._as_patterns(v):
                for w in (vals or ()):
                    types, broken = V.emit_types(w.upper(), contexts=[' ', '\n', ';', ')'] if w[0].isalpha() else [' ', 'x', ''])
                    ok = types == {ttype} and not broken
                    ctx.ob('R9.3', f'{cname}.{attr}:{w}', f'{c.mod.relpath}:{node.lineno}',
                           f'{cname}.{attr} token ({ttype!r}, {w!r}) is emitted by the lexer as one token of exactly that type', ok,
                           f'the lexer gives {w!r} the type(s) {types or "none (never one token)"}' +
                           (f'; not one token in contexts {[b[0] for b in broken[:2]]}' if broken else '') +
                           ': Token.match compares types by identity, so this delimiter never matches')
    lits = VC.collect_matchlits(ctx)
    VC.check_shadowing(ctx, V, lits, 'R9.3b', families={'block matchers'})


def check_order(ctx):
    repo = ctx.repo
    g = repo.func('sqlparse.engine.grouping.group')
    lists = [n for n in own_nodes(g.node) if isinstance(n, ast.List) and len(n.elts) > 5 and all(isinstance(e, ast.Name) for e in n.elts)]
    ctx.need(len(lists) == 1, 'grouping.group no longer iterates one list of pass functions')
    order = [e.id for e in lists[0].elts]
    ctx.info['pass_order'] = order
    loc = f'{g.mod.relpath}:{lists[0].lineno}'
    # which passes are matching passes: functions whose body is a single _group_matching(tlist, sql.X) call
    matching = {}
    for name in order:
        f = g.mod.funcs.get(name)
        if f is None:
            continue
        calls = [c for c in own_nodes(f.node) if isinstance(c, ast.Call) and is_name(c.func, '_group_matching')]
        if calls:
            try:
                matching[name] = ctx.folder.eval(calls[0].args[1], f.mod).cls.name
            except Exception:
                matching[name] = '?'
    for cname in MATCHED:
        ctx.ob('R9.4', f'has-pass:{cname}', loc, f'a matching pass for {cname} is in the pass list', cname in matching.values(),
               f'{cname} groups are never built')
    idx = {n: i for i, n in enumerate(order)}
    mi = [idx[n] for n in matching]
    comments_first = order and order[0] == 'group_comments'
    others = [i for n, i in idx.items() if n not in matching and n != 'group_comments']
    ok = bool(mi) and bool(others) and max(mi) < min(others)
    late = [n for n in matching if others and idx[n] > min(others)]
    early = [n for n, i in idx.items() if n not in matching and n != 'group_comments' and mi and i < max(mi)]
    ctx.ob('R9.4', 'matching-before-joining', loc, 'every matching pass runs before every joining pass (only group_comments may precede)', ok,
           f'matching pass(es) {late} run after joining pass(es) {early}: a joining pass can wrap an opener/closer before it is matched')
    # brackets & parentheses before keyword blocks
    byc = {v: idx[k] for k, v in matching.items()}
    if all(k in byc for k in MATCHED):
        ok = max(byc['SquareBrackets'], byc['Parenthesis']) < min(byc['Case'], byc['If'], byc['For'], byc['Begin'])
        ctx.ob('R9.4', 'brackets-before-blocks', loc, 'brackets and parentheses are matched before CASE/IF/FOR/BEGIN', ok,
               f'order {sorted(byc, key=byc.get)}')
    # every pass is called with the statement
    ctx.ob('R9.4', 'comments-first', loc, 'group_comments runs first (comments cannot interfere with matching)', comments_first, f'first pass is {order[0] if order else None}')


def check_capture(ctx):
    repo = ctx.repo
    T = get_tables(ctx)
    P = TT(('Punctuation',))
    delims = {ch: ME.AbsToken(repo, P, ch) for ch in '()[]'}
    clients = KD.group_clients(ctx)
    ctx.need(len(clients) >= 10, f'only {len(clients)} _group call sites found')
    g = repo.func('sqlparse.engine.grouping._group')
    # does _group iterate all children including delimiters?  (list(tlist) -> TokenList.__iter__ -> self.tokens)
    it = [s for s in g.node.body if isinstance(s, ast.For)][0].iter
    full_iter = 'list(' + g.params[0] + ')' in src(it)
    ctx.info['_group_iterates_all_children'] = full_iter
    some = ME.AbsToken(repo, TT(('Name',)), KD.GENERIC)
    guarded, gdetail = driver_simulation(ctx, g)
    ctx.info['_group_excludes_own_delimiters'] = gdetail
    for cl in clients:
        loc = f'{cl.f.mod.relpath}:{cl.call.lineno}'
        for side, which, chars in (('left', 'valid_prev', '(['), ('right', 'valid_next', ')]')):
            for ch in chars:
                r = cl.pred(which, delims[ch])
                key = f'{cl.name}:{side}:{ch}'
                if isinstance(r, str):
                    ctx.ob('R9.5', key, loc, f'{cl.name}.{which} is total on the delimiter {ch!r}', False, r)
                    continue
                if r is None:
                    ctx.ob('R9.5', key, loc, f'{cl.name}.{which}({ch!r}) decidable', None, 'predicate value unknown on this kind')
                    continue
                ap, an = cl.post_absorbs(delims[ch] if side == 'left' else some, some, delims[ch] if side == 'right' else some)
                absorbs = r and (ap if side == 'left' else an) and full_iter and not guarded.get(side, False)
                ctx.ob('R9.5', key, loc,
                       f'{cl.name} cannot absorb the {"opening" if side == "left" else "closing"} delimiter {ch!r} as its {side} operand', not absorbs,
                       f'{which}({ch!r}) is True and post keeps that operand: inside a {"Parenthesis" if ch in "()" else "SquareBrackets"} whose '
                       f'{"first" if side == "left" else "last"} inner token is the middle token, the pass groups the delimiter away and the node no longer '
                       f'{"starts" if side == "left" else "ends"} with {ch!r}')


def driver_simulation(ctx, g, rid='R9.5'):
    """What _group does with the delimiters of the list it runs on, decided by interpreting it (and TokenList.group_tokens, token_next,
    token_prev ...) on small bracketed groups with synthetic passes: the middle token `::` directly behind the opener / in front of
    the closer, operand tests that accept anything, and the three kinds of `post` the passes use (take both neighbours, only the
    left one, only the right one).  Returns ({'left': bool, 'right': bool}, description) and records the obligations:
    a delimiter is never taken into a new group; a neighbour that is only looked at may be a delimiter (the pass still groups)."""
    repo = ctx.repo
    P, NAME, OPR, WSP, CMT, KW = TT(('Punctuation',)), TT(('Name',)), TT(('Operator',)), TT(('Text', 'Whitespace')), TT(('Comment', 'Multiline')), TT(('Keyword',))
    ident = repo.classes.get('sqlparse.sql.Identifier')
    stmt = repo.classes.get('sqlparse.sql.Statement')
    comment = repo.classes.get('sqlparse.sql.Comment')
    kinds = []
    for cname, (o, c_) in (('Parenthesis', ((P, '('), (P, ')'))), ('SquareBrackets', ((P, '['), (P, ']'))), ('Case', ((KW, 'case'), (KW, 'end'))),
                           ('If', ((KW, 'if'), (KW, 'end if'))), ('For', ((KW, 'for'), (KW, 'end loop'))), ('Begin', ((KW, 'begin'), (KW, 'end')))):
        cl = repo.classes.get(f'sqlparse.sql.{cname}')
        if cl is not None:
            kinds.append((cl, o, c_))
    ctx.need(ident is not None and stmt is not None and comment is not None and len(kinds) >= 2, 'sqlparse.sql group classes not found')
    loc = f'{g.mod.relpath}:{g.node.lineno}'

    def leaf(tt, v):
        t_ = ME.AbsToken(repo, ttype=tt, value=v)
        t_.parent = None
        return t_

    def group(cls, kids):
        gr = ME.AbsToken(repo, cls=cls)
        gr.tokens, gr.parent, gr.is_whitespace = kids, None, False
        gr.value = ''.join(k.value for k in kids)
        for k in kids:
            k.parent = gr
        return gr

    def show(t):
        return (t.cls.name + '[' + ' '.join(show(k) for k in t.tokens) + ']') if t.is_group else t.value
    posts = {'both': lambda tl, p_, t_, n_: (p_, n_), 'left': lambda tl, p_, t_, n_: (p_, t_), 'right': lambda tl, p_, t_, n_: (t_, n_)}
    params = g.params
    absorbed = {'left': [], 'right': []}
    blocked = []
    n = 0
    for cl, o, c_ in kinds:
        for inner, side in ((['m', 'x'], 'left'), (['x', 'm'], 'right'), (['x', 'm', 'x'], None), (['m'], 'both')):
            for trailing in ('', 'wG', 'wGwG', 'G', 'wGG'):
                for pname, post in posts.items():
                    opener, closer = leaf(*o), leaf(*c_)
                    kids = [opener] + [leaf(OPR, '::') if k == 'm' else leaf(NAME, 'x') for k in inner] + [closer]
                    # comments attached behind the closing token by align_comments: one or several groups, with or without blanks
                    kids += [leaf(WSP, ' ') if k == 'w' else group(comment, [leaf(CMT, '/*c*/')]) for k in trailing]
                    grp = group(cl, kids)
                    st = group(stmt, [grp])
                    mid = next(k for k in kids if k.ttype is not None and k.value == '::')
                    ev = ME.Evaluator(ctx, g.mod, None)
                    ev.effects = True
                    env = {params[0]: st, params[1]: ClsRef(ident), params[2]: (lambda t: t is mid), params[3]: (lambda t: t is not None),
                           params[4]: (lambda t: t is not None), params[5]: post}
                    for p_, d_ in zip(g.params[len(g.params) - len(g.node.args.defaults):], g.node.args.defaults):
                        env.setdefault(p_, ev.ev(d_, {}))
                    before = show(st)
                    try:
                        ME.run_function(ev, g.node, env, max_steps=2000)
                    except (ME.Unsupported, ME.Unknown) as e:
                        ctx.ob(rid, 'driver:simulation', loc, '_group is evaluable on small bracketed groups', None, f'{before}: {e}')
                        return {}, 'not evaluable'
                    except ME.Crash as e:
                        ctx.ob(rid, f'driver:crash:{cl.name}', loc, '_group runs on small bracketed groups', False, f'{before} with post={pname}: {e}')
                        continue
                    n += 1
                    after = show(st)
                    if grp.tokens[0] is not opener:
                        absorbed['left'].append(f'{before} -> {after} (post takes {pname})')
                    if not any(k is closer for k in grp.tokens):
                        absorbed['right'].append(f'{before} -> {after} (post takes {pname})')
                    # the neighbours the post takes are no delimiters -> the pass must still group
                    takes_left = pname in ('both', 'left')
                    takes_right = pname in ('both', 'right')
                    i = inner.index('m')
                    left_is_delim = i == 0
                    right_is_delim = i == len(inner) - 1
                    should_group = not (takes_left and left_is_delim) and not (takes_right and right_is_delim)
                    grouped = mid.parent is not grp
                    if should_group and not grouped:
                        blocked.append(f'{before} stays ungrouped although post takes only the {pname} neighbour(s), none of them a delimiter')
    ctx.ob(rid, 'driver:opener-kept', loc, f'_group never takes the opening token of the list it runs on into a new group ({n} runs interpreted)', not absorbed['left'],
           f'{len(absorbed["left"])} run(s), e.g. {absorbed["left"][:2]}')
    ctx.ob(rid, 'driver:closer-kept', loc, '_group never takes the closing token of the list it runs on into a new group (also with a comment attached behind it)',
           not absorbed['right'], f'{len(absorbed["right"])} run(s), e.g. {absorbed["right"][:2]}')
    ctx.ob(rid, 'driver:only-taken-neighbours-matter', loc, 'a delimiter that a pass only looks at (its post does not take it) does not keep the pass from grouping', not blocked,
           f'{len(blocked)} run(s), e.g. {blocked[:2]}: e.g. a typed literal or an array index directly behind "(" / in front of ")" is no longer grouped')
    return {'left': not absorbed['left'], 'right': not absorbed['right']}, f'{n} interpreted runs; absorbed: {{k: len(v) for k, v in absorbed.items()}}'


def driver_excludes_delimiters(ctx, g):
    """Does _group refuse operands that are the first/last token of the list it runs on, for every class that
    overrides _groupable_tokens?  -> ({'left': bool, 'right': bool}, description)"""
    repo = ctx.repo
    tl = g.params[0]
    overriding = sorted(c.name for c in repo.classes.values() if '_groupable_tokens' in c.methods and c.name != 'TokenList')
    gd = Guards(g.node)
    from ..astutil import alias_map, canon_text
    amap = alias_map(g.node)
    calls = [c for c in own_nodes(g.node) if isinstance(c, ast.Call) and is_attr(c.func, 'group_tokens', tl)]
    if len(calls) != 1:
        return {}, 'no single group_tokens call'
    facts = [a for a in gd.facts(calls[0]) if a[0] != '|']
    out = {}
    # locals that hold (tlist.tokens[0], tlist.tokens[-1]) under an isinstance test covering all overriding classes
    dvars = {}
    closing_kind = {}
    for n in ast.walk(g.node):
        if isinstance(n, ast.If):
            t = n.test
            arm = n.body
            if isinstance(t, ast.UnaryOp) and isinstance(t.op, ast.Not):
                t, arm = t.operand, n.orelse
            if isinstance(t, ast.Call) and is_name(t.func, 'isinstance') and is_name(t.args[0], tl):
                try:
                    v = ctx.folder.eval(t.args[1], g.mod)
                except NotConst:
                    continue
                names = {x.cls.name for x in (v if isinstance(v, tuple) else (v,)) if isinstance(x, ClsRef)}
                closing_vars = {}
                for s_ in arm:
                    # `_, closing = tlist.token_prev(len(tlist.tokens), skip_cm=True)`: the last child that is not whitespace/comment
                    if isinstance(s_, ast.Assign) and isinstance(s_.targets[0], ast.Tuple) and len(s_.targets[0].elts) == 2 \
                            and isinstance(s_.value, ast.Call) and is_attr(s_.value.func, 'token_prev', tl) and s_.value.args \
                            and canon_text(src(s_.value.args[0]), amap) == f'len({tl}.tokens)' \
                            and any(k.arg == 'skip_cm' and isinstance(k.value, ast.Constant) and k.value.value is True for k in s_.value.keywords):
                        closing_vars[s_.targets[0].elts[1].id] = 'skips-comments'
                    if isinstance(s_, ast.Assign) and is_name(s_.targets[0]) and isinstance(s_.value, ast.Tuple):
                        elts = [e_ if e_ in closing_vars else canon_text(e_, amap) for e_ in (src(e) for e in s_.value.elts)]
                        last = next((e for e in elts if e == f'{tl}.tokens[-1]' or e in closing_vars), None)
                        if f'{tl}.tokens[0]' in elts and last is not None and set(overriding) <= names:
                            dvars[s_.targets[0].id] = names
                            closing_kind[s_.targets[0].id] = 'skips-comments' if last in closing_vars else 'last-child'
    prevv = nextv = None
    for (k, s_, v, nm) in []:
        pass
    for e, pol in facts:
        for dv in dvars:
            if not pol and e.endswith(f' in {dv}'):
                operand = e[:-len(f' in {dv}')]
                if operand.startswith('prev'):
                    out['left'] = True
                if operand.startswith('next'):
                    out['right'] = True
    # a _group client that runs after align_comments sees groups whose last child may be an attached comment
    grp = repo.func('sqlparse.engine.grouping.group')
    lists = [n for n in own_nodes(grp.node) if isinstance(n, ast.List) and len(n.elts) > 5]
    order = [e.id for e in lists[0].elts if isinstance(e, ast.Name)] if lists else []
    if 'align_comments' in order:
        later = order[order.index('align_comments') + 1:]
        clients_after = [p_ for p_ in later if p_ in grp.mod.funcs and any(
            isinstance(c, ast.Call) and is_name(c.func, '_group') for c in own_nodes(grp.mod.funcs[p_].node, include_lambdas=False))]
        if clients_after and out.get('right') and not all(k == 'skips-comments' for k in closing_kind.values()):
            out['right'] = False
            return out, (f'closing delimiter taken as {tl}.tokens[-1], but {clients_after} run after align_comments, which appends trailing '
                         'comments to the group: the closing token is then not the last child and is not protected')
    return out, f'delimiter variables {sorted(dvars)} ({closing_kind}) cover {overriding}; guards on the grouping: {[e for e, p in facts if not p]}'


def check_closer_stays_last(ctx):
    """`_groupable_tokens` of a matched class is tokens[1:-1]: that excludes the closing token only while it is the last child.  A pass that
    can put further tokens behind the closer (group_tokens(C, start, end, extend=True) with C a base class of the matched classes extends
    the group at `start`) must therefore not run before a pass that reads `_groupable_tokens`."""
    repo = ctx.repo
    ctx.rule('R9.8', 'no pass that can append tokens to a matched group runs before a pass that relies on _groupable_tokens', floor=1)
    grp = repo.func('sqlparse.engine.grouping.group')
    lists = [n for n in own_nodes(grp.node) if isinstance(n, ast.List) and len(n.elts) > 5]
    ctx.need(lists, 'grouping.group: pass list not found')
    order = [e.id for e in lists[0].elts if isinstance(e, ast.Name)]
    matched = [repo.cls(f'sqlparse.sql.{c}') for c in MATCHED]
    readers, extenders = {}, {}
    for i, pname in enumerate(order):
        f = repo.funcs.get(f'sqlparse.engine.grouping.{pname}')
        if f is None:
            continue
        for g in [f]:
            # the pass itself with its nested helpers (the drivers _group / _group_matching get the class from their clients: R9.5)
            for n in ast.walk(g.node):
                if isinstance(n, ast.Attribute) and n.attr == '_groupable_tokens':
                    readers.setdefault(pname, (i, g, n))
                if isinstance(n, ast.Call) and isinstance(n.func, ast.Attribute) and n.func.attr == 'group_tokens' and n.args:
                    ext = next((k.value for k in n.keywords if k.arg == 'extend'), n.args[3] if len(n.args) > 3 else None)
                    if ext is None or (isinstance(ext, ast.Constant) and not ext.value):
                        continue
                    try:
                        c = ctx.folder.eval(n.args[0], g.mod)
                    except NotConst:
                        continue          # the class comes from the caller (_group): its clients pass leaf classes, checked by R9.5
                    if isinstance(c, ClsRef) and any(repo.is_subclass(m, c.cls) for m in matched):
                        extenders.setdefault(pname, (i, g, n, c.cls.name))
    ctx.need(readers, 'no pass reads _groupable_tokens any more')
    first_reader = None
    last_reader = max(readers.values(), key=lambda r: r[0])
    for pname, (i, g, n, cname) in sorted(extenders.items(), key=lambda kv: kv[1][0]):
        # every occurrence of the pass in the order counts
        occ = [j for j, p_ in enumerate(order) if p_ == pname]
        early = [j for j in occ if j < last_reader[0]]
        ctx.ob('R9.8', f'extender:{pname}', f'{g.mod.relpath}:{n.lineno}',
               f'{pname} (group_tokens({cname}, ..., extend=True) appends to an existing group) runs after every reader of _groupable_tokens', not early,
               f'{pname} is pass #{early[0] if early else "-"}, {order[last_reader[0]]} (#{last_reader[0]}) reads `_groupable_tokens` later: a comment attached behind `)` / END makes '
               f'tokens[1:-1] include the closing token, and the clause that runs to the end of the group swallows it')
    ctx.ob('R9.8', 'inventory', f'{grp.mod.relpath}:{grp.node.lineno}', f'readers of _groupable_tokens: {sorted(readers)}; passes that can extend a matched group: {sorted(extenders)}', True)


def check_where_end(ctx, rid):
    """group_where: when no closing keyword follows, the clause ends at tlist._groupable_tokens[-1]
    (which excludes the delimiters of every class that overrides _groupable_tokens)."""
    repo = ctx.repo
    f = repo.func('sqlparse.engine.grouping.group_where')
    tl = f.params[0]
    overriding = sorted(c.name for c in repo.classes.values() if '_groupable_tokens' in c.methods and c.name != 'TokenList')
    loc = f'{f.mod.relpath}:{f.node.lineno}'
    text = src(f.node)
    uses_groupable = any(isinstance(n, ast.Subscript) and is_attr(n.value, '_groupable_tokens', tl) and src(n.slice) == '-1'
                         for n in own_nodes(f.node))
    if uses_groupable:
        ctx.ob(rid, 'group_where:end-of-list', loc, f'the open-ended WHERE stops at {tl}._groupable_tokens[-1]', True,
               f'classes with delimiters: {overriding}')
        # sibling agreement: every class matched by _group_matching (it starts and ends with its delimiters) excludes them
        for cname in MATCHED:
            c = repo.cls(f'sqlparse.sql.{cname}')
            m = c.methods.get('_groupable_tokens')
            ok = False
            detail = f'{cname} inherits TokenList._groupable_tokens (all children): an open-ended WHERE inside a {cname} swallows its closing token'
            if m is not None:
                rets = [n for n in own_nodes(m.node) if isinstance(n, ast.Return)]
                ok = len(rets) == 1 and src(rets[0].value) == 'self.tokens[1:-1]'
                detail = f'returns `{src(rets[0].value) if rets else None}`'
            ctx.ob(rid, f'_groupable_tokens:{cname}', f'{c.mod.relpath}:{c.node.lineno}',
                   f'{cname}._groupable_tokens excludes the opening and closing token', ok, detail)
        return
    # alternative idiom: explicit isinstance special-casing must cover every class that overrides _groupable_tokens
    covered = set()
    for n in own_nodes(f.node):
        if isinstance(n, ast.Call) and is_name(n.func, 'isinstance') and is_name(n.args[0], tl):
            try:
                v = ctx.folder.eval(n.args[1], f.mod)
                for x in (v if isinstance(v, tuple) else (v,)):
                    if isinstance(x, ClsRef):
                        covered.add(x.cls.name)
            except NotConst:
                pass
    missing = [c for c in overriding if c not in covered]
    ctx.ob(rid, 'group_where:end-of-list', loc,
           'the open-ended WHERE excludes the closing delimiter of every class that overrides _groupable_tokens', not missing,
           f'end of list computed without _groupable_tokens; delimiter handling covers {sorted(covered)} but not {missing}: a WHERE that runs to '
           f'the end of a {"/".join(missing)} swallows its closing token')
