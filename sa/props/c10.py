"""C10 -- requested layout normal forms: structural preconditions only."""
import ast
from .. import rx
import re

from .. import miniev as ME
from .. import rules_filters as RF
from .. import vocab as VC
from ..astutil import Guards, enum_paths, src, is_name, is_attr, local_defs
from ..fold import TT, NotConst
from ..model import own_nodes
from ..tables import get_tables
from .c06 import check_composition, check_serializer, SERIALIZER_REGIONS

EXPLANATION = (
    'Only structural preconditions of the normal forms are decided. R10.1: the clause-keyword table of ReindentFilter '
    '(regexes searched case-insensitively in the normalised keyword text) matches every clause keyword of the property in '
    'every spelling the lexer can emit (FROM, all JOIN variants of the join rule, AND, OR, GROUP BY, ORDER BY, HAVING, LIMIT, '
    'UNION, EXCEPT, SET), those keywords are emitted with exactly type Keyword, WHERE has its own handler that inserts a line '
    'break, and BETWEEN ... AND is skipped. R10.2: StripWhitespace runs before Reindent/AlignedIndent and after '
    'SpacesAroundOperators/StripComments, and reindent implies strip_whitespace. R10.3: SpacesAroundOperatorsFilter looks up '
    'Operator and Comparison tokens and has a right-hand and a left-hand insertion branch, each guarded by "neighbour exists and '
    'is not whitespace". R10.4: the serializer runs last and right-strips every line. R10.5: _stripws_default writes "" exactly '
    'when the previous child was whitespace or the token is first, else " "; _stripws_parenthesis removes whitespace after "(" and '
    'before ")"; the trailing whitespace token of the statement is removed. R10.6: every token a layout filter inserts is created at the '
    'insertion (no token object shared between positions, statements or calls -- the whitespace filters edit token.value in place). Not decided: the normal forms themselves and their '
    'fixed-point property (statements about output text).')

KW = TT(('Keyword',))
CLAUSE = ['FROM', 'AND', 'OR', 'GROUP BY', 'ORDER BY', 'HAVING', 'LIMIT', 'UNION', 'EXCEPT', 'SET']


def run(ctx):
    ctx.engines |= {'paths', 'tables'}
    ctx.rule('R10.1', 'reindent clause-keyword table covers the property list in every spelling the lexer emits', floor=15)
    ctx.rule('R10.2', 'filter order and reindent => strip_whitespace', floor=6)
    ctx.rule('R10.3', 'operator spacing is two-sided with existence/whitespace guards', floor=3)
    ctx.rule('R10.4', 'the serializer runs last and right-strips every line', floor=1)
    ctx.rule('R10.5', 'whitespace collapsing rules of StripWhitespaceFilter', floor=4)
    ctx.rule('R10.6', 'every whitespace/newline token a layout filter inserts is a new object (no token shared between positions or calls)', floor=20)
    V = VC.get_vocab(ctx)
    RF.check_fresh_insertions(ctx, 'R10.6')
    ctx.rule('R10.7', 'a group handler recognises every delimiter word of its class (literal in the handler vs M_OPEN/M_CLOSE of the class)', floor=2)
    RF.check_handler_tables(ctx, 'R10.7')
    from .. import rules_tree as RT2
    ctx.rule('R10.8', 'the layout filters reach every group: get_sublists yields every group child', floor=1)
    RT2.check_get_sublists(ctx, 'R10.8')
    check_split_table(ctx, V)
    check_composition(ctx, 'R10.2')
    check_implies_strip(ctx)
    RF.check_plan_invariants(ctx, 'R10.2')
    check_operators(ctx)
    check_stripws(ctx)
    check_stripws_simulation(ctx)
    check_reindent_simulation(ctx)
    check_operator_simulation(ctx)
    # the serializer right-strips exactly the lines outside quoted text: its idea of a quoted region must agree with the lexer's
    check_serializer(ctx, 'R10.4', [r for r in SERIALIZER_REGIONS if r[0].startswith(('single-quoted', 'double-quoted'))])
    from .. import rules_base as RB
    ctx.rule('R10.B', 'base model: token-type containment, token flags / normal form, Token.match and imt behave as the abstract evaluation assumes', floor=1)
    RB.check_base_model(ctx, 'R10.B', parts=('contains', 'flags', 'match', 'imt'))


def check_split_table(ctx, V):
    repo, folder = ctx.repo, ctx.folder
    f = repo.func('sqlparse.filters.reindent.ReindentFilter._next_token')
    env = {}
    for s in f.node.body:
        if isinstance(s, ast.Assign) and is_name(s.targets[0]):
            v = folder.try_eval(s.value, f.mod, env)
            if v is not None:
                env[s.targets[0].id] = v
    m = None
    pred = None
    c = RF.filter_class(ctx, 'ReindentFilter')
    for n in own_nodes(f.node):
        if isinstance(n, ast.Call) and isinstance(n.func, ast.Attribute) and n.func.attr == 'token_next_by':
            for k in n.keywords:
                if k.arg == 'm':
                    m = folder.try_eval(k.value, f.mod, env, c)
        if isinstance(n, ast.Call) and isinstance(n.func, ast.Attribute) and n.func.attr == '_token_matching' and n.args:
            a0 = n.args[0]
            if isinstance(a0, ast.Attribute) and is_name(a0.value, 'self', 'cls'):
                pred = repo.lookup_method(c, a0.attr)
            elif isinstance(a0, ast.Name) and a0.id in f.nested:
                pred = f.nested[a0.id]
            elif isinstance(a0, ast.Lambda):
                pred = next((l for l in f.lambdas if l.node is a0), None)
    table_ok = isinstance(m, tuple) and len(m) == 3 and m[0] == KW
    ctx.need(table_ok or pred is not None, f'ReindentFilter._next_token: no split lookup found (token_next_by(m=(T.Keyword, words, regex)) or _token_matching(predicate)): {m}')
    ev = ME.Evaluator(ctx, f.mod, c)

    def accepts(tok):
        """does the split lookup of _next_token select this token?"""
        if table_ok:
            return tok.match(m[0], m[1], bool(m[2]))
        params = [p_ for p_ in pred.params if p_ not in ('self', 'cls')]
        envp = {params[0]: tok}
        if 'self' in pred.params:
            envp['self'] = ME.Obj(_cls=c)
        body = pred.node.body if isinstance(pred.node.body, list) else [ast.Return(value=pred.node.body)]
        return bool(ev.truth(ME.run_function(ev, ast.FunctionDef(name='p', body=body, args=None), envp)))
    loc = f'{f.mod.relpath}:{f.node.lineno}'
    words = list(CLAUSE)
    # JOIN variants: every word of the dedicated join rule
    for r in V.T.lex:
        ws = V.rule_words.get(r.index)
        if ws and any(w.endswith('JOIN') for w in ws) and r.action == KW:
            words += sorted(w for w in ws if w)
    for w in words:
        types, broken = V.emit_types(w, contexts=[' ', '\n'])
        # the spellings the lexer emits as one token: letter case and the whitespace between the words
        spellings = [w, w.lower()] + ([w.replace(' ', '  '), w.lower().replace(' ', '\t'), w.replace(' ', '\n   ')] if ' ' in w else [])
        missed = []
        for sp in spellings:
            try:
                if not accepts(ME.AbsToken(repo, ttype=KW, value=sp)):
                    missed.append(sp)
            except (ME.Unsupported, ME.Unknown, ME.Crash) as e:
                ctx.ob('R10.1', f'clause:{w}', loc, 'split lookup evaluable', None, str(e))
                missed = None
                break
        if missed is None:
            continue
        ok = not missed and types == {KW} and not broken
        ctx.ob('R10.1', f'clause:{w}', loc, f'clause keyword {w!r} is a Keyword token selected by the reindent split lookup in every spelling {spellings[:3]}...', ok,
               f'spellings not selected: {missed}; lexer types {types}: the keyword does not start its own line')
    # the same words directly in front of "(" (`where(a=1)`, `and(b=2 or c=3)`, `join(select ...)` are ordinary SQL): the lexer must
    # still hand them out as keywords, or reindent never sees a clause keyword there
    retyped = {}
    for w in words + ['WHERE']:
        if ' ' in w and not w.endswith('JOIN'):
            continue
        for sp in (w, w.lower()):
            r, end, tt = V.T.lex_one(sp + '(x)', 0)
            if not (end == len(sp) and isinstance(tt, TT) and KW.contains(tt)):
                retyped.setdefault(r.pattern if r is not None else '?', []).append(sp)
    if not retyped:
        ctx.ob('R10.1', 'context:open parenthesis', V.T.kwmod.relpath, 'every clause keyword keeps its keyword type directly in front of "("', True)
    for pat, sps in sorted(retyped.items()):
        line = next((x.line for x in V.T.lex if x.pattern == pat), 0)
        ctx.ob('R10.1', f'context:open parenthesis:rule={rx.canon_pattern(pat)}', f'{V.T.kwmod.relpath}:{line}', 'no rule re-types a clause keyword that is directly followed by "("', False,
               f'rule {pat!r} re-types {len(sps)} spellings, e.g. {sps[:6]}: `select a from t where(x=1) and(y=2)` is reindented without a line break '
               f'before where / and')
    # WHERE handler
    wh = c.methods.get('_process_where')
    ok = wh is not None and any(isinstance(n, ast.Call) and isinstance(n.func, ast.Attribute) and n.func.attr == 'insert_before'
                                and 'self.nl()' in src(n) for n in own_nodes(wh.node))
    ctx.ob('R10.1', 'clause:WHERE', f'{c.mod.relpath}:{wh.node.lineno if wh else c.node.lineno}', '_process_where puts a line break before WHERE', ok, '')
    # BETWEEN ... AND is skipped
    t = src(f.node)
    try:
        has_between = accepts(ME.AbsToken(repo, ttype=KW, value='BETWEEN'))
    except (ME.Unsupported, ME.Unknown, ME.Crash):
        has_between = False
    ok = "token.normalized == 'BETWEEN'" in t and "token.normalized == 'AND'" in t and has_between
    ctx.ob('R10.1', 'between-and', loc, 'the AND of BETWEEN ... AND is skipped', ok, '')
    # _split_kwds inserts nl before each
    sk = c.methods.get('_split_kwds')
    ok = sk is not None and any(isinstance(n, ast.Call) and isinstance(n.func, ast.Attribute) and n.func.attr == 'insert_before'
                                and 'self.nl()' in src(n) for n in own_nodes(sk.node))
    ctx.ob('R10.1', '_split_kwds:inserts-newline', f'{c.mod.relpath}:{sk.node.lineno if sk else 0}', '_split_kwds inserts self.nl() before every split keyword', ok, '')


def check_implies_strip(ctx):
    repo = ctx.repo
    vo = repo.func('sqlparse.formatter.validate_options')
    g = Guards(vo.node)
    for opt in ('reindent', 'reindent_aligned'):
        ok = False
        for n in own_nodes(vo.node):
            if isinstance(n, ast.Assign) and isinstance(n.targets[0], ast.Subscript) and isinstance(n.targets[0].slice, ast.Constant) \
                    and n.targets[0].slice.value == 'strip_whitespace' and isinstance(n.value, ast.Constant) and n.value.value is True:
                facts = [e for e, p in g.facts(n) if e != '|' and p]
                if opt in facts:
                    ok = True
        ctx.ob('R10.2', f'{opt}=>strip_whitespace', f'{vo.mod.relpath}:{vo.node.lineno}', f'{opt} forces strip_whitespace', ok,
               f'options[\'strip_whitespace\'] = True is not set under `{opt}`: indentation is computed on unstripped whitespace')
    # indent_columns => reindent
    ok = any(isinstance(n, ast.Assign) and isinstance(n.targets[0], ast.Subscript) and getattr(n.targets[0].slice, 'value', None) == 'reindent'
             and ('indent_columns', True) in g.facts(n) for n in own_nodes(vo.node))
    ctx.ob('R10.2', 'indent_columns=>reindent', f'{vo.mod.relpath}:{vo.node.lineno}', 'indent_columns forces reindent (before reindent is read)', ok, '')


def check_operators(ctx):
    repo, folder = ctx.repo, ctx.folder
    c = RF.filter_class(ctx, 'SpacesAroundOperatorsFilter')
    f = c.methods['_process']
    g = Guards(f.node)
    env = {}
    for s in f.node.body:
        if isinstance(s, ast.Assign) and is_name(s.targets[0]):
            v = folder.try_eval(s.value, f.mod)
            if v is not None:
                env[s.targets[0].id] = v
    tys = None
    for n in own_nodes(f.node):
        if isinstance(n, ast.Call) and isinstance(n.func, ast.Attribute) and n.func.attr == 'token_next_by':
            for k in n.keywords:
                if k.arg == 't':
                    tys = folder.try_eval(k.value, f.mod, env)
    tys = tys if isinstance(tys, tuple) and not isinstance(tys, TT) else ((tys,) if tys is not None else ())
    OP, CMP = TT(('Operator',)), TT(('Operator', 'Comparison'))
    ok = any(isinstance(t, TT) and t.contains(OP) for t in tys) and any(isinstance(t, TT) and t.contains(CMP) for t in tys)
    ctx.ob('R10.3', 'lookup-types', f'{f.mod.relpath}:{f.node.lineno}', 'the filter visits Operator and Operator.Comparison tokens', ok, f'types {tys}')
    sides = {'insert_after': ('next_', 'right'), 'insert_before': ('prev_', 'left')}
    for api, (var, side) in sides.items():
        calls = [n for n in own_nodes(f.node) if isinstance(n, ast.Call) and isinstance(n.func, ast.Attribute) and n.func.attr == api]
        ok = len(calls) == 1
        detail = f'{len(calls)} {api} calls'
        if ok:
            facts = [a for a in g.facts(calls[0]) if a[0] != '|']
            exists = (var, True) in facts
            notws = any((e.startswith(f'{var}.ttype == T.Whitespace') and not p) or (e == f'{var}.is_whitespace' and not p) for e, p in facts)
            ok = exists and notws
            detail = f'guards {facts}'
        ctx.ob('R10.3', f'{side}-branch', f'{f.mod.relpath}:{calls[0].lineno if calls else f.node.lineno}',
               f'a blank is inserted on the {side} of an operator iff the {side} neighbour exists and is not whitespace', ok,
               detail + f': operators lack whitespace on the {side} (one-sided handling)')


def check_stripws(ctx):
    c = RF.filter_class(ctx, 'StripWhitespaceFilter')
    f = c.methods['_stripws_default']
    # the collapsing rule, decided by interpreting _stripws_default on every whitespace pattern of up to five children:
    # a whitespace child becomes "" if it is the first child or follows whitespace, else " "; other children are untouched
    import itertools
    WSP = TT(('Text', 'Whitespace'))
    NAME = TT(('Name',))
    npat, bad = 0, []
    for n_ in range(1, 6):
        for pat in itertools.product((True, False), repeat=n_):
            toks = [ME.AbsToken(ctx.repo, ttype=WSP if w else NAME, value='\n  ' if w else 'x') for w in pat]
            tl = ME.Obj(tokens=toks)
            ev = ME.Evaluator(ctx, f.mod, f.cls)
            ev.effects = True
            env = {f.params[-1]: tl}
            if 'self' in f.params:
                env['self'] = ME.Obj(_cls=c)
            try:
                ME.run_function(ev, f.node, env)
            except (ME.Unsupported, ME.Unknown) as e:
                ctx.ob('R10.5', '_stripws_default:rule', f'{f.mod.relpath}:{f.node.lineno}', '_stripws_default evaluable', None, str(e))
                bad = None
                break
            except ME.Crash as e:
                bad.append((pat, f'crash {e}'))
                continue
            npat += 1
            want = []
            for i, w in enumerate(pat):
                want.append(('' if (i == 0 or pat[i - 1]) else ' ') if w else 'x')
            got = [t.value for t in toks]
            # whitespace that starts a list: "" or " " -- what becomes of it depends on the token in front of the list and is
            # decided on whole trees by R10.9
            if pat[0] and got and got[0] in ('', ' '):
                want[0] = got[0]
            if got != want:
                bad.append((''.join('_' if w else 'x' for w in pat), got))
        if bad is None:
            break
    if bad is not None:
        ctx.ob('R10.5', '_stripws_default:rule', f'{f.mod.relpath}:{f.node.lineno}',
               f'a whitespace token becomes "" if the previous child was whitespace, else " "; one that starts the list "" or " " ({npat} whitespace patterns)', not bad,
               f'pattern(s) (_ = whitespace child) with a different result: {bad[:3]}')
        ctx.ob('R10.5', '_stripws_default:state', f'{f.mod.relpath}:{f.node.lineno}',
               'only whitespace children are rewritten (checked on the same patterns)', not bad, '')
    p = c.methods['_stripws_parenthesis']
    gd = Guards(p.node)
    pops = {}
    for n in own_nodes(p.node):
        from ..astutil import alias_map, canon_text
        if isinstance(n, ast.Call) and isinstance(n.func, ast.Attribute) and n.func.attr == 'pop' and n.args \
                and canon_text(src(n.func.value), alias_map(p.node)) == f'{p.params[1]}.tokens':
            okp, why = RF.ws_proved(ctx, p, n, None, (src(n.func.value), src(n.args[0])), gd)
            in_loop = any(isinstance(l, ast.While) for l in gd.loops.get(id(gd.stmt_of.get(id(n))), ()))
            pops[src(n.args[0])] = okp and in_loop
    # which positions are emptied (behind "(", in front of ")" wherever the closing parenthesis is) is decided on trees by R10.9;
    # structurally only: whitespace is removed behind "(" in a loop and the default rule runs afterwards
    ok = pops.get('1') and any(isinstance(n, ast.Call) and is_attr(n.func, '_stripws_default', 'self') for n in own_nodes(p.node))
    ctx.ob('R10.5', '_stripws_parenthesis', f'{p.mod.relpath}:{p.node.lineno}',
           'whitespace after "(" (index 1) is removed repeatedly, then the default rule runs (positions in front of ")": R10.9)', bool(ok), f'guarded pops {pops}')
    pr = c.methods['process']
    gd = Guards(pr.node)
    okp = False
    for n in own_nodes(pr.node):
        if isinstance(n, ast.Call) and isinstance(n.func, ast.Attribute) and n.func.attr == 'pop' and is_attr(n.func.value, 'tokens') \
                and (not n.args or src(n.args[0]) == '-1'):
            good, why = RF.ws_proved(ctx, pr, n, None, (src(n.func.value), '-1'), gd)
            facts = [e for e, pol in gd.facts(n) if e != '|' and pol]
            okp = good and any(e.replace(' ', '') == 'depth==0' for e in facts)
    calls_sub = any(isinstance(n, ast.Call) and is_attr(n.func, '_stripws', 'self') for n in own_nodes(pr.node))
    ctx.ob('R10.5', 'process:trailing', f'{pr.mod.relpath}:{pr.node.lineno}',
           'every group is processed and the trailing whitespace token of the statement (depth 0) is removed', okp and calls_sub, '')
    # R10.4
    f = ctx.repo.func('sqlparse.filters.others.SerializerUnicode.process')
    ok = 'line.rstrip()' in src(f.node)
    ctx.ob('R10.4', 'serializer:rstrip', f'{f.mod.relpath}:{f.node.lineno}', 'every output line is right-stripped', ok, 'lines can end in a blank')


# ---------------------------------------------------------------------------
# R10.9: StripWhitespaceFilter.process interpreted on small trees

def _sw_shapes():
    import itertools
    shapes = []
    seqs = [list(p) for n_ in range(1, 5) for p in itertools.product('wnx', repeat=n_) if 'xx' not in ''.join(p)]
    for sq in seqs:
        shapes.append(('statement', sq))
    inner = [sq for sq in seqs if len(sq) <= 3 and 'x' in sq]
    for sq in inner:
        for pre in ([], ['w']):
            for post in ([], ['w'], ['n']):
                shapes.append(('nested group', ['x'] + pre + [('T', sq)] + post + ['x']))
        shapes.append(('parenthesis', ['x', 'w', ('P', ['('] + sq + [')']), 'w', 'x']))
        shapes.append(('parenthesis followed by a comment', ['x', 'w', ('P', ['('] + sq + [')', 'w', ('G', ['c'])]), 'w', 'x']))
        shapes.append(('parenthesis with a comment inside', ['x', 'w', ('P', ['(', ('G', ['c']), 'w'] + sq + [')']), 'w', 'x']))
    for cm in (['c'], ['c', 'n'], ['c', 'n', 'c']):
        shapes.append(('comment inside a group', ['x', 'w', ('T', ['x', 'w', ('G', cm)]), 'w', 'x']))
        shapes.append(('comment inside a group', ['x', 'w', ('T', ['x', 'w', ('G', cm)]), 'n', 'x']))
        shapes.append(('comment', ['x', 'w', ('G', cm), 'w', 'x']))
        shapes.append(('comment', ['x', 'w', ('G', cm), 'n', 'w', 'x']))
    for a in ([], ['w']):
        for b in ([], ['w'], ['n']):
            shapes.append(('identifier list', ['x', 'w', ('L', [('T', ['x'])] + a + [','] + b + [('T', ['x'])]), 'w', 'x']))
    return shapes


def _same_token_text(t, v0, COMMENT, LIT):
    """comments, literals and quoted names byte-identical; anything else up to the whitespace between its words (the quoted part of
    AT TIME ZONE '..' byte-identical)"""
    v1 = t.value
    if not isinstance(v1, str):
        return False
    if COMMENT.contains(t.ttype) or LIT.contains(t.ttype) or v0[:1] in '`"[\'$':
        return v1 == v0
    h0, q0, l0 = v0.partition("'")
    h1, q1, l1 = v1.partition("'")
    return h0.split() == h1.split() and (q0, l0) == (q1, l1) and (not q0 or h0[-1:].isspace() == h1[-1:].isspace())


MULTI_WORD = ('ORDER BY', 'GROUP BY', 'LEFT OUTER JOIN', 'UNION ALL', 'NOT NULL', 'CREATE OR REPLACE', 'DOUBLE PRECISION', 'NOT LIKE', 'END IF',
              'DESC NULLS LAST', "AT TIME ZONE 'a  b'")


def _multi_word_leaves(ctx):
    """Tokens that carry whitespace inside: every multi-word spelling the rule table lexes as ONE token when its words are two blanks or
    a line break and a blank apart -> [(ttype, value, text outside quotes)]"""
    T = get_tables(ctx)
    out = []
    for word in MULTI_WORD:
        head, q, lit = word.partition("'")
        for sep in ('  ', '\n '):
            text = sep.join(head.split() if sep == '  ' else head.lower().split()) + (sep + q + lit if q else '')
            r, end, tt = T.lex_one(text)
            if r is not None and end == len(text) and ' ' in text[:end]:
                out.append((tt, text))
    return out


def check_stripws_simulation(ctx, rid='R10.9'):
    """strip_whitespace decided on concrete small trees: the source of StripWhitespaceFilter.process (with its getattr dispatch
    and every helper) is interpreted; afterwards the text of the statement has no leading or trailing whitespace, no two
    whitespace characters in a row outside comments, no blank behind "(" or in front of ")" unless a comment is the neighbour
    on the other side, and every other token is still there."""
    repo = ctx.repo
    ctx.rule(rid, 'StripWhitespaceFilter.process interpreted on small token trees: edges stripped, runs collapsed across group borders, parentheses tight', floor=1)
    c = RF.filter_class(ctx, 'StripWhitespaceFilter')
    f = c.methods['process']
    loc = f'{f.mod.relpath}:{f.node.lineno}'
    CM, WSP, NL, NAME, PUN = TT(('Comment', 'Multiline')), TT(('Text', 'Whitespace')), TT(('Text', 'Whitespace', 'Newline')), TT(('Name',)), TT(('Punctuation',))
    COMMENT = TT(('Comment',))
    classes = {k: repo.classes.get(f'sqlparse.sql.{v}') for k, v in (('G', 'Comment'), ('T', 'Identifier'), ('S', 'Statement'), ('P', 'Parenthesis'), ('L', 'IdentifierList'))}
    ctx.need(all(classes.values()), 'sqlparse.sql classes not found')
    mk = {'c': (CM, '/*c*/'), 'w': (WSP, '  '), 'n': (NL, '\n'), 'x': (NAME, 'x'), '(': (PUN, '('), ')': (PUN, ')'), ',': (PUN, ',')}

    def build(shape):
        out = []
        for s_ in shape:
            if isinstance(s_, str):
                t_ = ME.AbsToken(repo, ttype=mk[s_][0], value=mk[s_][1])
                t_.parent = None
                out.append(t_)
            else:
                out.append(group(classes[s_[0]], build(s_[1])))
        return out

    def group(cls, kids):
        g = ME.AbsToken(repo, cls=cls)
        g.tokens, g.parent, g.is_whitespace = kids, None, False
        g.value = ''.join(k.value for k in kids)
        for k in kids:
            k.parent = g
        return g

    def leaves(t):
        if t.is_group:
            for k in t.tokens:
                yield from leaves(k)
        else:
            yield t

    def show(shape):
        return ''.join(s_ if isinstance(s_, str) else f'{s_[0]}[{show(s_[1])}]' for s_ in shape)
    params = [p_ for p_ in f.params if p_ not in ('self', 'cls')]
    bad, n = {}, 0
    shapes = _sw_shapes()
    multi = _multi_word_leaves(ctx)
    ctx.need(len(multi) >= 10, f'only {len(multi)} multi-word spellings are one token in the rule table')
    for i, (tt_, text_) in enumerate(multi):
        mk[f'k{i}'] = (tt_, text_)
        shapes.append((f'multi-word token {text_!r}', ['x', 'w', f'k{i}', 'n', 'x']))
        shapes.append((f'multi-word token {text_!r} in a group', ['x', 'w', ('T', ['x', 'w', f'k{i}']), 'w', 'x']))
    LIT = TT(('Literal',))
    T_ = get_tables(ctx)
    for i, text_ in enumerate(("'e  f'", '`a  b`', '"c  d"', '$$a  b$$', '/* c  d */', '--  c  d\n')):
        r_, end_, tt_ = T_.lex_one(text_)
        ctx.need(r_ is not None and end_ == len(text_), f'{text_!r} is not one token in the rule table')
        mk[f'o{i}'] = (tt_, text_)
        shapes.append((f'opaque token {text_!r}', ['x', 'w', f'o{i}', 'w', 'x']))
        shapes.append((f'opaque token {text_!r} in a group', ['x', 'w', ('T', [f'o{i}']), 'n', 'x']))
    for where, shape in shapes:
        st = group(classes['S'], build(shape))
        lv0 = list(leaves(st))
        before = [t for t in lv0 if not WSP.contains(t.ttype)]
        before_val = [t.value for t in before]
        apart = []
        for i, t in enumerate(lv0):
            if NAME.contains(t.ttype):
                j = i + 1
                while j < len(lv0) and WSP.contains(lv0[j].ttype):
                    j += 1
                if j < len(lv0) and j > i + 1 and NAME.contains(lv0[j].ttype):
                    apart.append((t, lv0[j]))
        ev = ME.Evaluator(ctx, f.mod, c)
        ev.effects = True
        env = {f.params[0]: ME.Obj(_cls=c), params[0]: st}
        for p_, d_ in zip(f.params[len(f.params) - len(f.node.args.defaults):], f.node.args.defaults):
            env[p_] = ev.ev(d_, {})
        try:
            ME.run_function(ev, f.node, env, max_steps=2000)
        except (ME.Unsupported, ME.Unknown) as e:
            ctx.ob(rid, 'simulation', loc, 'strip_whitespace is evaluable on small trees', None, f'{show(shape)}: {e}')
            return
        except ME.Crash as e:
            bad.setdefault('crash', []).append(f'{show(shape)} ({where}): {e}')
            continue
        n += 1
        after = list(leaves(st))
        sig = [t for t in after if not WSP.contains(t.ttype)]
        text = ''.join(t.value for t in after)
        why = None
        # two names with whitespace between them must keep at least one whitespace character between them
        gone = None
        for a_, b_ in apart:
            ia = next((i for i, t in enumerate(after) if t is a_), None)
            ib = next((i for i, t in enumerate(after) if t is b_), None)
            if ia is None or ib is None:
                continue            # a token is gone: reported as 'a significant token is lost' below
            if not ''.join(t.value for t in after[ia + 1:ib]):
                gone = (a_, b_)
        if len(sig) != len(before) or any(a is not b for a, b in zip(sig, before)):
            why = 'a significant token is lost'
        elif any(not _same_token_text(t, v0, COMMENT, LIT) for t, v0 in zip(sig, before_val)):
            why = 'the text of a significant token is changed (more than the whitespace between the words of a multi-word keyword)'
        elif gone is not None:
            why = 'two names that were apart are fused'
        elif text != text.strip():
            why = 'leading or trailing whitespace is left'
        else:
            ws_run = 0
            prev_sig = None
            for i, t in enumerate(after):
                if WSP.contains(t.ttype):
                    ws_run += len(t.value)
                    if ws_run > 1:
                        why = 'a run of two whitespace characters is left'
                        break
                    if t.value:
                        nxt = next((u for u in after[i + 1:] if not (WSP.contains(u.ttype) and not u.value)), None)
                        if prev_sig is not None and prev_sig.value == '(' and not (nxt is not None and COMMENT.contains(nxt.ttype)):
                            why = 'a blank is left behind "("'
                            break
                        if nxt is not None and nxt.value == ')' and not (prev_sig is not None and COMMENT.contains(prev_sig.ttype)):
                            why = 'a blank is left in front of ")"'
                            break
                else:
                    ws_run = 0
                    prev_sig = t
                    if not COMMENT.contains(t.ttype) and not LIT.contains(t.ttype) and t.value[:1] not in '`"[' and re.search(r'\s\s', t.value.split("'")[0]):
                        why = 'a run of two whitespace characters is left inside a multi-word token'
                        break
        if why:
            bad.setdefault(why, []).append(f'{show(shape)} ({where}) -> {text!r}')
    ctx.info['strip_whitespace_simulated_trees'] = n
    ctx.need(n >= 250, f'strip_whitespace simulation ran on {n} trees only')
    if not bad:
        ctx.ob(rid, 'simulation', loc, f'{n} trees (flat statements, nested groups with whitespace at their borders, parentheses, comment groups, identifier lists): normal form reached', True)
    for why, items in sorted(bad.items()):
        ctx.ob(rid, f'simulation:{why}', loc, f'strip_whitespace reaches its normal form on every one of {n} small trees (w blanks, n line break, x name, c comment; '
               'T nested group, P parenthesis, G comment group, L identifier list)', False, f'{len(items)} tree(s): {why}, e.g. {items[:3]}')


# ---------------------------------------------------------------------------
# R10.10: strip_whitespace + reindent interpreted on statement trees

CLAUSE_WORDS = {'FROM', 'WHERE', 'AND', 'OR', 'GROUP BY', 'ORDER BY', 'HAVING', 'LIMIT', 'UNION', 'UNION ALL', 'EXCEPT', 'SET', 'JOIN', 'LEFT JOIN', 'INNER JOIN',
                'LEFT OUTER JOIN', 'CROSS JOIN', 'VALUES'}


def _reindent_statements():
    """(name, tree description).  Leaves: ('kw', text) Keyword, ('dml', text), ('n', text) inside Identifier, ('i', text) integer, ('p', text)
    punctuation, ('c', text) comparison operator, ('akw', text) a keyword that separates arguments of a call (EXTRACT(x FROM y)) and opens no clause,
    'w' one blank, 'nl' line break; groups ('I'|'L'|'W'|'P'|'C'|'F', [...])."""
    w = 'w'

    def ident(x):
        return ('I', [('n', x)])

    def cmp_(a, b):
        return ('C', [ident(a), w, ('c', '='), w, ('i', b)])

    def lst(*xs):
        out = []
        for i, x in enumerate(xs):
            if i:
                out += [('p', ','), w]
            out.append(ident(x))
        return ('L', out)

    def func(name, args):
        return ('F', [ident(name), ('P', [('p', '(')] + args + [('p', ')')])])

    def sub(col, tab):
        return ('P', [('p', '('), ('dml', 'select'), w, func('max', [ident(col)]), w, ('kw', 'from'), w, ident(tab), w, ('W', [('kw', 'where'), w, cmp_('k', '1')]), ('p', ')')])
    sel = [('dml', 'select'), w, lst('a', 'b'), w, ('kw', 'from'), w, ident('t')]
    where = ('W', [('kw', 'where'), w, cmp_('x', '1'), w, ('kw', 'and'), w, cmp_('y', '2'), w, ('kw', 'or'), w, cmp_('z', '3')])
    out = [('select-from', sel), ('select-from-where', sel + [w, where]),
           ('leading blank', [w] + sel), ('leading line break', ['nl'] + sel + [w, where]),
           ('group/order/limit', sel + [w, ('W', [('kw', 'where'), w, cmp_('x', '1'), w]), ('kw', 'group by'), w, ident('a'), w, ('kw', 'having'), w, cmp_('a', '1'), w,
                                        ('kw', 'order by'), w, ident('a'), w, ('kw', 'limit'), w, ('i', '5')]),
           ('join', [('dml', 'select'), w, ident('a'), w, ('kw', 'from'), w, ident('t'), w, ('kw', 'left outer join'), w, ident('u'), w, ('kw', 'on'), w, cmp_('k', '1'),
                     w, ('kw', 'join'), w, ident('v'), w, ('kw', 'on'), w, cmp_('j', '2')]),
           ('union', [('dml', 'select'), w, ident('a'), w, ('kw', 'from'), w, ident('t'), w, ('kw', 'union all'), w, ('dml', 'select'), w, ident('b'), w, ('kw', 'from'), w, ident('u')]),
           ('update-set', [('dml', 'update'), w, ident('t'), w, ('kw', 'set'), w, cmp_('a', '1'), w, ('W', [('kw', 'where'), w, cmp_('b', '2')])]),
           ('subquery', [('dml', 'select'), w, ident('a'), w, ('kw', 'from'), w,
                         ('I', [('P', [('p', '('), ('dml', 'select'), w, ident('b'), w, ('kw', 'from'), w, ident('u'), w, ('W', [('kw', 'where'), w, cmp_('c', '1')]), ('p', ')')]), w, ident('s')])]),
           ('between', sel + [w, ('W', [('kw', 'where'), w, ident('x'), w, ('kw', 'between'), w, ('i', '1'), w, ('kw', 'and'), w, ('i', '2'), w, ('kw', 'and'), w, cmp_('y', '2')])]),
           ('two leading line breaks', ['nl', 'nl'] + sel),
           ('blank, line break, blank in front', [w, 'nl', w] + sel + [w, where]),
           ('statement that starts with a parenthesised select', [('P', [('p', '('), ('dml', 'select'), w, ident('b'), w, ('kw', 'from'), w, ident('u'), ('p', ')')]), w,
                                                                 ('kw', 'union'), w, ('P', [('p', '('), ('dml', 'select'), w, ident('c'), ('p', ')')])]),
           ('subquery as a function argument', [('dml', 'select'), w, func('coalesce', [('L', [sub('y', 'u'), ('p', ','), w, ('i', '0')])]), w, ('kw', 'from'), w, ident('t')]),
           ('subquery behind an extract(.. from ..) argument', [('dml', 'select'), w, func('coalesce', [('L', [func('extract', [('akw', 'year'), w, ('akw', 'from'), w, ident('d')]),
                                                                                                          ('p', ','), w, sub('y', 'u')])]), w, ('kw', 'from'), w, ident('t')]),
           ('subquery as the operand of extract(.. from ..)', [('dml', 'select'), w, func('extract', [('akw', 'epoch'), w, ('akw', 'from'), w, sub('ts', 'log')]), w, ('kw', 'from'), w, ident('t')]),
           ('subquery behind a trim(.. from ..) call in the select list', [('dml', 'select'), w, ('L', [func('trim', [ident('c'), w, ('akw', 'from'), w, ident('s')]), ('p', ','), w, sub('y', 'u')]),
                                                                         w, ('kw', 'from'), w, ident('t')]),
           ('lower and upper case, two statements', None)]
    return [o for o in out if o[1] is not None]


def check_reindent_simulation(ctx, rid='R10.10', option_sets=None, filter_name='ReindentFilter', clause_lines=True):
    """reindent decided on concrete statement trees: StripWhitespaceFilter.process then ReindentFilter.process (sources interpreted,
    with every helper and the offset/indent context managers), then the serializer's line handling.  Afterwards every clause
    keyword starts its own line, nothing but whitespace changed, the text has no leading whitespace and no line ends in a blank."""
    repo = ctx.repo
    ctx.rule(rid, 'strip_whitespace + reindent interpreted on statement trees: every clause keyword starts its own line, significant tokens untouched', floor=1)
    cs = RF.filter_class(ctx, 'StripWhitespaceFilter')
    cr = RF.filter_class(ctx, filter_name)
    fr = cr.methods['process']
    loc = f'{fr.mod.relpath}:{fr.node.lineno}'
    WSP, NL, DML, KW, NAME, PUN, CMP, INT = (TT(('Text', 'Whitespace')), TT(('Text', 'Whitespace', 'Newline')), TT(('Keyword', 'DML')), TT(('Keyword',)), TT(('Name',)),
                                             TT(('Punctuation',)), TT(('Operator', 'Comparison')), TT(('Literal', 'Number', 'Integer')))
    kinds = {'kw': KW, 'dml': DML, 'n': NAME, 'i': INT, 'p': PUN, 'c': CMP, 'akw': KW}
    nonclause = set()
    classes = {k: repo.classes.get(f'sqlparse.sql.{v}') for k, v in (('S', 'Statement'), ('I', 'Identifier'), ('L', 'IdentifierList'), ('W', 'Where'), ('P', 'Parenthesis'), ('C', 'Comparison'),
                                                                     ('F', 'Function'))}
    ctx.need(all(classes.values()), 'sqlparse.sql classes not found')

    def build(desc, upper):
        out = []
        for d in desc:
            if d == 'w':
                t_ = ME.AbsToken(repo, ttype=WSP, value=' ')
            elif d == 'nl':
                t_ = ME.AbsToken(repo, ttype=NL, value='\n')
            elif d[0] in kinds:
                v = d[1].upper() if (upper and d[0] in ('kw', 'dml', 'akw')) else d[1]
                t_ = ME.AbsToken(repo, ttype=kinds[d[0]], value=v)
                if d[0] == 'akw':
                    nonclause.add(id(t_))
            else:
                t_ = group(classes[d[0]], build(d[1], upper))
            if not t_.is_group:
                t_.parent = None
            out.append(t_)
        return out

    def group(cls, kids):
        g = ME.AbsToken(repo, cls=cls)
        g.tokens, g.parent, g.is_whitespace = kids, None, False
        g.value = ''.join(k.value for k in kids)
        for k in kids:
            k.parent = g
        return g

    def leaves(t):
        if t.is_group:
            for k in t.tokens:
                yield from leaves(k)
        else:
            yield t

    def new_filter(cls, **kw):
        init = repo.lookup_method(cls, '__init__')
        o = ME.Obj(_cls=cls)
        if init is not None:
            ev = ME.Evaluator(ctx, init.mod, cls)
            ev.effects = True
            env = {init.params[0]: o}
            for p_, d_ in zip(init.params[len(init.params) - len(init.node.args.defaults):], init.node.args.defaults):
                env[p_] = ev.ev(d_, {})
            for k_, v_ in kw.items():
                if k_ not in init.params:
                    raise ME.Unsupported(f'{cls.name}.__init__ has no parameter {k_}')
                env[k_] = v_
            ME.run_function(ev, init.node, env)
        return o

    def apply(cls, flt, st):
        f = cls.methods['process']
        ev = ME.Evaluator(ctx, f.mod, cls)
        ev.effects = True
        env = {f.params[0]: flt, f.params[1]: st}
        for p_, d_ in zip(f.params[len(f.params) - len(f.node.args.defaults):], f.node.args.defaults):
            env[p_] = ev.ev(d_, {})
        ME.run_function(ev, f.node, env, max_steps=20000)
    bad = {}
    n = 0
    runs = [(name, desc, upper, {}) for name, desc in _reindent_statements() for upper in (False, True)]
    for opts in (option_sets or []):
        runs += [(f'{name} with {opts}', desc, False, opts) for name, desc in _reindent_statements()]
    for name, desc, upper, opts in runs:
        if True:
            st = group(classes['S'], build(desc, upper))
            before = [t for t in leaves(st) if not WSP.contains(t.ttype)]
            try:
                apply(cs, new_filter(cs), st)
                apply(cr, new_filter(cr, **opts), st)
            except (ME.Unsupported, ME.Unknown) as e:
                ctx.ob(rid, 'simulation', loc, 'strip_whitespace and reindent are evaluable on statement trees', None, f'{name}: {e}')
                return
            except ME.Crash as e:
                bad.setdefault('crash', []).append(f'{name}: {e}')
                continue
            n += 1
            after = list(leaves(st))
            sig = [t for t in after if not WSP.contains(t.ttype)]
            raw = ''.join(t.value for t in after)
            text = '\n'.join(l_.rstrip() for l_ in raw.split('\n'))          # the serializer's line handling
            if len(sig) != len(before) or any(a is not b for a, b in zip(sig, before)):
                bad.setdefault('a significant token is lost, added or moved', []).append(f'{name} -> {text!r}')
                continue
            if text != text.lstrip():
                bad.setdefault('the formatted statement starts with whitespace', []).append(f'{name} -> {text!r}')
            pos = 0
            between = False
            first_sig = True
            for t in after:
                if not WSP.contains(t.ttype):
                    word = ' '.join(t.value.upper().split())
                    if clause_lines and KW.contains(t.ttype) and id(t) not in nonclause and not first_sig and (word in CLAUSE_WORDS or word.endswith('JOIN')) and not (word == 'AND' and between):
                        line_start = raw.rfind('\n', 0, pos) + 1
                        if raw[line_start:pos].strip() != '' or (line_start == 0 and raw[:pos].strip() == '' and False):
                            bad.setdefault('a clause keyword does not start its own line', []).append(f'{name}: {t.value!r} in {text!r}')
                        elif line_start == 0:
                            bad.setdefault('a clause keyword does not start its own line', []).append(f'{name}: {t.value!r} in {text!r}')
                    if word == 'BETWEEN':
                        between = True
                    elif word == 'AND' and between:
                        between = False
                    first_sig = False
                pos += len(t.value)
    ctx.info['reindent_simulated_statements'] = n
    if not bad:
        ctx.ob(rid, 'simulation', loc, f'{n} statement trees (select/from/where and-or, group/order/having/limit, joins, union, update-set, subquery, BETWEEN, '
               'leading whitespace; lower and upper case): every clause keyword starts its own line, no token but whitespace changed', True)
    for why, items in sorted(bad.items()):
        ctx.ob(rid, f'simulation:{why}', loc, f'strip_whitespace + reindent reach the normal form on {n} statement trees', False, f'{len(items)} case(s): {why}, e.g. {items[:2]}')


def check_operator_simulation(ctx, rid='R10.11'):
    """use_space_around_operators decided on concrete trees: SpacesAroundOperatorsFilter.process interpreted; afterwards every operator
    and comparison token has whitespace on both sides (unless it starts or ends its list), and only whitespace was added."""
    import itertools
    repo = ctx.repo
    ctx.rule(rid, 'SpacesAroundOperatorsFilter.process interpreted on small trees: whitespace on both sides of every operator / comparison token, nothing else changed', floor=1)
    c = RF.filter_class(ctx, 'SpacesAroundOperatorsFilter')
    f = c.methods['process']
    loc = f'{f.mod.relpath}:{f.node.lineno}'
    WSP, NAME, OPR, CMP, INT = TT(('Text', 'Whitespace')), TT(('Name',)), TT(('Operator',)), TT(('Operator', 'Comparison')), TT(('Literal', 'Number', 'Integer'))
    classes = {k: repo.classes.get(f'sqlparse.sql.{v}') for k, v in (('S', 'Statement'), ('O', 'Operation'), ('C', 'Comparison'), ('I', 'Identifier'), ('P', 'Parenthesis'))}
    ctx.need(all(classes.values()), 'sqlparse.sql classes not found')
    mk = {'x': (NAME, 'x'), '1': (INT, '1'), '+': (OPR, '+'), '*': (OPR, '*'), '=': (CMP, '='), '<=': (CMP, '<='), 'w': (WSP, ' '), 'n': (WSP, '\n')}

    def build(desc):
        out = []
        for d in desc:
            if isinstance(d, str):
                t_ = ME.AbsToken(repo, ttype=mk[d][0], value=mk[d][1])
                t_.parent = None
            else:
                t_ = group(classes[d[0]], build(d[1]))
            out.append(t_)
        return out

    def group(cls, kids):
        g = ME.AbsToken(repo, cls=cls)
        g.tokens, g.parent, g.is_whitespace = kids, None, False
        g.value = ''.join(k.value for k in kids)
        for k in kids:
            k.parent = g
        return g

    def leaves(t):
        if t.is_group:
            for k in t.tokens:
                yield from leaves(k)
        else:
            yield t
    shapes = []
    for op in ('+', '*', '=', '<='):
        for l_, r_ in itertools.product(([], ['w'], ['n'], ['w', 'w']), repeat=2):
            grp = 'C' if op in ('=', '<=') else 'O'
            shapes.append([('I', ['x']), 'w', (grp, [('I', ['x'])] + l_ + [op] + r_ + ['1'])])
            shapes.append([(grp, [(grp if grp == 'O' else 'O', [('I', ['x']), '+', '1'])] + l_ + [op] + r_ + [('I', ['x'])])])
    shapes.append([('O', [('I', ['x']), '+', ('I', ['x']), '*', '1'])])
    shapes.append([('I', ['x']), '=', '1'])
    bad = {}
    n = 0
    for shape in shapes:
        st = group(classes['S'], build(shape))
        before = [t for t in leaves(st) if not WSP.contains(t.ttype)]
        ws_before = [t for t in leaves(st) if WSP.contains(t.ttype)]
        ev = ME.Evaluator(ctx, f.mod, c)
        ev.effects = True
        try:
            ME.run_function(ev, f.node, {f.params[0]: ME.Obj(_cls=c), f.params[1]: st}, max_steps=5000)
        except (ME.Unsupported, ME.Unknown) as e:
            ctx.ob(rid, 'simulation', loc, 'use_space_around_operators is evaluable on small trees', None, str(e))
            return
        except ME.Crash as e:
            bad.setdefault('crash', []).append(str(e))
            continue
        n += 1
        after = list(leaves(st))
        sig = [t for t in after if not WSP.contains(t.ttype)]
        text = ''.join(t.value for t in after)
        if len(sig) != len(before) or any(a is not b for a, b in zip(sig, before)) or any(not any(w is x for x in after) for w in ws_before):
            bad.setdefault('a token is lost, added or moved', []).append(text)
            continue
        for i, t in enumerate(after):
            if OPR.contains(t.ttype):
                left_ok = i == 0 or (WSP.contains(after[i - 1].ttype) and after[i - 1].value != '')
                right_ok = i == len(after) - 1 or (WSP.contains(after[i + 1].ttype) and after[i + 1].value != '')
                if not (left_ok and right_ok):
                    bad.setdefault('an operator lacks whitespace on one side', []).append(f'{t.value!r} in {text!r}')
    if not bad:
        ctx.ob(rid, 'simulation', loc, f'{n} trees (+ * = <= inside Operation / Comparison groups, with and without whitespace around them, nested): spaced on both sides, nothing else changed', True)
    for why, items in sorted(bad.items()):
        ctx.ob(rid, f'simulation:{why}', loc, f'use_space_around_operators reaches its normal form on {n} small trees', False, f'{len(items)} case(s): {why}, e.g. {items[:3]}')
