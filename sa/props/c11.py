"""C11 -- parsing is insensitive to inter-token whitespace and keyword letter case."""
import ast
import re

from .. import rx
from .. import vocab as VC
from .. import miniev as ME
from ..astutil import src, is_name, is_attr, Guards
from ..cg import get_cg
from ..fold import TT, NotConst
from ..model import own_nodes
from ..tables import get_tables

EXPLANATION = (
    'Decided: every comparison of keyword text against a constant goes through a normal form that erases letter case '
    '(R11.1) and inner whitespace (R11.2): the descriptor of Token.normalized is computed from the AST of Token.__init__, '
    'the token side of each of the ~75 literal sites (M_OPEN/M_CLOSE constants, Token.match/imt(m=) literals, direct '
    'comparisons of .value/.normalized/derived locals) is classified, and for every literal containing a letter / a blank '
    'the lexer rules that can emit it are looked up (table agreement): if the emitting rule allows \\s+ between words the '
    'token side must be whitespace-collapsed or the pattern itself must use \\s+. Multi-word lexer rules separate words '
    'with \\s+ (R11.3). Neighbour lookups in the parse path and the accessors skip whitespace (R11.4) and test whitespace by '
    'type containment, never by identity with T.Whitespace (R11.5). '
    'Keyword lookup is a '
    'pure function of value.upper() (R11.6). Not decided: equality of tree shapes under respelling as such.')

PARSE_MODULES = ('sqlparse.sql', 'sqlparse.engine.grouping', 'sqlparse.engine.statement_splitter')
LETTER = re.compile(r'[A-Za-z]')


def run(ctx):
    ctx.engines |= {'tables', 'rx', 'paths'}
    ctx.rule('R11.1', 'case normal form: a literal with letters is compared against upper-cased token text (or via Token.match)', floor=20)
    ctx.rule('R11.2', 'whitespace normal form: a literal with a blank whose emitting rule allows \\s+ is compared against whitespace-collapsed token text', floor=8)
    ctx.rule('R11.3', 'every multi-word rule of SQL_REGEX separates its words with \\s+', floor=10)
    ctx.rule('R11.4', 'neighbour lookups in the parse path / accessors leave skip_ws at True', floor=10)
    ctx.rule('R11.5', 'whitespace tests on token types use containment (in T.Whitespace / is_whitespace), never identity/equality with T.Whitespace', floor=1)
    ctx.rule('R11.7', 'no decision in the parse path depends on whether a whitespace token is a line break (is_newline / T.Newline)', floor=1)
    ctx.rule('R11.6', 'keyword classification depends only on value.upper(): is_keyword upper-cases its argument before the dictionary lookup', floor=1)
    V = VC.get_vocab(ctx)
    desc, node = VC.normalized_descriptor(ctx)
    ctx.info['Token.normalized'] = {'upper': bool(desc['upper']), 'ws_collapsed': bool(desc['ws'])}
    lits = VC.collect_matchlits(ctx)
    ctx.info['matchlit_sites'] = len(lits)
    match_side = match_descriptor(ctx, desc)
    for l in lits:
        if l.values is None:
            continue
        in_parse_path = True
        check_case(ctx, V, l, desc, match_side)
        check_ws(ctx, V, l, desc, match_side)
    check_rule_separators(ctx, V)
    check_skip_ws(ctx)
    check_ws_identity(ctx)
    check_is_keyword_upper(ctx)
    check_newline_sensitivity(ctx)
    check_ws_kind_lexing(ctx)
    # a pass that resumes from a stale index skips as many siblings as the grouping removed -- a number that depends on how many
    # whitespace tokens separated the operands, so the tree shape would depend on spacing
    ctx.rule('R11.8', 'index bookkeeping: after a grouping the hand-written passes resume at the index of the new group (whitespace count cannot shift the scan)', floor=7)
    from . import c03
    before = len(ctx.obs)
    saved = {k: ctx.rules.get(k) for k in ('R3.4b',)}
    ctx.rule('R3.4b', '', floor=0)
    c03.check_resume(ctx)
    for o in ctx.obs[before:]:
        o.rule = 'R11.8'
    ctx.rules.pop('R3.4b', None)
    ctx.floors.pop('R3.4b', None)
    from .. import rules_base as RB
    from .. import rules_lexer as RL_
    ctx.rule('R11.S', 'Lexer.get_tokens interpreted on short texts agrees token by token with the rule-table model the other rules use', floor=1)
    RL_.check_scan_semantics(ctx, 'R11.S')
    check_splitter_ws_invariance(ctx)
    ctx.rule('R11.B', 'base model: token-type containment, token flags / normal form, Token.match and imt behave as the abstract evaluation assumes', floor=1)
    RB.check_base_model(ctx, 'R11.B', parts=('contains', 'flags', 'match', 'imt', 'nav'))
    # the vocabulary argument is about one scan of the whole text and one splitter pass over its tokens: a front end that
    # cuts the input (at line ends, at block boundaries) separates the words of ORDER\nBY / END\nIF before the lexer sees them
    from .. import rules_stack as RK
    ctx.rule('R11.9', 'every entry point hands the whole text to one lexer scan and one splitter pass (pipeline shape of parse/parsestream/FilterStack.run)', floor=10)
    RK.check_parse_pipeline(ctx, 'R11.9')


def match_descriptor(ctx, desc):
    """what Token.match compares: self.normalized against values (upper-cased for keywords; regex: IGNORECASE search)"""
    f = ctx.repo.func('sqlparse.sql.Token.match')
    nodes = list(own_nodes(f.node))
    # exact arm: `self.normalized in <values>`; regex arm: `<compiled>.search(self.normalized)`
    in_values = any(isinstance(n, ast.Compare) and len(n.ops) == 1 and isinstance(n.ops[0], ast.In) and src(n.left) == 'self.normalized' for n in nodes)
    searches = [n for n in nodes if isinstance(n, ast.Call) and isinstance(n.func, ast.Attribute) and n.func.attr in ('search', 'match', 'fullmatch')
                and not is_name(n.func.value, 're')]
    ok_norm = in_values and bool(searches) and all(len(n.args) == 1 and src(n.args[0]) == 'self.normalized' for n in searches)
    upper_values = any(isinstance(n, (ast.GeneratorExp, ast.ListComp)) and isinstance(n.elt, ast.Call) and isinstance(n.elt.func, ast.Attribute)
                       and n.elt.func.attr == 'upper' and is_name(n.elt.func.value, n.generators[0].target.id if isinstance(n.generators[0].target, ast.Name) else '')
                       for n in nodes)
    icase = any(isinstance(n, ast.IfExp) and src(n.body) == 're.IGNORECASE' and src(n.test) == 'self.is_keyword' for n in nodes) or any(
        isinstance(n, ast.If) and src(n.test) == 'self.is_keyword' and any('re.IGNORECASE' in src(x) for x in n.body) for n in nodes)
    ok_upper = upper_values and icase
    ctx.need(ok_norm, 'Token.match no longer compares self.normalized (shape changed)')
    return {'upper': bool(desc['upper']) and ok_upper, 'ws': bool(desc['ws']), 'values_upper': ok_upper}


def site_side(l, desc, match_side):
    if l.side == 'match':
        return match_side
    s = dict(l.side)
    if s.get('upper') == 'normalized':
        s['upper'] = bool(desc['upper'])
        s['ws'] = bool(desc['ws'])
    return s


def keyword_capable(V, word):
    """can the lexer emit `word` (any case) as a token of a Keyword type?"""
    types, _ = V.emit_types(word.upper())
    return any(TT(('Keyword',)).contains(t) for t in types)


def check_case(ctx, V, l, desc, match_side):
    side = site_side(l, desc, match_side)
    for v in l.values:
        if not LETTER.search(v) or l.regex:
            continue
        if l.ttype is not None and not TT(('Keyword',)).contains(l.ttype):
            continue   # case-sensitive by design for non-keywords (Token.match docstring)
        if l.ttype is None and not keyword_capable(V, v):
            continue
        key = f'{l.where}:{l.kind}:{v}'
        ok = bool(side['upper'])
        if l.side == 'match' and v != v.upper() and not match_side.get('values_upper'):
            ok = False
        ctx.ob('R11.1', key, l.loc,
               f'literal {v!r} is compared with case-normalised token text ({l.side if l.side == "match" else l.side.get("expr")})', ok,
               f'`{src(l.node)[:70]}` compares the raw token text with {v!r}: the lower-case spelling of the keyword takes a different path')


def emitting_rules(V, word):
    """rules of LEX whose normalised word set contains `word`"""
    out = []
    for r in V.T.lex:
        ws = V.rule_words.get(r.index)
        if ws and word in ws:
            out.append(r)
    return out


def check_ws(ctx, V, l, desc, match_side):
    side = site_side(l, desc, match_side)
    for v in l.values:
        if ' ' not in v:
            continue
        key = f'{l.where}:{l.kind}:{v}'
        if l.regex:
            # a regex literal with a literal blank vs \s+
            try:
                seps = rx.inner_separators(rx.parse(v, re.IGNORECASE))
            except re.error:
                seps = ['?']
            pat_ok = all(s == 'ws+' for s in seps) and seps
            target = re.sub(r'\\s\+|\s+', ' ', re.sub(r'[\\$^]|\\b', '', v)).upper()
        else:
            pat_ok = False
            target = v.upper()
        rules = emitting_rules(V, target)
        flexible = [r for r in rules if 'ws+' in rx.inner_separators(r.tree) or 'ws*' in rx.inner_separators(r.tree)]
        if not rules:
            # never emitted as one token: reported by the table-agreement rules of C09/C13/C17
            continue
        ok = bool(side['ws']) or pat_ok or not flexible
        ctx.ob('R11.2', key, l.loc,
               f'literal {v!r} (emitted by rule {flexible[0].pattern if flexible else rules[0].pattern!r} with \\s+ between words) is compared '
               'with whitespace-collapsed token text', ok,
               f'`{src(l.node)[:60]}`: the token text keeps its inner whitespace (Token.normalized ws-collapsed: {bool(desc["ws"])}), so '
               f'{target.replace(" ", "  ")!r} or a line break between the words is not recognised')


def check_rule_separators(ctx, V):
    T = V.T
    for r in T.lex:
        ws = V.rule_words.get(r.index)
        if not ws or not any(' ' in w for w in ws):
            continue
        if not any(c.isalpha() for w in ws for c in w):
            continue
        seps = rx.inner_separators(r.tree)
        bad = [s for s in seps if s in ('literal-blank', 'single-ws')]
        ctx.ob('R11.3', f'rule:{r.pattern}', f'{T.kwmod.relpath}:{r.line}', f'multi-word rule #{r.index} {r.pattern!r} separates its words with \\s+',
               not bad, f'uses {bad}: two blanks, a tab or a line break between the words break the keyword into separate tokens')


ACCEPTED_SKIP_WS = {
    ('group_comments', 'token_prev'): 'extent of a comment run: the token before the first non-comment token, whitespace included on purpose',
    ('get_typecast', 'token_next'): 'the type name directly follows `::` (no whitespace is lexed between them in a cast)',
}


def _accessors_ws_independent(ctx):
    """the identifier accessors interpreted on Identifier trees with four kinds of whitespace between the parts (the simulation of C12,
    reported here as R11.12): True when every accessor returns the written parts on all of them"""
    def build():
        from . import c12
        before = len(ctx.obs)
        saved = ctx.rules.get('R12.9'), ctx.floors.get('R12.9')
        sim = c12.accessor_simulation(ctx)
        ctx.rule('R11.12', 'identifier accessors interpreted on Identifier trees: the written name, qualifier and alias whatever whitespace separates the parts (shared with C12)', floor=1)
        for o in ctx.obs[before:]:
            if o.rule == 'R12.9':
                o.rule = 'R11.12'
        if saved[0] is None:
            ctx.rules.pop('R12.9', None)
            ctx.floors.pop('R12.9', None)
        return sim is not None and all(sim.values())
    return ctx.shared('c11_accessors_ws_independent', build)


def check_skip_ws(ctx):
    repo = ctx.repo
    n = 0
    for f in repo.funcs.values():
        if f.mod.name not in ('sqlparse.sql', 'sqlparse.engine.grouping'):
            continue
        for c in own_nodes(f.node, include_lambdas=False):
            if isinstance(c, ast.Call) and isinstance(c.func, ast.Attribute) and c.func.attr in ('token_next', 'token_prev'):
                if f.name in ('token_prev', 'token_next', 'insert_after'):
                    continue
                n += 1
                kw = {k.arg: k.value for k in c.keywords}
                sw = kw.get('skip_ws', c.args[1] if len(c.args) > 1 else None)
                ok = sw is None or (isinstance(sw, ast.Constant) and sw.value is True)
                key = f'{f.short}:{c.func.attr}({src(c.args[0]) if c.args else ""})'
                if not ok and f.qname in ('sqlparse.sql.NameAliasMixin.get_alias', 'sqlparse.sql.TokenList.get_alias', 'sqlparse.sql.TokenList.get_real_name',
                                          'sqlparse.sql.TokenList.get_parent_name', 'sqlparse.sql.NameAliasMixin.get_real_name') and _accessors_ws_independent(ctx):
                    ctx.ob('R11.4', key, f'{f.mod.relpath}:{c.lineno}', f'`{src(c)}` looks at the direct neighbour; the accessor results on the interpreted Identifier trees '
                           'are the same with a blank, a line break, two blanks, a line break and blanks between the parts (R11.12)', True)
                elif not ok and (f.name, c.func.attr) in ACCEPTED_SKIP_WS:
                    ctx.ob('R11.4', key, f'{f.mod.relpath}:{c.lineno}', 'lookup with skip_ws=False accepted', 'accepted', ACCEPTED_SKIP_WS[(f.name, c.func.attr)])
                else:
                    ctx.ob('R11.4', key, f'{f.mod.relpath}:{c.lineno}', f'`{src(c)}` skips whitespace between tokens', ok,
                           f'skip_ws={src(sw) if sw is not None else None}: the result depends on whether/which whitespace separates the tokens')
    ctx.need(n >= 10, f'only {n} token_next/token_prev sites found in sql.py/grouping.py')


def check_ws_identity(ctx):
    repo, folder = ctx.repo, ctx.folder
    WS = TT(('Text', 'Whitespace'))
    n = 0
    for f in repo.funcs.values():
        if f.mod.name not in PARSE_MODULES:
            continue
        for c in own_nodes(f.node):
            if isinstance(c, ast.Compare) and len(c.ops) == 1 and isinstance(c.ops[0], (ast.Is, ast.IsNot, ast.Eq, ast.NotEq)):
                for side in (c.left, c.comparators[0]):
                    try:
                        v = folder.eval(side, f.mod)
                    except NotConst:
                        continue
                    if v == WS:
                        n += 1
                        ctx.ob('R11.5', f'{f.short}:{src(c)}', f'{f.mod.relpath}:{c.lineno}',
                               'whitespace test uses containment', False,
                               f'`{src(c)}` compares a token type with T.Whitespace by identity/equality: a Newline (Whitespace.Newline) is not '
                               'recognised as whitespace, so a line break instead of a blank changes the result')
    # membership in a tuple/list of token types is equality with its elements: T.Whitespace in such a display does not cover Newline
    NLT = TT(('Text', 'Whitespace', 'Newline'))
    m = 0
    for f in repo.funcs.values():
        if f.mod.name not in PARSE_MODULES:
            continue
        parents = {}
        for x in ast.walk(f.node):
            for ch in ast.iter_child_nodes(x):
                parents[ch] = x
        lenv = VC._local_const_env(ctx, f, f.cls)
        for c in own_nodes(f.node):
            if not (isinstance(c, ast.Compare) and len(c.ops) == 1 and isinstance(c.ops[0], (ast.In, ast.NotIn))):
                continue
            try:
                v = folder.eval(c.comparators[0], f.mod, lenv, f.cls)
            except NotConst:
                continue
            if isinstance(v, TT) or not isinstance(v, (tuple, list)) or not v or not all(isinstance(x, TT) for x in v):
                continue
            anc = [x for x in v if x != NLT and x.contains(NLT)]
            if not anc or NLT in v:
                continue
            m += 1
            top = c
            while isinstance(parents.get(top), (ast.BoolOp, ast.UnaryOp)):
                top = parents[top]
            # the one accepted role: the test that decides where the whitespace behind a terminator goes (guarded by the consume_ws flag)
            guards_ = [top]
            a_ = c
            while a_ in parents:
                a_ = parents[a_]
                if isinstance(a_, (ast.If, ast.While)):
                    guards_.append(a_.test)
            why = None
            if f.name == 'process' and any(isinstance(y, ast.Attribute) and y.attr == 'consume_ws' for g_ in guards_ for y in ast.walk(g_)):
                why = ACCEPTED_WS_MEMBERSHIP['consume_ws']
            key = f'{f.short}:{canon(top)[:70]}'
            loc = f'{f.mod.relpath}:{c.lineno}'
            if why:
                ctx.ob('R11.5', key, loc, 'membership test on a display of token types: accepted', 'accepted', why)
            else:
                ctx.ob('R11.5', key, loc, 'whitespace test uses containment', False,
                       f'`{src(c)}` tests membership in the display {tuple(repr(x) for x in v)}: that is equality with {anc[0]!r}, which a line break '
                       '(Whitespace.Newline) does not satisfy -- a line break instead of a blank between two tokens changes the outcome')
    ctx.ob('R11.5', 'inventory', 'sqlparse/sql.py', f'no identity/equality test against T.Whitespace in the parse path ({n} found; {m} membership tests in displays looked at)', n == 0, '')


def check_splitter_ws_invariance(ctx):
    """StatementSplitter.process interpreted on the token streams of procedural and plain scripts, once with a blank between the tokens
    and again with a tab, a line break, a blank and a line break, CRLF: where the statements end must not depend on it."""
    from . import c17
    ctx.rule('R11.11', 'StatementSplitter.process interpreted on token streams: the statement boundaries do not depend on the kind of whitespace between the tokens', floor=1)
    V = VC.get_vocab(ctx)
    f = ctx.repo.func(c17.SPLITTER + '.process')
    loc = f'{f.mod.relpath}:{f.node.lineno}'
    WSP, NL = TT(('Text', 'Whitespace')), TT(('Text', 'Whitespace', 'Newline'))
    scripts = {name: c17.PRE + 'BEGIN ' + (body.format('') if name in c17.BODY else body) + c17.POST for name, body in list(c17.BODY.items()) + list(c17.LEAF.items())}
    scripts.update({
        'DDL with IF EXISTS in a body': c17.PRE + 'BEGIN DROP TABLE IF EXISTS t ; CREATE TABLE IF NOT EXISTS u ( a int ) ; SELECT 1 ; END ;! SELECT 9 ;!',
        'plain statements': 'SELECT 1 ;! BEGIN ;! SELECT 2 ;! END ;! DROP TABLE IF EXISTS t ;! SELECT ( 3 ) ;!',
        'declare before begin': 'SELECT 0 ;! CREATE FUNCTION f ( ) RETURNS int AS DECLARE x int ; BEGIN SELECT 1 ; END ;! SELECT 9 ;!',
        'batch separator': 'SELECT 1 GO SELECT 2 ;! SELECT 3 ;!',
    })
    kinds = {'a tab': [(WSP, '\t')], 'a line break': [(NL, '\n')], 'a blank and a line break': [(WSP, ' '), (NL, '\n')], 'CRLF': [(NL, '\r\n')],
             'a line break and two blanks': [(NL, '\n'), (WSP, ' '), (WSP, ' ')]}
    diffs, n = [], 0
    for name, script in scripts.items():
        try:
            ref = [(k, sp) for k, sp, _, _ in c17.simulate_process(ctx, V, script)]
        except (ME.Unsupported, ME.Unknown) as e:
            ctx.ob('R11.11', 'simulation', loc, 'StatementSplitter.process is evaluable on token streams', None, f'{name}: {e}')
            return
        except ME.Crash as e:
            ref = f'crash: {e}'
        for label, between in kinds.items():
            c17.SPELLING['between'] = between
            try:
                got = [(k, sp) for k, sp, _, _ in c17.simulate_process(ctx, V, script)]
            except (ME.Unsupported, ME.Unknown) as e:
                ctx.ob('R11.11', 'simulation', loc, 'StatementSplitter.process is evaluable on token streams', None, f'{name} with {label}: {e}')
                return
            except ME.Crash as e:
                got = f'crash: {e}'
            finally:
                c17.SPELLING.pop('between', None)
            n += 1
            if got != ref:
                at = next((i for i, (a, b) in enumerate(zip(ref, got)) if a != b), None) if isinstance(ref, list) and isinstance(got, list) else None
                diffs.append(f'{name} with {label} between the tokens: ' + (f'terminator #{at + 1} {"ends" if got[at][1] else "does not end"} a statement, with single blanks it '
                                                                            f'{"does" if ref[at][1] else "does not"}' if at is not None else f'{got} instead of {ref}'))
    ctx.ob('R11.11', 'simulation', loc, f'{n} (script, whitespace kind) combinations split where the single-blank spelling splits', not diffs, f'{len(diffs)} differ, e.g. {diffs[:2]}')


def canon(node):
    return ' '.join(src(node).split())


ACCEPTED_WS_MEMBERSHIP = {
    'consume_ws':
        'decides only where the whitespace behind a terminator goes: blanks and a -- comment stay with the finished statement, a line break starts the '
        'next one; the statements, their types and their significant tokens are the same (split() strips both)',
}


def check_is_keyword_upper(ctx):
    f = ctx.repo.func('sqlparse.lexer.Lexer.is_keyword')
    p = f.params[1]
    # every dictionary membership/lookup uses a name bound to p.upper()
    uppers = {s.targets[0].id for s in own_nodes(f.node) if isinstance(s, ast.Assign) and is_name(s.targets[0])
              and isinstance(s.value, ast.Call) and is_attr(s.value.func, 'upper', p)}
    bad = []
    n = 0
    for c in own_nodes(f.node):
        if isinstance(c, ast.Compare) and isinstance(c.ops[0], (ast.In, ast.NotIn)):
            n += 1
            if not (is_name(c.left) and c.left.id in uppers) and not (isinstance(c.left, ast.Call) and is_attr(c.left.func, 'upper', p)):
                bad.append(src(c))
        if isinstance(c, ast.Subscript) and isinstance(c.ctx, ast.Load) and not isinstance(c.slice, ast.Slice):
            k = c.slice
            if is_name(k, p):
                bad.append(src(c))
        if isinstance(c, ast.Call) and isinstance(c.func, ast.Attribute) and c.func.attr == 'get' and c.args:
            n += 1
            k = c.args[0]
            if not ((is_name(k) and k.id in uppers) or (isinstance(k, ast.Call) and is_attr(k.func, 'upper', p))):
                bad.append(src(c))
    ctx.ob('R11.6', 'is_keyword:upper', f'{f.mod.relpath}:{f.node.lineno}',
           'dictionary lookups in is_keyword use value.upper()', not bad and n > 0,
           f'lookup(s) {bad} use the raw spelling: keyword classification depends on letter case')


ACCEPTED_NEWLINE = {
    # (the predicate handed to token_not_matching in group_comments was accepted here for a while with the reason "only whitespace
    # leaves move".  That is not what happens: `/* a */\n/* b */` becomes one flat Comment[a, nl, b] while `/* a */ /* b */` becomes
    # Comment[a, ws, Comment[b]] (align_comments nests the second group), and a line break directly behind a comment is pulled into
    # the Comment group while a blank is not.  The tree shape depends on the kind of whitespace: a violation, listed in
    # known_findings.json, not an accepted idiom.)
}


def _newline_role(f):
    """(outermost function short name, role) of a nested predicate, or (f.short, None)"""
    outer = f
    while outer.parent is not None:
        outer = outer.parent
    if outer is f:
        return f.short, None
    for n in own_nodes(outer.node, include_lambdas=False):
        if isinstance(n, ast.Call) and isinstance(n.func, ast.Attribute) and n.func.attr == 'token_not_matching' and n.args:
            a = n.args[0]
            if (isinstance(a, ast.Lambda) and a is f.node) or (isinstance(a, ast.Name) and not isinstance(f.node, ast.Lambda) and a.id == f.node.name):
                return outer.short, 'token_not_matching predicate'
    return outer.short, None


def check_newline_sensitivity(ctx):
    repo, folder = ctx.repo, ctx.folder
    NL = TT(('Text', 'Whitespace', 'Newline'))
    n = 0
    for f in repo.funcs.values():
        if f.mod.name not in PARSE_MODULES:
            continue
        if f.qname.endswith('Token.__init__'):
            continue
        for x in own_nodes(f.node, include_lambdas=False) if not isinstance(f.node, ast.Lambda) else own_nodes(f.node):
            hit = None
            if isinstance(x, ast.Attribute) and x.attr == 'is_newline' and isinstance(x.ctx, ast.Load):
                hit = src(x)
            elif isinstance(x, ast.Attribute) and folder.try_eval(x, f.mod) == NL:
                hit = src(x)
            if hit is None:
                continue
            n += 1
            role = _newline_role(f)
            key = f'{role[0]}:{role[1] or f.short}:{hit}'
            if role in ACCEPTED_NEWLINE:
                ctx.ob('R11.7', key, f'{f.mod.relpath}:{x.lineno}', 'newline test accepted', 'accepted', ACCEPTED_NEWLINE[role])
            else:
                ctx.ob('R11.7', key, f'{f.mod.relpath}:{x.lineno}', 'the parse path does not distinguish line breaks from other whitespace', False,
                       f'`{hit}` in {f.short}: replacing a line break by a blank (or the reverse) changes statement boundaries or the tree')
    ctx.ob('R11.7', 'inventory', 'sqlparse/engine/grouping.py', f'{n} newline-sensitive site(s) in the parse path examined', True)


def check_ws_kind_lexing(ctx):
    """Which whitespace separates two tokens must not matter to the lexer: for every ordered pair of token spellings the significant
    tokens of `a b`, `a\\tb`, `a\\nb`, `a\\r\\nb` and `a  b` are the same (table evaluation).  A rule that reaches across whitespace
    (string continuation over a line break, a keyword pair joined only over blanks) breaks that."""
    import itertools
    T = get_tables(ctx)
    ctx.rule('R11.10', 'the kind of whitespace between two tokens does not change how they are lexed (all ordered pairs of token spellings, five separators)', floor=1)
    atoms = ['a', 'desc', 'select', 'order', 'by', 'group', 'union', 'all', 'end', 'if', 'left', 'join', 'not', 'null', 'like', 'is', '1', '1.5', '.', '=', '<', '*', '/',
             '-', '+', '(', ')', ',', ';', "'s'", '"n"', '`n`', '$1', ':p', '?', '@v', '[x]', '::', 'é', '$$x$$', 'create', 'or', 'replace', 'go', 'at', 'time', 'zone', '#']
    seps = [' ', '\t', '\n', '\r\n', '  ']
    kwloc = T.kwmod.relpath

    def sig(text):
        return [(repr(tt), ' '.join(v.upper().split()) if repr(tt).startswith(('Token.Keyword', 'Token.Operator')) else v) for tt, v, _ in T.lex_all(text) if v.strip() != '']
    bad = {}
    n = 0
    for a, b in itertools.product(atoms, repeat=2):
        base = sig(a + ' ' + b)
        for sp in seps[1:]:
            n += 1
            got = sig(a + sp + b)
            if got != base:
                bad.setdefault(a if a == '#' else 'other', []).append(f'{a + " " + b!r} -> {[v for _, v in base]} but {a + sp + b!r} -> {[v for _, v in got]}')
    hash_bad = bad.pop('#', [])
    ctx.ob('R11.10', 'ws-kind:#', kwloc, '`#` followed by a blank is lexed like `#` followed by any other whitespace', not hash_bad,
           f'{len(hash_bad)} pair(s), e.g. {hash_bad[:1]}: "# " opens a MySQL line comment, "#" followed by a tab or a line break is an operator')
    other = bad.get('other', [])
    ctx.ob('R11.10', 'ws-kind', kwloc, f'{n} (pair, separator) combinations over {len(atoms)} token spellings lex to the same significant tokens as with a single blank', not other,
           f'{len(other)} combination(s), e.g. {other[:2]}: the token stream, and with it the parse tree, depends on the kind of whitespace')
