"""C12 -- identifier accessors return the written name, qualifier and alias (thin)."""
import ast

from .. import kinds as KD
from .. import miniev as ME
from .. import vocab as VC
from ..astutil import Guards, src, is_name, is_attr, local_defs
from ..cg import get_cg
from ..fold import TT, NotConst, ClsRef
from ..fx import effects_of
from ..model import own_nodes
from ..tables import get_tables

EXPLANATION = (
    'Thin claim: necessary conditions only; WHICH child an accessor selects (index arithmetic over run-time shapes) is not '
    'decided. R12.1: remove_quotes strips a matching leading/trailing pair for a quote set that contains the double quote and '
    'the backtick, and passes None through. R12.2: the token types that can spell a name in the lexer output (Name from the '
    'word/backtick/bracket rules, String.Symbol from the double-quote rule) are all accepted by group_identifier, '
    '_get_first_name and group_period; (Keyword, AS) and (Punctuation, .) are emitted with exactly those types. R12.3: the '
    'accessors and identifier-building passes look up neighbours whitespace-insensitively: skip_ws left at True and whitespace '
    'recognised by type containment, never by identity with T.Whitespace (a Newline is whitespace too). R12.4: get_alias has an '
    'AS branch and an implicit-alias branch; the name accessors are effect-free. R12.5: the grouping drivers behind the identifier passes '
    '(_group, @recurse) have no size/depth cut-off and visit every sub-group. R12.6: accessor wiring.')

NAME = TT(('Name',))
SYMBOL = TT(('Literal', 'String', 'Symbol'))
WS = TT(('Text', 'Whitespace'))


def run(ctx):
    ctx.engines |= {'tables', 'kinds', 'paths', 'fx'}
    ctx.rule('R12.1', 'remove_quotes strips a matching quote pair from a set containing " and `; None passes through', floor=2)
    ctx.rule('R12.2', 'name-type agreement between the lexer output and group_identifier / _get_first_name / group_period', floor=8)
    ctx.rule('R12.3', 'whitespace-insensitive lookups in the accessors: skip_ws default, whitespace by containment', floor=2)
    ctx.rule('R12.6', 'accessor wiring: each accessor starts its name search at the right child (after AS, at the dot, before the dot, from the end)', floor=5)
    ctx.rule('R12.4', 'get_alias handles AS and implicit aliases; name accessors are effect-free', floor=6)
    V = VC.get_vocab(ctx)
    check_remove_quotes(ctx)
    check_name_types(ctx, V)
    check_lookups(ctx)
    check_alias(ctx)
    check_wiring(ctx)
    from .. import rules_tree as RT2
    ctx.rule('R12.5', 'grouping is total: no size/depth cut-off in the drivers and passes this property relies on', floor=1)
    RT2.check_no_cutoff(ctx, 'R12.5', only={'_group', 'group_period', 'group_as', 'group_aliased', 'group_identifier'})
    RT2.check_recursion_coverage(ctx, 'R12.5', only={'group_period', 'group_as', 'group_aliased', 'group_identifier', 'group_order', 'group_typecasts', 'group_arrays'})
    check_followers(ctx, V)
    check_name_after_period(ctx, V)
    accessor_simulation(ctx)
    check_wrapping_order(ctx)
    from .. import rules_base as RB
    from .. import rules_lexer as RL_
    ctx.rule('R12.S', 'Lexer.get_tokens interpreted on short texts agrees token by token with the rule-table model the other rules use', floor=1)
    RL_.check_scan_semantics(ctx, 'R12.S')
    ctx.rule('R12.B', 'base model: token-type containment, token flags / normal form, Token.match and imt behave as the abstract evaluation assumes', floor=1)
    RB.check_base_model(ctx, 'R12.B', parts=('contains', 'flags', 'match', 'imt'))


# Words the SQL grammar allows directly after an object reference in the positions the property lists (select list, FROM
# list, JOIN, UPDATE / INSERT target, subquery).  group_identifier turns every Name / Symbol token into an Identifier and
# group_aliased makes an Identifier that follows a reference its alias, so such a word must come out of the lexer as a Keyword
# type: typed Name it is taken for an implicit alias (`from t offset 10` -> alias OFFSET, has_alias() True).
FOLLOWERS = ['FROM', 'WHERE', 'GROUP BY', 'ORDER BY', 'HAVING', 'LIMIT', 'OFFSET', 'UNION', 'UNION ALL', 'EXCEPT', 'INTERSECT', 'MINUS',
             'ON', 'USING', 'JOIN', 'INNER JOIN', 'LEFT JOIN', 'LEFT OUTER JOIN', 'RIGHT JOIN', 'RIGHT OUTER JOIN', 'FULL JOIN',
             'FULL OUTER JOIN', 'CROSS JOIN', 'NATURAL JOIN', 'SET', 'VALUES', 'RETURNING', 'INTO', 'FETCH', 'FOR', 'WINDOW',
             'AS', 'AND', 'OR', 'WHEN', 'THEN', 'ELSE', 'END', 'SELECT', 'ASC', 'DESC', 'TABLESAMPLE', 'QUALIFY', 'PIVOT', 'LATERAL']


def check_followers(ctx, V):
    ctx.rule('R12.7', 'a clause word that can follow an object reference is lexed as a Keyword type (never as a name the aliasing pass accepts)', floor=40)
    kwloc = V.T.kwmod.relpath
    # the premise: group_aliased accepts an Identifier as the implicit alias
    ga = ctx.repo.func('sqlparse.engine.grouping.group_aliased')
    premise = any(isinstance(n, ast.Call) and is_name(n.func, 'isinstance') and len(n.args) == 2 and 'Identifier' in src(n.args[1])
                  for n in own_nodes(ga.node))
    ctx.need(premise, 'group_aliased no longer accepts an Identifier as implicit alias (rule R12.7 needs re-reading)')
    for w in FOLLOWERS:
        types, broken = V.emit_types(w)
        bad = sorted(repr(t) for t in types if t[:1] != ('Keyword',))
        ctx.ob('R12.7', f'follower:{w}', kwloc, f'{w} after a reference is lexed as one Keyword token', not bad and not broken and bool(types),
               (f'lexed as {bad}: ' if bad else f'not one token in {broken[:2]}: ') +
               f'`from t {w.lower()} ...` gives the reference t the alias {w} (get_alias() / get_name() return {w!r}, has_alias() is True)')


def check_name_after_period(ctx, V):
    """`qualifier.name`: the word behind the period is a name whatever it spells.  For every word of the keyword dictionaries and of
    the dedicated keyword rules, `t.<word>` must lex as Name, Punctuation, Name -- a later rule cannot help when an earlier keyword
    rule takes the word first (table order)."""
    T = V.T
    ctx.rule('R12.8', 'a word directly behind a period is lexed as a name, whatever keyword it spells', floor=1)
    words = set()
    for _, d in T.kw:
        words |= {w for w in d if ' ' not in w and w.isidentifier()}
    for r in T.lex:
        for w in (V.rule_words.get(r.index) or ()):
            if ' ' not in w and w.isidentifier():
                words.add(w)
    NAME = TT(('Name',))
    bad = {}
    for w in sorted(words):
        for sp in (w, w.lower()):
            text = 't.' + sp + ' x'
            r, end, tt = T.lex_one(text, 2)
            if not (end == 2 + len(sp) and isinstance(tt, TT) and NAME.contains(tt)):
                bad.setdefault(r.pattern if r is not None else '?', []).append(sp)
    kwloc = T.kwmod.relpath
    if not bad:
        ctx.ob('R12.8', 'after-period', kwloc, f'`t.<word>` is Name . Name for all {len(words)} words of the keyword tables, in upper and lower case', True)
    from .. import rx as RX
    for pat, sps in sorted(bad.items()):
        line = next((x.line for x in T.lex if x.pattern == pat), 0)
        ctx.ob('R12.8', f'after-period:rule={RX.canon_pattern(pat)}', f'{kwloc}:{line}', 'no keyword rule takes a word that directly follows a period', False,
               f'rule {pat!r} comes first for {sorted(set(x.upper() for x in sps))[:8]}: `select t.{sps[0]} from t` yields the Identifier `t.` and a stray keyword, '
               f'get_real_name() of the reference is None')


def check_remove_quotes(ctx):
    f = ctx.repo.func('sqlparse.utils.remove_quotes')
    p = f.params[0]
    loc = f'{f.mod.relpath}:{f.node.lineno}'
    ev = ME.Evaluator(ctx, f.mod)
    # evaluate the (pure string) function abstractly on representative quoted/unquoted names -- table agreement on constants
    cases = [('"a b"', 'a b'), ('`a`', 'a'), ('ab', 'ab'), ('"a', '"a'), ('a"', 'a"'), ('"a`', '"a`'), ('`x"y`', 'x"y'),
             ('"a\nb"', 'a\nb'), ('"A b.c"', 'A b.c'), ('"a""b"', 'a""b'), ('`a\r\nb`', 'a\r\nb'), ('"\u2028"', '\u2028')]
    import copy
    for inp, want in cases:
        try:
            node = copy.deepcopy(f.node)
            got = run_strfunc(ev, node, {p: inp})
        except (ME.Unsupported, ME.Unknown, ME.Crash) as e:
            ctx.ob('R12.1', f'case:{inp}', loc, 'remove_quotes evaluable', None, str(e))
            continue
        ctx.ob('R12.1', f'case:{inp}', loc, f'remove_quotes({inp!r}) == {want!r}', got == want,
               f'gives {got!r}: quotes are not removed / a non-matching pair is removed')
    try:
        got = run_strfunc(ev, copy.deepcopy(f.node), {p: None})
        ok = got is None
    except Exception as e:
        ok, got = False, str(e)
    ctx.ob('R12.1', 'case:None', loc, 'remove_quotes(None) is None', ok, f'gives {got!r}')


def run_strfunc(ev, fnode, env):
    """remove_quotes uses slicing: extend the evaluator locally"""
    class Ret(Exception):
        def __init__(self, v):
            self.v = v

    def e(n, env):
        if isinstance(n, ast.Subscript) and isinstance(n.slice, ast.Slice):
            b = e(n.value, env)
            lo = e(n.slice.lower, env) if n.slice.lower is not None else None
            hi = e(n.slice.upper, env) if n.slice.upper is not None else None
            return b[lo:hi]
        if isinstance(n, ast.Subscript):
            b = e(n.value, env)
            i = e(n.slice, env)
            try:
                return b[i]
            except (IndexError, TypeError) as x:
                raise ME.Crash(str(x))
        if isinstance(n, ast.BoolOp):
            last = None
            for v in n.values:
                last = e(v, env)
                if isinstance(n.op, ast.And) and not last:
                    return last
                if isinstance(n.op, ast.Or) and last:
                    return last
            return last
        if isinstance(n, ast.Compare):
            left = e(n.left, env)
            for op, rn in zip(n.ops, n.comparators):
                right = e(rn, env)
                if not ev.cmp(op, left, right):
                    return False
                left = right
            return True
        if isinstance(n, ast.UnaryOp) and isinstance(n.op, ast.USub):
            return -e(n.operand, env)
        if isinstance(n, ast.UnaryOp) and isinstance(n.op, ast.Not):
            return not e(n.operand, env)
        if isinstance(n, ast.Name) and n.id in env:
            return env[n.id]
        if isinstance(n, ast.Name):
            try:
                return ev.folder.eval(n, ev.mod)
            except Exception:
                raise ME.Unsupported(src(n))
        if isinstance(n, (ast.Tuple, ast.List)):
            return tuple(e(x, env) for x in n.elts)
        if isinstance(n, ast.Constant):
            return n.value
        if isinstance(n, ast.Call) and isinstance(n.func, ast.Attribute) and n.func.attr in ('startswith', 'endswith', 'strip'):
            return getattr(e(n.func.value, env), n.func.attr)(*[e(a, env) for a in n.args])
        if isinstance(n, ast.Call) and is_name(n.func, 'len'):
            return len(e(n.args[0], env))
        if isinstance(n, ast.IfExp):
            return e(n.body if e(n.test, env) else n.orelse, env)
        if isinstance(n, ast.Attribute):
            try:
                return ev.folder.eval(n, ev.mod)
            except Exception:
                raise ME.Unsupported(src(n))
        if isinstance(n, ast.Call) and isinstance(n.func, ast.Attribute) and n.func.attr in ('match', 'search', 'fullmatch', 'sub'):
            # a regex constant of the source applied to a string constant (table agreement)
            import re as _re
            from ..fold import Rx
            nflag = 4 if n.func.attr == 'sub' else 2
            is_re = src(n.func.value) == 're'
            args = [e(a, env) for a in (n.args[:nflag] if is_re else n.args)]
            if is_re and args and isinstance(args[0], str):
                flags = ev.folder._flags(n.args[nflag], ev.mod) if len(n.args) > nflag else 0
                for k in n.keywords:
                    if k.arg == 'flags':
                        flags = ev.folder._flags(k.value, ev.mod)
                rx_, rest = _re.compile(args[0], flags), args[1:3] if n.func.attr == 'sub' else args[1:2]
            else:
                base = e(n.func.value, env)
                if not isinstance(base, Rx):
                    raise ME.Unsupported(src(n))
                rx_, rest = _re.compile(base.pattern, base.flags), args
            if not all(isinstance(a, str) for a in rest):
                raise ME.Unsupported(src(n))
            return getattr(rx_, n.func.attr)(*rest)
        if isinstance(n, ast.Call) and isinstance(n.func, ast.Attribute) and n.func.attr in ('group', 'groups', 'start', 'end'):
            import re as _re
            base = e(n.func.value, env)
            if base is None:
                raise ME.Crash(f'.{n.func.attr} of None')
            if not isinstance(base, _re.Match):
                raise ME.Unsupported(src(n))
            return getattr(base, n.func.attr)(*[e(a, env) for a in n.args])
        raise ME.Unsupported(src(n))

    def block(stmts, env):
        for s in stmts:
            if isinstance(s, ast.Return):
                raise Ret(e(s.value, env) if s.value is not None else None)
            elif isinstance(s, ast.If):
                block(s.body if e(s.test, env) else s.orelse, env)
            elif isinstance(s, ast.Assign) and is_name(s.targets[0]):
                env[s.targets[0].id] = e(s.value, env)
            elif isinstance(s, ast.Expr) and isinstance(s.value, ast.Constant):
                pass
            else:
                raise ME.Unsupported(src(s))
    try:
        block(fnode.body, env)
    except Ret as r:
        return r.v
    return None


def check_name_types(ctx, V):
    repo, folder = ctx.repo, ctx.folder
    T = V.T
    # name spellings in the lexer output
    for text, want, what in [('foo ', NAME, 'unquoted word'), ('`foo bar` ', NAME, 'backtick name'), ('"foo bar" ', SYMBOL, 'double-quoted name')]:
        r, end, tt = T.lex_one(text, 0)
        ctx.ob('R12.2', f'lexer:{what}', T.kwmod.relpath, f'{what} {text.strip()!r} is one token of type {want!r}', tt == want and end == len(text) - 1,
               f'lexed as {tt!r} up to {end}')
    # acceptors
    gi = repo.func('sqlparse.engine.grouping.group_identifier')
    env = {}
    for s in gi.node.body:
        if isinstance(s, ast.Assign) and is_name(s.targets[0]):
            v = folder.try_eval(s.value, gi.mod)
            if v is not None:
                env[s.targets[0].id] = v
    tys = None
    for n in own_nodes(gi.node):
        if isinstance(n, ast.Call) and isinstance(n.func, ast.Attribute) and n.func.attr == 'token_next_by':
            for k in n.keywords:
                if k.arg == 't':
                    tys = folder.try_eval(k.value, gi.mod, env)
    tys = tuple(tys) if isinstance(tys, (tuple, list)) and not isinstance(tys, TT) else ((tys,) if tys is not None else ())
    for want in (NAME, SYMBOL):
        ok = any(isinstance(t, TT) and t.contains(want) for t in tys)
        ctx.ob('R12.2', f'group_identifier:{want!r}', f'{gi.mod.relpath}:{gi.node.lineno}', f'group_identifier wraps {want!r} tokens into an Identifier', ok,
               f'lookup types {tys}: such a name never becomes an Identifier, so it has no accessors')
    gf = repo.func('sqlparse.sql.TokenList._get_first_name')
    lst = None
    for s in gf.node.body:
        if isinstance(s, ast.Assign) and is_name(s.targets[0], 'types'):
            lst = folder.try_eval(s.value, gf.mod)
    for want in (NAME, SYMBOL):
        ok = lst is not None and any(isinstance(t, TT) and tuple(t) == tuple(want) for t in lst)
        ctx.ob('R12.2', f'_get_first_name:{want!r}', f'{gf.mod.relpath}:{gf.node.lineno}', f'_get_first_name returns the text of a {want!r} child', ok,
               f'types {lst}')
    gp = repo.func('sqlparse.engine.grouping.group_period')
    vp = gp.nested.get('valid_prev')
    ctx.need(vp is not None, 'group_period.valid_prev not found')
    ev = ME.Evaluator(ctx, gp.mod)
    for want, val in ((NAME, 'foo'), (SYMBOL, '"foo"')):
        k = ME.AbsToken(repo, want, val)
        try:
            got = bool(ME.run_function(ev, vp.node, {vp.params[0]: k}))
        except (ME.Unsupported, ME.Unknown, ME.Crash) as e:
            got = None
        ctx.ob('R12.2', f'group_period.valid_prev:{want!r}', f'{gp.mod.relpath}:{vp.node.lineno}', f'a {want!r} token is accepted as qualifier before "."', got,
               f'valid_prev gives {got}: qualifier.name is not grouped, get_parent_name() is lost')
    KW, P = TT(('Keyword',)), TT(('Punctuation',))
    ok = V.emit_types('AS', contexts=[' ', '\n', '('])[0] == {KW}
    ctx.ob('R12.2', 'lexer:AS', T.kwmod.relpath, 'AS is always lexed as exactly Keyword (also before a parenthesis)', ok, f'{V.emit_types("AS", contexts=[" ", chr(10), "("])}')
    r, end, tt = T.lex_one('.x', 0)
    ctx.ob('R12.2', 'lexer:.', T.kwmod.relpath, '"." is lexed as Punctuation', tt == P and end == 1, f'{tt!r}')


ACCESSORS = ['sqlparse.sql.NameAliasMixin.get_real_name', 'sqlparse.sql.NameAliasMixin.get_alias', 'sqlparse.sql.TokenList.get_name',
             'sqlparse.sql.TokenList.get_parent_name', 'sqlparse.sql.TokenList._get_first_name', 'sqlparse.sql.TokenList.has_alias',
             'sqlparse.sql.TokenList.get_alias', 'sqlparse.sql.TokenList.get_real_name']
BUILDERS = ['sqlparse.engine.grouping.group_period', 'sqlparse.engine.grouping.group_as', 'sqlparse.engine.grouping.group_aliased',
            'sqlparse.engine.grouping.group_identifier']


def check_lookups(ctx):
    repo, folder = ctx.repo, ctx.folder
    n = 0
    for q in ACCESSORS + BUILDERS:
        f = repo.func(q)
        nodes = own_nodes(f.node)
        for c in nodes:
            if isinstance(c, ast.Call) and isinstance(c.func, ast.Attribute) and c.func.attr in ('token_next', 'token_prev'):
                n += 1
                kw = {k.arg: k.value for k in c.keywords}
                sw = kw.get('skip_ws', c.args[1] if len(c.args) > 1 else None)
                ok = sw is None or (isinstance(sw, ast.Constant) and sw.value is True)
                how = ''
                if not ok and q in ACCESSORS:
                    # a look at the direct neighbour ("is there a separator?") is not wrong by itself: whether the results depend on the
                    # whitespace is decided on the interpreted trees (four kinds of whitespace, around the period, in front of the alias)
                    sim = accessor_simulation(ctx)
                    if sim is not None and all(sim.values()):
                        ok, how = True, ' (skip_ws=False; the interpreted Identifier trees give the written results with every kind of whitespace, R12.9)'
                ctx.ob('R12.3', f'{f.short}:{src(c)}', f'{f.mod.relpath}:{c.lineno}', f'`{src(c)}` skips whitespace' + how, ok,
                       'the result depends on the surrounding whitespace')
            # whitespace tests by identity
            if isinstance(c, ast.Compare) and len(c.ops) == 1 and isinstance(c.ops[0], (ast.Is, ast.IsNot, ast.Eq, ast.NotEq)):
                for side in (c.left, c.comparators[0]):
                    if folder.try_eval(side, f.mod) == WS:
                        n += 1
                        ctx.ob('R12.3', f'{f.short}:{src(c)}', f'{f.mod.relpath}:{c.lineno}', 'whitespace is recognised by type containment', False,
                               f'`{src(c)}` tests identity/equality with T.Whitespace: a line break (Whitespace.Newline) before the alias is not '
                               'whitespace for this test, so the alias is lost')
            # whitespace lookups by type: t=T.Whitespace (containment) is fine
            if isinstance(c, ast.Call) and isinstance(c.func, ast.Attribute) and c.func.attr == 'token_next_by':
                for k in c.keywords:
                    if k.arg == 't' and folder.try_eval(k.value, f.mod) == WS:
                        n += 1
                        ctx.ob('R12.3', f'{f.short}:{src(c)}', f'{f.mod.relpath}:{c.lineno}', 'whitespace lookup uses type containment (t=T.Whitespace)', True)
    ctx.need(n >= 2, f'only {n} lookup sites found in the identifier accessors')


def check_alias(ctx):
    repo = ctx.repo
    cg = get_cg(ctx)
    f = repo.func('sqlparse.sql.NameAliasMixin.get_alias')
    text = src(f.node)
    loc = f'{f.mod.relpath}:{f.node.lineno}'
    as_branch = any(isinstance(n, ast.Call) and isinstance(n.func, ast.Attribute) and n.func.attr == 'token_next_by'
                    and any(k.arg == 'm' and ctx.folder.try_eval(k.value, f.mod) == (TT(('Keyword',)), 'AS') for k in n.keywords)
                    for n in own_nodes(f.node))
    ctx.ob('R12.4', 'get_alias:AS-branch', loc, 'get_alias looks for (Keyword, AS) and returns the first name after it', as_branch, '')
    rev = any(isinstance(n, ast.Call) and is_attr(n.func, '_get_first_name', 'self') and any(k.arg == 'reverse' for k in n.keywords)
              for n in own_nodes(f.node))
    sim = accessor_simulation(ctx)
    sim_alias = sim is not None and sim.get('get_alias') and sim.get('has_alias')
    ctx.ob('R12.4', 'get_alias:implicit-branch', loc, 'get_alias has an implicit-alias branch (last name of the identifier)' +
           ('' if rev else ' (written differently; aliases without AS are returned on the interpreted trees, R12.9)'), rev or bool(sim_alias), '')
    for q in ACCESSORS:
        m = repo.func(q)
        reach = cg.reachable([q])
        bad = []
        for r in sorted(reach):
            g = repo.funcs[r]
            if g.name == '__init__':
                continue
            for e in effects_of(g, cg):
                if e.kind in ('list-mut', 'tokens-rebind', 'tree-api') or (e.kind == 'attr-store') or (e.kind == 'construct' and e.attr != 'Token'):
                    bad.append(f'{g.short}: {e.detail}')
        ctx.ob('R12.4', f'effect-free:{m.short}', f'{m.mod.relpath}:{m.node.lineno}', f'{m.short} has no tree effect', not bad, f'{bad[:2]}')


def check_wiring(ctx):
    """which helper each accessor calls, and from where the search starts (index expressions compared as linear forms)"""
    from ..astutil import lin_diff
    repo, folder = ctx.repo, ctx.folder
    P = TT(('Punctuation',))
    KW = TT(('Keyword',))

    def lookups(f, mval):
        out = []
        for n in own_nodes(f.node):
            if isinstance(n, ast.Assign) and isinstance(n.targets[0], ast.Tuple) and isinstance(n.value, ast.Call) \
                    and isinstance(n.value.func, ast.Attribute) and n.value.func.attr == 'token_next_by':
                for k in n.value.keywords:
                    if k.arg == 'm' and folder.try_eval(k.value, f.mod) == mval:
                        out.append(n.targets[0].elts[0].id if isinstance(n.targets[0].elts[0], ast.Name) else None)
        return out

    def first_name_calls(f):
        return [n for n in own_nodes(f.node) if isinstance(n, ast.Call) and is_attr(n.func, '_get_first_name', 'self')]
    # get_real_name: search from the dot, real_name=True
    f = repo.func('sqlparse.sql.NameAliasMixin.get_real_name')
    dots = lookups(f, (P, '.'))
    calls = first_name_calls(f)
    ok = len(dots) == 1 and len(calls) == 1 and calls[0].args and is_name(calls[0].args[0], dots[0]) \
        and any(k.arg == 'real_name' and isinstance(k.value, ast.Constant) and k.value.value is True for k in calls[0].keywords) \
        and not any(k.arg in ('reverse', 'keywords') for k in calls[0].keywords)
    ctx.ob('R12.6', 'get_real_name', f'{f.mod.relpath}:{f.node.lineno}',
           'get_real_name returns the first name found from the first "." on (or from the start if there is none), asking sub-identifiers for their real name', ok,
           f'calls {[src(c) for c in calls]}: the qualifier or the alias is returned instead of the object name')
    # get_alias: AS branch searches from the child after AS, keywords allowed; implicit branch searches from the end
    f = repo.func('sqlparse.sql.NameAliasMixin.get_alias')
    ass = lookups(f, (KW, 'AS'))
    calls = first_name_calls(f)
    g = Guards(f.node)
    as_ok = impl_ok = False
    for c in calls:
        kws = {k.arg: k.value for k in c.keywords}
        if c.args and ass and lin_diff(c.args[0], ast.Name(id=ass[0], ctx=ast.Load())) == {'': 1} and 'reverse' not in kws:
            as_ok = True
        if not c.args and isinstance(kws.get('reverse'), ast.Constant) and kws['reverse'].value is True:
            facts = [e for e, p_ in g.facts(c) if e != '|' and p_]
            impl_ok = any('len(self.tokens) > 2' in e for e in facts) and any(e.endswith('is None') is False for e in facts)
    ctx.ob('R12.6', 'get_alias:after-AS', f'{f.mod.relpath}:{f.node.lineno}', 'with AS the alias is the first name after the AS keyword (search starts at its index + 1)', as_ok,
           f'calls {[src(c) for c in calls]}')
    sim = accessor_simulation(ctx)
    sim_alias = sim is not None and sim.get('get_alias') and sim.get('has_alias')
    ctx.ob('R12.6', 'get_alias:implicit-from-end', f'{f.mod.relpath}:{f.node.lineno}',
           'without AS the alias is the last name of an identifier with more than two children' +
           ('' if impl_ok else ' (written differently; decided on the interpreted trees, R12.9)'), impl_ok or bool(sim_alias), f'calls {[src(c) for c in calls]}')
    # get_parent_name: token before the first dot, quotes removed
    f = repo.func('sqlparse.sql.TokenList.get_parent_name')
    dots = lookups(f, (P, '.'))
    prevs = [n for n in own_nodes(f.node) if isinstance(n, ast.Call) and is_attr(n.func, 'token_prev', 'self')]
    rq = [n for n in own_nodes(f.node) if isinstance(n, ast.Call) and is_name(n.func, 'remove_quotes')]
    ok = len(dots) == 1 and len(prevs) == 1 and prevs[0].args and is_name(prevs[0].args[0], dots[0]) and len(rq) == 1 \
        and isinstance(rq[0].args[0], ast.Attribute) and rq[0].args[0].attr == 'value'
    ctx.ob('R12.6', 'get_parent_name', f'{f.mod.relpath}:{f.node.lineno}', 'get_parent_name is the unquoted value of the token before the first "."', ok,
           f'{[src(c) for c in prevs + rq]}')
    # get_name = alias or real name
    f = repo.func('sqlparse.sql.TokenList.get_name')
    from ..astutil import enum_paths, sym_path
    outs = set()
    for p_ in enum_paths(f.node.body):
        evs, env = sym_path(p_)
        for (k, s_, v, _) in evs:
            if k == 'stmt' and isinstance(s_, ast.Return):
                outs.add(src(v.value))
    ok = outs == {'self.get_alias() or self.get_real_name()'}
    rets = [n for n in own_nodes(f.node) if isinstance(n, ast.Return)]
    ctx.ob('R12.6', 'get_name', f'{f.mod.relpath}:{f.node.lineno}', 'get_name is the alias if present, else the real name', ok, f'{src(rets[0].value) if rets else None}')
    f = repo.func('sqlparse.sql.TokenList.has_alias')
    outs = set()
    for p_ in enum_paths(f.node.body):
        evs, env = sym_path(p_)
        for (k, s_, v, _) in evs:
            if k == 'stmt' and isinstance(s_, ast.Return):
                outs.add(src(v.value))
    rets = [n for n in own_nodes(f.node) if isinstance(n, ast.Return)]
    ok = outs == {'self.get_alias() is not None'} or outs == {'not self.get_alias() is None'}
    ctx.ob('R12.6', 'has_alias', f'{f.mod.relpath}:{f.node.lineno}', 'has_alias is "get_alias() is not None"', ok, f'{src(rets[0].value) if rets else None}')
    # _get_first_name: slice from idx, reversed iff reverse, quotes removed, keywords only when asked
    f = repo.func('sqlparse.sql.TokenList._get_first_name')
    t = src(f.node)
    rq = [n for n in own_nodes(f.node) if isinstance(n, ast.Call) and is_name(n.func, 'remove_quotes')]
    gd = Guards(f.node)
    kwapp = [n for n in own_nodes(f.node) if isinstance(n, ast.Call) and isinstance(n.func, ast.Attribute) and n.func.attr == 'append'
             and folder.try_eval(n.args[0], f.mod) == KW]
    ok = len(rq) == 1 and kwapp and all(('keywords', True) in [a for a in gd.facts(n) if a[0] != '|'] for n in kwapp)
    ctx.ob('R12.6', '_get_first_name:keywords-only-on-request', f'{f.mod.relpath}:{f.node.lineno}',
           'keywords count as names only when the caller asks (alias after AS); the returned value has its quotes removed', bool(ok), '')


def accessor_simulation(ctx):
    """{accessor: True | False} from the interpretation (None when it is not evaluable); reports the R12.9 obligations once"""
    return ctx.shared('c12_accessor_simulation', lambda: check_accessor_simulation(ctx))


def check_accessor_simulation(ctx):
    """The accessors decided on concrete Identifier trees (the shapes grouping builds for `name`, `qualifier.name`, quoted forms, with an
    alias with or without AS, with any whitespace in between): get_real_name / get_parent_name / get_alias / get_name / has_alias are
    interpreted and must return the written name, qualifier, alias, alias-or-name and alias presence, quotes removed."""
    import itertools
    repo = ctx.repo
    ctx.rule('R12.9', 'identifier accessors interpreted on Identifier trees: written name, qualifier, alias, alias-or-name, alias presence', floor=1)
    ident = repo.classes.get('sqlparse.sql.Identifier')
    ctx.need(ident is not None, 'sqlparse.sql.Identifier not found')
    f0 = repo.lookup_method(ident, 'get_real_name')
    loc = f'{f0.mod.relpath}:{f0.node.lineno}' if f0 is not None else 'sqlparse/sql.py'
    NAME, SYM, PUN, WSP, NL, KW = TT(('Name',)), TT(('Literal', 'String', 'Symbol')), TT(('Punctuation',)), TT(('Text', 'Whitespace')), TT(('Text', 'Whitespace', 'Newline')), TT(('Keyword',))

    def leaf(tt, v):
        t_ = ME.AbsToken(repo, ttype=tt, value=v)
        t_.parent = None
        return t_

    def group(kids):
        g = ME.AbsToken(repo, cls=ident)
        g.tokens, g.parent, g.is_whitespace = kids, None, False
        g.value = ''.join(k.value for k in kids)
        for k in kids:
            k.parent = g
        return g
    names = [('x', NAME, 'x'), ('"My Col"', SYM, 'My Col'), ('`x y`', NAME, 'x y'), ('Tbl', NAME, 'Tbl')]
    quals = [None, ('q', NAME, 'q'), ('"Q s"', SYM, 'Q s'), ('`q`', NAME, 'q')]
    aliases = [None, ('a', NAME, 'a'), ('"An Alias"', SYM, 'An Alias'), ('`al`', NAME, 'al')]
    spaces = [[(WSP, ' ')], [(NL, '\n')], [(WSP, ' '), (WSP, ' ')], [(NL, '\n'), (WSP, ' '), (WSP, ' ')]]
    bad = {}
    n = 0
    CM = TT(('Comment', 'Multiline'))
    comment_cls = repo.classes.get('sqlparse.sql.Comment')
    # whitespace around the period of a qualified name (before, after, both) and a comment that grouping attached behind the reference
    dots = [([], []), ([(WSP, ' ')], []), ([], [(WSP, ' ')]), ([(WSP, ' ')], [(NL, '\n')])]
    for (nm, qu, al, with_as, dot, trailing) in itertools.product(names, quals, aliases, (False, True), dots, (False, True)):
        if al is None and with_as:
            continue
        if (dot != dots[0] and qu is None) or ((dot != dots[0] or trailing) and (nm is not names[0] and nm is not names[1])):
            continue
        for sp in (spaces if al is not None else [[]]):
            if (dot != dots[0] or trailing) and sp not in ([], spaces[0]):
                continue
            kids = []
            if qu is not None:
                kids += [leaf(qu[1], qu[0])] + [leaf(*s_) for s_ in dot[0]] + [leaf(PUN, '.')] + [leaf(*s_) for s_ in dot[1]]
            kids.append(leaf(nm[1], nm[0]))
            if al is not None:
                kids += [leaf(*s_) for s_ in sp]
                if with_as:
                    kids += [leaf(KW, 'as')] + [leaf(*s_) for s_ in sp]
                kids.append(group([leaf(al[1], al[0])]))
            if trailing:
                cg_ = ME.AbsToken(repo, cls=comment_cls)
                ck_ = [leaf(CM, '/* c */')]
                cg_.tokens, cg_.parent, cg_.is_whitespace, cg_.value = ck_, None, False, '/* c */'
                ck_[0].parent = cg_
                kids += [leaf(WSP, ' '), cg_]
            node = group(kids)
            want = {'get_real_name': nm[2], 'get_parent_name': qu[2] if qu else None, 'get_alias': al[2] if al else None,
                    'get_name': al[2] if al else nm[2], 'has_alias': al is not None}
            for acc, w in want.items():
                ev = ME.Evaluator(ctx, repo.mod('sqlparse.sql'), ident)
                ev.effects = True
                try:
                    m_ = ev._method_of(node, acc)
                    got = m_() if m_ is not None else 'no such method'
                except (ME.Unsupported, ME.Unknown) as e:
                    ctx.ob('R12.9', 'simulation', loc, 'the identifier accessors are evaluable', None, f'{node.value!r}.{acc}(): {e}')
                    return None
                except ME.Crash as e:
                    got = f'raises {e}'
                n += 1
                if got != w:
                    bad.setdefault(acc, []).append(f'{node.value!r}.{acc}() = {got!r}, written {w!r}')
    ctx.info['accessor_simulated_calls'] = n
    if not bad:
        ctx.ob('R12.9', 'simulation', loc, f'{n} accessor calls on Identifier trees (name / qualifier.name, plain, double-quoted and back-quoted, alias with and '
               'without AS, four kinds of whitespace in between, whitespace around the period, a comment attached behind the reference): every accessor returns what is written', True)
    for acc, items in sorted(bad.items()):
        ctx.ob('R12.9', f'simulation:{acc}', loc, f'{acc}() returns what is written on every interpreted Identifier tree', False, f'{len(items)} call(s) differ, e.g. {items[:3]}')
    return {acc: acc not in bad for acc in ('get_real_name', 'get_parent_name', 'get_alias', 'get_name', 'has_alias')}


def check_wrapping_order(ctx):
    """Object references inside a parenthesised subquery become Identifiers through group_identifier / group_as / group_aliased, and none of
    those passes descends into an Identifier that exists already.  A pass that runs *before* them and wraps a whole Parenthesis into an
    Identifier (as the left or right operand of `.`, `::`, `[..]`, AT TIME ZONE ...) therefore hides every reference in that subquery
    from them."""
    repo = ctx.repo
    ctx.rule('R12.10', 'no Identifier-building pass that runs before the reference passes takes a Parenthesis as its operand', floor=1)
    grp = repo.func('sqlparse.engine.grouping.group')
    lists = [n for n in own_nodes(grp.node) if isinstance(n, ast.List) and len(n.elts) > 5]
    ctx.need(lists, 'grouping.group: pass list not found')
    order = [e.id for e in lists[0].elts if isinstance(e, ast.Name)]
    ref_passes = [p for p in ('group_identifier', 'group_as', 'group_aliased') if p in order]
    ctx.need(ref_passes, 'reference passes not found in the pass order')
    # the passes that build Identifiers out of names / `x AS y` and skip existing Identifiers: group_identifier (@recurse(Identifier)) and
    # group_as (_group with cls=Identifier); group_aliased descends everywhere.  _group handles the inside of a group before it looks at
    # the group's own level, so group_as wrapping `c AS (...)` itself is harmless.
    skipping = [p for p in ('group_identifier', 'group_as') if p in order]
    par = repo.classes.get('sqlparse.sql.Parenthesis')
    ident = repo.classes.get('sqlparse.sql.Identifier')
    tok = ME.AbsToken(repo, cls=par)
    n = 0
    for cl in KD.group_clients(ctx):
        pname = cl.f.name
        if pname not in order or cl.cls is not ident:
            continue
        before = [p for p in skipping if p != pname and order.index(pname) < order.index(p)]
        if not before:
            continue
        for side, which in (('left', 'valid_prev'), ('right', 'valid_next')):
            r = cl.pred(which, tok)
            some = ME.AbsToken(repo, TT(('Name',)), KD.GENERIC)
            try:
                ap, an = cl.post_absorbs(tok if side == 'left' else some, some, tok if side == 'right' else some)
            except Exception:
                ap, an = True, True
            takes = bool(r is True and (ap if side == 'left' else an))
            n += 1
            ctx.ob('R12.10', f'{cl.name}:{side}', f'{cl.f.mod.relpath}:{cl.call.lineno}',
                   f'{cl.name} (pass #{order.index(pname)}, before {before}) does not wrap a Parenthesis as its {side} operand', not takes,
                   f'{which}(<Parenthesis>) is True and post keeps that operand: `(select a x from t u){". f" if side == "left" else ""}` becomes one Identifier before the references inside '
                   f'the parenthesis are grouped, and no later pass descends into it: t u / a x are left as bare names without alias')
    ctx.need(n >= 2, f'only {n} operand checks')
