"""C13 -- clause nodes cover exactly the clause as written (thin: table/kind agreement)."""
import ast

from .. import kinds as KD
from .. import miniev as ME
from .. import vocab as VC
from ..astutil import Guards, src, is_name, is_attr, local_defs
from ..fold import TT, NotConst, ClsRef
from ..model import own_nodes
from ..tables import get_tables
from .c09 import check_where_end

EXPLANATION = (
    'Thin claim (necessary conditions that are visible in tables and shapes). R13.1: Where.M_CLOSE lists every closing '
    'keyword of the property, each is emitted by the lexer as one token of exactly type Keyword, and no longer fused '
    'token the lexer can emit (EXCEPT ALL, UNION DISTINCT ...) hides a listed closer; group_where ends the node before the '
    'closer and otherwise at the last groupable child. R13.2: IdentifierList.get_identifiers drops exactly whitespace and '
    'commas (evaluated on every token kind). R13.3: the kinds Function.get_parameters returns for a single argument agree '
    'with the kinds group_identifier_list accepts as a list item (sibling agreement). R13.4: the keywords of Case.get_cases, '
    'the TypedLiteral open/close/extend tables and Comparison.left/right are well typed against what the lexer emits. '
    'R13.5: grouping is total -- no size/depth cut-off in the drivers, the @recurse closure iterates get_sublists() unconditionally, '
    'descends into every group its class filter admits and applies the pass to every list; get_sublists yields every group child. '
    'Not decided: extents and contents of the nodes on arbitrary queries.')

CLOSERS = ['GROUP BY', 'ORDER BY', 'LIMIT', 'UNION', 'EXCEPT', 'HAVING', 'RETURNING', 'INTO']
KW = TT(('Keyword',))


def run(ctx):
    ctx.engines |= {'tables', 'kinds', 'paths'}
    ctx.rule('R13.1', 'Where closers: table covers the property list, exact Keyword type, no fused token hides a closer, node ends before the closer', floor=10)
    ctx.rule('R13.2', 'IdentifierList.get_identifiers drops exactly whitespace and commas', floor=20)
    ctx.rule('R13.3', 'kind agreement: every group class accepted as a list item is returned by Function.get_parameters for a single argument', floor=4)
    ctx.rule('R13.4', 'Case/TypedLiteral/Comparison tables are well typed against the lexer output', floor=10)
    KD.check_imt_shape(ctx)
    V = VC.get_vocab(ctx)
    check_where(ctx, V)
    check_get_identifiers(ctx, V)
    check_get_parameters(ctx)
    check_function_names(ctx)
    check_case_typed(ctx, V)
    check_list_item_kinds(ctx)
    # the written arguments, list items and operands include string literals, quoted names and comments next to them: those must reach
    # the grouping engine as single tokens (the region rules of the lexer, shared with C05/C14)
    from .. import rules_regions as RR
    ctx.rule('R13.10', 'string literals, quoted names and comments are single tokens whatever they contain (region rules of the lexer)', floor=10)
    RR.check_regions(ctx, 'R13.10', quick=True)
    check_where_simulation(ctx)
    check_cases_simulation(ctx)
    from .. import rules_tree as RT2
    ctx.rule('R13.5', 'grouping is total: no size/depth cut-off in the drivers and passes this property relies on', floor=1)
    RT2.check_recursion_coverage(ctx, 'R13.5', only={'group_where', 'group_identifier_list', 'group_functions', 'group_comparison', 'group_typed_literal', 'group_case', 'group_parenthesis', 'group_operator', 'group_aliased', 'group_as', 'group_identifier'})
    RT2.check_no_cutoff(ctx, 'R13.5', only={'_group', 'group_where', 'group_identifier_list', 'group_functions', 'group_comparison', 'group_typed_literal', '_group_matching'})
    # a typed literal (and an array index) is grouped with post = (tidx, nidx) / (pidx, tidx): the neighbour on the other side is
    # only looked at.  The joining driver must not refuse to group because that neighbour is the "(" or ")" of the enclosing group.
    from . import c09
    ctx.rule('R13.6', 'the joining driver groups a typed literal directly behind "(" / in front of ")": only neighbours taken into the group are protected delimiters', floor=3)
    c09.driver_simulation(ctx, ctx.repo.func('sqlparse.engine.grouping._group'), 'R13.6')
    from .. import rules_base as RB
    ctx.rule('R13.B', 'base model: token-type containment, token flags / normal form, Token.match and imt behave as the abstract evaluation assumes', floor=1)
    RB.check_base_model(ctx, 'R13.B', parts=('contains', 'flags', 'match', 'imt'))


def check_where(ctx, V):
    repo = ctx.repo
    c = repo.cls('sqlparse.sql.Where')
    node, owner = repo.lookup_class_attr(c, 'M_CLOSE')
    ctx.need(node is not None, 'Where.M_CLOSE not found')
    v = ctx.folder.eval(node, owner.mod, None, owner)
    pats = VC._as_patterns(v)
    loc = f'{c.mod.relpath}:{node.lineno}'
    words = set()
    for ttype, vals, rgx in pats:
        for w in vals or ():
            words.add(w.upper())
            types, broken = V.emit_types(w.upper(), contexts=[' ', '\n', ';'])
            ok = ttype == KW and types == {KW} and not broken
            ctx.ob('R13.1', f'M_CLOSE:{w}', loc, f'closer {w!r} is one token of exactly type Keyword', ok,
                   f'table type {ttype!r}; lexer types {types}; not one token in {[b[0] for b in broken[:2]]}: the WHERE clause runs over this keyword')
    for w in CLOSERS:
        ctx.ob('R13.1', f'listed:{w}', loc, f'{w!r} is in Where.M_CLOSE', w in words, f'{w!r} missing: the Where node swallows the following {w} clause')
    lits = VC.collect_matchlits(ctx)
    VC.check_shadowing(ctx, V, lits, 'R13.1', families={'Where closers', 'Having closers'})
    o, _ = repo.lookup_class_attr(c, 'M_OPEN')
    vo = ctx.folder.eval(o, c.mod, None, c)
    ok = VC._as_patterns(vo) == [(KW, ('WHERE',), False)] and V.emit_types('WHERE', contexts=[' ', '\n'])[0] == {KW}
    ctx.ob('R13.1', 'M_OPEN:WHERE', loc, 'WHERE opens the node and is lexed as Keyword', ok, f'{vo}')
    # group_where: closer found -> end = tokens[eidx - 1]
    f = repo.func('sqlparse.engine.grouping.group_where')
    tl = f.params[0]
    defs = local_defs(f.node)
    ok = False
    detail = ''
    calls = [n for n in own_nodes(f.node) if isinstance(n, ast.Call) and is_attr(n.func, 'group_tokens', tl)]
    if len(calls) == 1:
        gc = calls[0]
        cls_ok = isinstance(ctx.folder.try_eval(gc.args[0], f.mod), ClsRef) and ctx.folder.eval(gc.args[0], f.mod).cls.name == 'Where'
        # the end token in the closer-found arm
        ends = [d for d in defs.get('end', []) if isinstance(d, ast.Subscript)]
        arm = [src(d) for d in ends]
        ok = cls_ok and f'{tl}.tokens[eidx - 1]' in arm and 'include_end' not in [k.arg for k in gc.keywords]
        detail = f'end candidates {arm}; call `{src(gc)}`'
        # simplified index form: group_tokens(sql.Where, tidx, eidx - 1)
        if not ok and cls_ok:
            from ..astutil import lin_diff
            ok = any(isinstance(d, ast.BinOp) for d in defs.get('eidx', []) if isinstance(d, ast.AST)) and False
    ctx.ob('R13.1', 'group_where:ends-before-closer', f'{f.mod.relpath}:{f.node.lineno}',
           'with a closing keyword at index eidx the Where node ends at index eidx - 1 (closer not included)', ok, detail)
    check_where_end(ctx, 'R13.1')


def check_get_identifiers(ctx, V):
    repo = ctx.repo
    f = repo.func('sqlparse.sql.IdentifierList.get_identifiers')
    loops = [s for s in f.node.body if isinstance(s, ast.For)]
    ctx.need(len(loops) == 1 and is_attr(loops[0].iter, 'tokens', 'self') and isinstance(loops[0].target, ast.Name),
             'IdentifierList.get_identifiers no longer iterates self.tokens')
    lp = loops[0]
    tv = lp.target.id
    body = lp.body
    stray = [n for s_ in f.node.body if s_ is not lp for n in ast.walk(s_) if isinstance(n, (ast.Yield, ast.YieldFrom))]
    ctx.need(not stray, 'IdentifierList.get_identifiers yields outside its loop over self.tokens')
    kinds = KD.leaf_kinds(ctx, V.T) + [ME.AbsToken(repo, cls=c) for c in KD.group_classes(ctx)]
    for k in kinds:
        want = not (k.is_whitespace or (k.ttype == TT(('Punctuation',)) and k.value == ','))
        # one iteration of the loop body is interpreted on the abstract token: which tokens does it yield?
        out = []
        ev = ME.Evaluator(ctx, f.mod, f.cls)
        ev.on_yield = out.append
        try:
            ME.run_function(ev, ast.FunctionDef(name='it', body=body, args=None), {tv: k, 'self': ME.Obj(_cls=f.cls)})
            got = (len(out) == 1 and out[0] is k) if out else False
            extra = len(out) > 1 or (out and out[0] is not k)
        except (ME.Unknown, ME.Unsupported) as e:
            ctx.ob('R13.2', f'kind:{k.label}', f'{f.mod.relpath}:{lp.lineno}', 'filter decidable on this kind', None, str(e))
            continue
        except ME.Crash as e:
            got, extra = f'crash {e}', False
        ctx.ob('R13.2', f'kind:{k.label}', f'{f.mod.relpath}:{lp.lineno}',
               f'get_identifiers {"yields" if want else "drops"} a {k.label} item', got == want and not extra,
               f'one iteration on {k.label} yields {[getattr(x, "label", x) for x in out]} ({got}): a written list item is dropped, or a separator is returned as an item')


FUNCTION_NAME_TYPES = [TT(('Name',)), TT(('Name', 'Builtin'))]


def check_function_names(ctx):
    """R13.3: the lookup group_functions uses to find the name of a call accepts every type the lexer gives to a word that can be
    followed by `(`: plain names (also every keyword directly before `(`, via the rule `[A-Z]\\w*(?=\\()`) and builtin type names when a
    blank separates them from the parenthesis (`date (x)`, `char (65)`).  A tuple passed as t= compares by equality, a single type by
    containment: `(T.Name, T.Name.Placeholder)` accepts fewer tokens than `T.Name`."""
    repo = ctx.repo
    f = repo.func('sqlparse.engine.grouping.group_functions')
    lookups = [n for n in own_nodes(f.node, include_lambdas=False) if isinstance(n, ast.Call) and isinstance(n.func, ast.Attribute)
               and n.func.attr == 'token_next_by' and any(k.arg in ('t', 'm', 'i') for k in n.keywords)]
    env = {}
    for s_ in f.node.body:
        if isinstance(s_, ast.Assign) and is_name(s_.targets[0]):
            try:
                env[s_.targets[0].id] = ctx.folder.eval(s_.value, f.mod, env)
            except NotConst:
                pass
    name_lookups = []
    for c in lookups:
        kw = {}
        try:
            for k in c.keywords:
                if k.arg in ('t', 'm', 'i'):
                    v_ = ctx.folder.eval(k.value, f.mod, env)
                    if v_ is not None:
                        kw[k.arg] = v_
        except NotConst:
            continue
        if 't' in kw and 'm' not in kw:
            name_lookups.append((c, kw))
    ctx.need(name_lookups, 'group_functions: no token_next_by(t=...) lookup of the function name found')
    ev = ME.Evaluator(ctx, f.mod)
    for c, kw in name_lookups:
        for tt in FUNCTION_NAME_TYPES:
            tok = ME.AbsToken(repo, ttype=tt, value='date')
            got = ev.imt(tok, i=kw.get('i'), t=kw.get('t'))
            ctx.ob('R13.3', f'function-name:{tt!r}:{c.lineno - f.node.lineno}', f'{f.mod.relpath}:{c.lineno}',
                   f'`{src(c)[:60]}` finds a {tt!r} token as the name of a call', got,
                   f't={kw.get("t")}: a {tt!r} word followed by a blank and "(" (e.g. `date (a, b)`) is not a candidate, so no Function node is built '
                   'and get_parameters() is unavailable (a tuple of types matches by equality, not containment)')


def check_get_parameters(ctx):
    repo = ctx.repo
    f = repo.func('sqlparse.sql.Function.get_parameters')
    g = repo.func('sqlparse.engine.grouping.group_identifier_list')
    # list-item classes: the `i=` classes of group_identifier_list.valid
    env = {}
    for s in g.node.body:
        if isinstance(s, ast.Assign) and is_name(s.targets[0]):
            try:
                env[s.targets[0].id] = ctx.folder.eval(s.value, g.mod, env)
            except NotConst:
                pass
    item_classes = None
    for n in ast.walk(g.node):
        if isinstance(n, ast.Call) and is_name(n.func, 'imt'):
            for k in n.keywords:
                if k.arg == 'i':
                    try:
                        item_classes = ctx.folder.eval(k.value, g.mod, env)
                    except NotConst:
                        pass
    ctx.need(item_classes, 'group_identifier_list no longer tests list items with imt(i=...)')
    items = [x.cls for x in item_classes if isinstance(x, ClsRef) and x.cls.name != 'IdentifierList']
    # get_parameters: the single-argument filter
    calls = [n for n in own_nodes(f.node) if isinstance(n, ast.Call) and is_name(n.func, 'imt')]
    ctx.need(len(calls) == 1, 'Function.get_parameters no longer filters single arguments with one imt(...) call')
    ev = ME.Evaluator(ctx, f.mod, f.cls)
    tokname = src(calls[0].args[0])
    loc = f'{f.mod.relpath}:{calls[0].lineno}'
    for c in items + [repo.cls('sqlparse.sql.TypedLiteral'), repo.cls('sqlparse.sql.Parenthesis')]:
        k = ME.AbsToken(repo, cls=c)
        try:
            got = ev.truth(ev.ev(calls[0], {tokname: k}))
        except (ME.Unknown, ME.Unsupported) as e:
            ctx.ob('R13.3', f'class:{c.name}', loc, 'filter decidable', None, str(e))
            continue
        ctx.ob('R13.3', f'class:{c.name}', loc,
               f'a single argument that is a {c.name} is returned by get_parameters (as it would be inside a list)', got,
               f'`{src(calls[0])}` rejects {c.name}: f(<{c.name.lower()}>) yields no parameter although f(x, <{c.name.lower()}>) yields it')
    check_get_parameters_sim(ctx, f, g, env)
    # multi-argument arm returns the list items
    rets = [n for n in own_nodes(f.node) if isinstance(n, ast.Return)]
    ok = any(isinstance(r.value, ast.Call) and isinstance(r.value.func, ast.Attribute) and r.value.func.attr == 'get_identifiers' for r in rets)
    ctx.ob('R13.3', 'list-arm', f'{f.mod.relpath}:{f.node.lineno}', 'for an IdentifierList argument get_parameters returns its identifiers', ok, '')


def check_get_parameters_sim(ctx, f, g, env):
    """f(<one argument>) decided by interpreting Function.get_parameters on the tree grouping builds for it: whatever kind of token
    can be an item of an argument list (the `t=` / `m=` / `i=` sets of group_identifier_list: literals, names, placeholders, `*`,
    NULL and other value keywords, and the expression groups) is also returned when it is the only argument."""
    repo = ctx.repo
    loc = f'{f.mod.relpath}:{f.node.lineno}'
    fn_cls, par_cls, id_cls, il_cls = (repo.classes.get(f'sqlparse.sql.{n}') for n in ('Function', 'Parenthesis', 'Identifier', 'IdentifierList'))
    ctx.need(all((fn_cls, par_cls, id_cls, il_cls)), 'sqlparse.sql classes not found')
    P, NAME, WSP = TT(('Punctuation',)), TT(('Name',)), TT(('Text', 'Whitespace'))

    def leaf(tt, v):
        t_ = ME.AbsToken(repo, ttype=tt, value=v)
        t_.parent = None
        return t_

    def group(cls, kids):
        gr = ME.AbsToken(repo, cls=cls)
        gr.tokens, gr.parent, gr.is_whitespace = kids, None, False
        gr.value = ''.join(k.value for k in kids)
        for k in kids:
            k.parent = gr
        return gr
    # the leaf kinds an argument list accepts as items (group_identifier_list), written as the lexer writes them
    sole = [('wildcard', TT(('Wildcard',)), '*'), ('placeholder', TT(('Name', 'Placeholder')), '?'), ('builtin name', TT(('Name', 'Builtin')), 'int'),
            ('integer', TT(('Literal', 'Number', 'Integer')), '1'), ('float', TT(('Literal', 'Number', 'Float')), '1.5'),
            ('string', TT(('Literal', 'String', 'Single')), "'s'"), ('quoted name', TT(('Literal', 'String', 'Symbol')), '"s"'),
            ('keyword NULL', TT(('Keyword',)), 'null'), ('value keyword', TT(('Keyword',)), 'current_date')]
    tt_list = env.get('ttypes')
    m_role = env.get('m_role')
    evg = ME.Evaluator(ctx, g.mod, None)
    for label, tt, val in sole:
        arg = leaf(tt, val)
        # is this kind a possible list item at all? (imt with the sets of group_identifier_list)
        try:
            item = evg.imt(arg, None, m_role, tt_list)
        except (ME.Unknown, ME.Unsupported):
            item = True
        if not item:
            continue
        for pad in (False, True):
            kids = [leaf(P, '(')] + ([leaf(WSP, ' ')] if pad else []) + [arg] + ([leaf(WSP, ' ')] if pad else []) + [leaf(P, ')')]
            fn = group(fn_cls, [group(id_cls, [leaf(NAME, 'f')]), group(par_cls, kids)])
            ev = ME.Evaluator(ctx, f.mod, f.cls)
            ev.effects = True        # the local result list
            try:
                got = ME.run_function(ev, f.node, {f.params[0]: fn}, max_steps=500)
                got = list(got) if got is not None else None
            except (ME.Unsupported, ME.Unknown) as e:
                ctx.ob('R13.3', f'sole:{label}', loc, 'get_parameters evaluable', None, str(e))
                break
            except ME.Crash as e:
                got = f'crash: {e}'
            ok = isinstance(got, list) and len(got) == 1 and got[0] is arg
            if not ok or pad:
                ctx.ob('R13.3', f'sole:{label}' + (':padded' if pad else ''), loc,
                       f'f({"" if not pad else " "}{val}{"" if not pad else " "}) -- a {label}, which an argument list accepts as an item -- is returned as the one parameter', ok,
                       f'get_parameters returns {got if not isinstance(got, list) else [getattr(x, "value", x) for x in got]}: the written argument is dropped although f(x, {val}) yields it')
                if not ok:
                    break


def check_case_typed(ctx, V):
    repo = ctx.repo
    for w in ('CASE', 'WHEN', 'THEN', 'ELSE', 'END'):
        types, broken = V.emit_types(w, contexts=[' ', '\n'] if w != 'END' else [' ', '\n', ')', ';', ','])
        ok = types == {KW} and not broken
        ctx.ob('R13.4', f'case-keyword:{w}', 'sqlparse/keywords.py', f'{w} is lexed as one token of exactly type Keyword (Case.get_cases matches T.Keyword)', ok,
               f'types {types}; broken in {[b[0] for b in broken[:2]]}')
    f = repo.func('sqlparse.sql.Case.get_cases')
    used = set()
    for n in own_nodes(f.node):
        if isinstance(n, ast.Call) and isinstance(n.func, ast.Attribute) and n.func.attr == 'match' and len(n.args) == 2:
            tt = ctx.folder.try_eval(n.args[0], f.mod)
            w = ctx.folder.try_eval(n.args[1], f.mod)
            if tt == KW and isinstance(w, str):
                used.add(w)
    for w in ('WHEN', 'THEN', 'ELSE', 'END'):
        ctx.ob('R13.4', f'get_cases-handles:{w}', f'{f.mod.relpath}:{f.node.lineno}', f'Case.get_cases switches mode on {w}', w in used,
               f'{w} is not handled: the written {w} part is attributed to the wrong component')
    # mode machine of get_cases: WHEN opens a (condition, value) pair in CONDITION mode, THEN switches to VALUE,
    # ELSE opens a (None, value) pair in VALUE mode, END stops collecting
    consts = {}
    for s_ in f.node.body:
        if isinstance(s_, ast.Assign) and is_name(s_.targets[0]) and isinstance(s_.value, ast.Constant):
            consts[s_.targets[0].id] = s_.value.value
    loops = [s_ for s_ in f.node.body if isinstance(s_, ast.For)]
    want = {'WHEN': ('CONDITION', '([], [])'), 'THEN': ('VALUE', None), 'ELSE': ('VALUE', '(None, [])'), 'END': (None, None)}
    seen = {}
    if loops:
        gd = Guards(f.node)
        for n in ast.walk(loops[0]):
            if isinstance(n, ast.Assign) and is_name(n.targets[0], 'mode'):
                facts = [e for e, p_ in gd.facts(n) if e != '|' and p_]
                for w in want:
                    if any(e.endswith(f"match(T.Keyword, '{w}')") for e in facts):
                        val = src(n.value)
                        apps = [src(a.value.args[0]) for a in gd.stmt_of and [] or []]
                        seen[w] = val
            if isinstance(n, ast.Call) and isinstance(n.func, ast.Attribute) and n.func.attr == 'append' and is_name(n.func.value, 'ret'):
                facts = [e for e, p_ in gd.facts(n) if e != '|' and p_]
                for w in want:
                    if any(e.endswith(f"match(T.Keyword, '{w}')") for e in facts):
                        seen[w + ':append'] = src(n.args[0])
    for w, (mode, app) in want.items():
        got = seen.get(w)
        okm = (got == mode) or (mode is None and got == 'None') or (got is not None and consts.get(got) is not None and got == mode)
        oka = app is None or seen.get(w + ':append') == app
        ctx.ob('R13.4', f'get_cases-mode:{w}', f'{f.mod.relpath}:{f.node.lineno}',
               f'on {w}: mode becomes {mode}' + (f' and {app} is appended' if app else ''), bool(okm and oka),
               f'mode assigned: {got}, appended: {seen.get(w + ":append")}: the written {w} part lands in the wrong component')
    # TypedLiteral tables
    c = repo.cls('sqlparse.sql.TypedLiteral')
    ev = ME.Evaluator(ctx, c.mod, c)
    tabs = {a: ctx.folder.eval(repo.lookup_class_attr(c, a)[0], c.mod, None, c) for a in ('M_OPEN', 'M_CLOSE', 'M_EXTEND')}
    T = V.T
    loc = f'{c.mod.relpath}:{c.node.lineno}'
    for w in ('DATE', 'TIMESTAMP', 'INTERVAL'):
        r, end, tt = T.lex_one(w + " '", 0)
        k = ME.AbsToken(repo, tt, w)
        got = ev.imt(k, m=tabs['M_OPEN'])
        ctx.ob('R13.4', f'typed-open:{w}', loc, f"{w} (lexed as {tt!r} before a string) is accepted by TypedLiteral.M_OPEN", got and end == len(w),
               f'M_OPEN = {tabs["M_OPEN"]} does not match ({tt!r}, {w!r}): {w} \'...\' is not grouped as a TypedLiteral')
    r, end, tt = T.lex_one("'2001-09-28' ", 0)
    got = ev.imt(ME.AbsToken(repo, tt, "'2001-09-28'"), m=tabs['M_CLOSE'])
    ctx.ob('R13.4', 'typed-close:string', loc, 'a single-quoted string is accepted by TypedLiteral.M_CLOSE', got, f'{tabs["M_CLOSE"]} vs {tt!r}')
    for w in ('DAY', 'HOUR', 'MINUTE', 'MONTH', 'SECOND', 'YEAR'):
        r, end, tt = T.lex_one(w + ' ', 0)
        got = ev.imt(ME.AbsToken(repo, tt, w), m=tabs['M_EXTEND'])
        ctx.ob('R13.4', f'typed-extend:{w}', loc, f'unit {w} (lexed as {tt!r}) is accepted by TypedLiteral.M_EXTEND', got and end == len(w),
               f'{tabs["M_EXTEND"]} does not match ({tt!r}, {w!r})')
    # Comparison.left/right
    cc = repo.cls('sqlparse.sql.Comparison')
    for name, idx in (('left', '0'), ('right', '-1')):
        m = cc.methods.get(name)
        ok = m is not None and any(isinstance(r, ast.Return) and src(r.value) == f'self.tokens[{idx}]' for r in own_nodes(m.node))
        ctx.ob('R13.4', f'Comparison.{name}', f'{cc.mod.relpath}:{cc.node.lineno}', f'Comparison.{name} is self.tokens[{idx}]', ok, '')


def check_list_item_kinds(ctx):
    """`a comma-separated select or FROM list is one IdentifierList`: the joining pass builds it only between neighbours its `valid`
    predicate accepts.  Interpreted on every kind of expression that can stand as a list item: each must be accepted."""
    repo = ctx.repo
    g = repo.func('sqlparse.engine.grouping.group_identifier_list')
    loc = f'{g.mod.relpath}:{g.node.lineno}'
    ctx.rule('R13.7', 'every kind of expression that can be an item of a select / FROM / argument list is accepted by the list pass', floor=10)
    valid = g.nested.get('valid') or g.nested.get('valid_prev')
    ctx.need(valid is not None, 'group_identifier_list has no nested `valid` predicate')
    ev = ME.Evaluator(ctx, g.mod, None)
    genv = {}
    for s_ in g.node.body:
        if isinstance(s_, ast.Assign) and is_name(s_.targets[0]):
            try:
                genv[s_.targets[0].id] = ev.ev(s_.value, genv)
            except (ME.Unsupported, ME.Unknown):
                pass
    pred = ME.MiniFunc(ev, valid.node, genv, 'valid')
    kinds = [('name', ME.AbsToken(repo, ttype=TT(('Name',)), value='x')),
             ('built-in type name used as a column (timestamp, date, int)', ME.AbsToken(repo, ttype=TT(('Name', 'Builtin')), value='timestamp')),
             ('placeholder', ME.AbsToken(repo, ttype=TT(('Name', 'Placeholder')), value='?')),
             ('integer', ME.AbsToken(repo, ttype=TT(('Literal', 'Number', 'Integer')), value='1')),
             ('float', ME.AbsToken(repo, ttype=TT(('Literal', 'Number', 'Float')), value='1.5')),
             ('hexadecimal number', ME.AbsToken(repo, ttype=TT(('Literal', 'Number', 'Hexadecimal')), value='0xFF')),
             ('string', ME.AbsToken(repo, ttype=TT(('Literal', 'String', 'Single')), value="'s'")),
             ('quoted name', ME.AbsToken(repo, ttype=TT(('Literal', 'String', 'Symbol')), value='"s"')),
             ('NULL', ME.AbsToken(repo, ttype=TT(('Keyword',)), value='null')),
             ('wildcard', ME.AbsToken(repo, ttype=TT(('Wildcard',)), value='*'))]
    for cname, label in (('Identifier', 'identifier'), ('Function', 'function call'), ('Case', 'CASE expression'), ('Comparison', 'comparison'),
                         ('Operation', 'arithmetic expression'), ('TypedLiteral', "typed literal (DATE '...')"),
                         ('Parenthesis', 'parenthesised expression / scalar subquery')):
        c_ = repo.classes.get(f'sqlparse.sql.{cname}')
        if c_ is not None:
            kinds.append((label, ME.AbsToken(repo, cls=c_)))
    for label, tok in kinds:
        try:
            ok = bool(ev.truth(pred(tok)))
        except (ME.Unsupported, ME.Unknown) as e:
            ctx.ob('R13.7', f'item:{label}', loc, 'list-item predicate evaluable', None, str(e))
            continue
        ctx.ob('R13.7', f'item:{label}', loc, f'a {label} next to a comma is accepted as a list item', ok,
               f'`valid` rejects it: `select a, <{label}> from t` (or with the item first) is not grouped into one IdentifierList, get_identifiers() is never reached')


def check_where_simulation(ctx):
    """The extent of a Where node decided on concrete token lists: group_where (its body, with TokenList.group_tokens and the look-ups it
    calls) is interpreted on `select a from t where x = 1 <closer> ...` for every closing keyword of the statement, in a statement
    and inside a parenthesis, with a second WHERE behind a UNION; the node must start at WHERE and end right before the closer (or at
    the end of the list / in front of the closing parenthesis)."""
    repo = ctx.repo
    ctx.rule('R13.8', 'group_where interpreted on token lists: the Where node spans from WHERE up to, not including, the next closing keyword / the closing parenthesis / the end', floor=1)
    g = repo.func('sqlparse.engine.grouping.group_where')
    loc = f'{g.mod.relpath}:{g.node.lineno}'
    where_cls = repo.classes.get('sqlparse.sql.Where')
    classes = {k: repo.classes.get(f'sqlparse.sql.{v}') for k, v in (('S', 'Statement'), ('I', 'Identifier'), ('P', 'Parenthesis'), ('C', 'Comparison'))}
    ctx.need(where_cls is not None and all(classes.values()), 'sqlparse.sql classes not found')
    WSP, DML, KW, NAME, PUN, CMP, INT = (TT(('Text', 'Whitespace')), TT(('Keyword', 'DML')), TT(('Keyword',)), TT(('Name',)), TT(('Punctuation',)),
                                         TT(('Operator', 'Comparison')), TT(('Literal', 'Number', 'Integer')))

    def leaf(tt, v):
        t_ = ME.AbsToken(repo, ttype=tt, value=v)
        t_.parent = None
        return t_

    def group(cls, kids):
        gr = ME.AbsToken(repo, cls=cls)
        gr.tokens, gr.parent, gr.is_whitespace = kids, None, False
        gr.value = ''.join(k.value for k in kids)
        for k in kids:
            k.parent = gr
        return gr

    def ident(x):
        return group(classes['I'], [leaf(NAME, x)])

    def cond():
        return group(classes['C'], [ident('x'), leaf(WSP, ' '), leaf(CMP, '='), leaf(WSP, ' '), leaf(INT, '1')])
    closers = ['GROUP BY', 'ORDER BY', 'LIMIT', 'UNION', 'UNION ALL', 'EXCEPT', 'HAVING', 'RETURNING', 'INTO']
    bad = []
    n = 0
    for closer in [None] + closers + [c.lower().replace(' ', '\n') for c in closers]:
        for container in ('statement', 'parenthesis'):
            w = leaf(KW, 'where')
            body = [w, leaf(WSP, ' '), cond(), leaf(WSP, ' '), leaf(KW, 'and'), leaf(WSP, ' '), cond()]
            head = [leaf(DML, 'select'), leaf(WSP, ' '), ident('a'), leaf(WSP, ' '), leaf(KW, 'from'), leaf(WSP, ' '), ident('t'), leaf(WSP, ' ')]
            tail = []
            ctok = None
            if closer is not None:
                ctok = leaf(KW, closer)
                tail = [leaf(WSP, ' '), ctok, leaf(WSP, ' '), ident('z')]
            if container == 'statement':
                lst = group(classes['S'], head + body + tail)
                last_inner = None
            else:
                cp = leaf(PUN, ')')
                lst = group(classes['P'], [leaf(PUN, '(')] + head + body + tail + [cp])
                last_inner = cp
            ev = ME.Evaluator(ctx, g.mod, None)
            ev.effects = True
            try:
                ME.run_function(ev, g.node, {g.params[0]: lst}, max_steps=5000)
            except (ME.Unsupported, ME.Unknown) as e:
                ctx.ob('R13.8', 'simulation', loc, 'group_where is evaluable on token lists', None, f'closer {closer!r} in a {container}: {e}')
                return
            except ME.Crash as e:
                bad.append(f'closer {closer!r} in a {container}: {e}')
                continue
            n += 1
            wh = [t for t in lst.tokens if t.is_group and t.cls is where_cls]
            tag = f'`... where x = 1 and x = 1{" " + closer if closer else ""} ...` in a {container}'
            if len(wh) != 1:
                bad.append(f'{tag}: {len(wh)} Where nodes')
                continue
            inside = list(wh[0].tokens)
            if not inside or inside[0] is not w:
                bad.append(f'{tag}: the Where node does not start with WHERE')
            if any(t is ctok for t in inside) or (ctok is not None and not any(t is ctok for t in lst.tokens)):
                bad.append(f'{tag}: the closing keyword is inside the Where node')
            if last_inner is not None and (any(t is last_inner for t in inside) or lst.tokens[-1] is not last_inner):
                bad.append(f'{tag}: the closing parenthesis is inside the Where node')
            missing = [t for t in body if t.ttype is None or not WSP.contains(t.ttype)]
            if any(not any(t is x for x in inside) for t in missing):
                bad.append(f'{tag}: a part of the condition is outside the Where node')
            if closer is None and container == 'statement' and any(not (t is wh[0]) and lst.tokens.index(t) > lst.tokens.index(wh[0]) and not WSP.contains(t.ttype or ()) for t in lst.tokens if not t.is_group or t is not wh[0]):
                pass
    if not bad:
        ctx.ob('R13.8', 'simulation', loc, f'{n} lists (no closer / each of the nine closing keywords in upper case and in lower case with a line break inside; statement and '
               'parenthesis): the Where node starts at WHERE, holds the whole condition and ends before the closer', True)
    else:
        ctx.ob('R13.8', 'simulation', loc, f'group_where builds the Where node the property describes on {n} interpreted lists', False, f'{len(bad)} case(s), e.g. {bad[:3]}')


def check_cases_simulation(ctx):
    """Case.get_cases decided on concrete Case trees (searched CASE with one to three WHEN arms, with and without ELSE, any whitespace,
    any keyword case): interpreted; it must yield one (condition, value) pair per WHEN arm in order, plus (None, value) for ELSE,
    each holding the written condition / value token and nothing of another arm."""
    import itertools
    repo = ctx.repo
    ctx.rule('R13.9', 'Case.get_cases interpreted on Case trees: one pair per WHEN arm in order, (None, value) for ELSE, each with the written parts', floor=1)
    case_cls = repo.classes.get('sqlparse.sql.Case')
    f = repo.lookup_method(case_cls, 'get_cases') if case_cls is not None else None
    ctx.need(f is not None, 'Case.get_cases not found')
    loc = f'{f.mod.relpath}:{f.node.lineno}'
    ident_cls, cmp_cls = repo.classes.get('sqlparse.sql.Identifier'), repo.classes.get('sqlparse.sql.Comparison')
    WSP, NL, KW, NAME, INT = TT(('Text', 'Whitespace')), TT(('Text', 'Whitespace', 'Newline')), TT(('Keyword',)), TT(('Name',)), TT(('Literal', 'Number', 'Integer'))

    def leaf(tt, v):
        t_ = ME.AbsToken(repo, ttype=tt, value=v)
        t_.parent = None
        return t_

    def group(cls, kids):
        gr = ME.AbsToken(repo, cls=cls)
        gr.tokens, gr.parent, gr.is_whitespace = kids, None, False
        gr.value = ''.join(k.value for k in kids)
        for k in kids:
            k.parent = gr
        return gr
    bad = []
    lead = []
    n = 0
    for arms, has_else, lower, ws_kind, skip_ws in itertools.product((1, 2, 3), (False, True), (False, True), (0, 1, 2), (False, True)):
        def ws():
            return [[leaf(WSP, ' ')], [leaf(NL, '\n'), leaf(WSP, ' ')], [leaf(WSP, ' '), leaf(WSP, ' ')]][ws_kind]

        def kw(x):
            return leaf(KW, x.lower() if lower else x)
        kids = [kw('CASE')]
        conds, vals, whens, thens = [], [], [], []
        for i in range(arms):
            c_ = group(cmp_cls, [group(ident_cls, [leaf(NAME, f'c{i}')])])
            v_ = leaf(INT, str(i))
            conds.append(c_)
            vals.append(v_)
            whens.append(kw('WHEN'))
            thens.append(kw('THEN'))
            kids += ws() + [whens[-1]] + ws() + [c_] + ws() + [thens[-1]] + ws() + [v_]
        ev_ = None
        if has_else:
            ev_ = group(ident_cls, [leaf(NAME, 'dflt')])
            kids += ws() + [kw('ELSE')] + ws() + [ev_]
        kids += ws() + [kw('END')]
        node = group(case_cls, kids)
        ev = ME.Evaluator(ctx, f.mod, case_cls)
        ev.effects = True
        try:
            got = ev._method_of(node, 'get_cases')(skip_ws=skip_ws)
        except (ME.Unsupported, ME.Unknown) as e:
            ctx.ob('R13.9', 'simulation', loc, 'Case.get_cases is evaluable', None, str(e))
            return
        except ME.Crash as e:
            bad.append(f'{node.value!r}: {e}')
            continue
        n += 1
        tag = f'{node.value!r} (skip_ws={skip_ws})'
        if isinstance(got, list) and len(got) == arms + (1 if has_else else 0) + 1 and got[0][0] is not None and not got[0][1] \
                and all(t.ttype is not None and WSP.contains(t.ttype) for t in got[0][0]):
            # the whitespace between CASE and the first WHEN reported as a condition of its own
            lead.append(tag)
            got = got[1:]
        if not isinstance(got, list) or len(got) != arms + (1 if has_else else 0):
            bad.append(f'{tag}: {len(got) if isinstance(got, list) else got} pairs for {arms} WHEN arm(s){" + ELSE" if has_else else ""}')
            continue
        for i in range(arms):
            cnd, val = got[i]
            if cnd is None or not any(t is conds[i] for t in cnd) or not any(t is vals[i] for t in val) \
                    or any(any(t is x for x in (conds[:i] + conds[i + 1:] + vals)) for t in cnd) or any(any(t is x for x in (vals[:i] + vals[i + 1:] + conds)) for t in val):
                bad.append(f'{tag}: pair #{i} does not hold exactly the condition and value of WHEN arm #{i}')
            elif any(any(t is x for x in thens + whens[:i] + whens[i + 1:]) for t in cnd) or any(any(t is x for x in whens + thens[:i] + thens[i + 1:]) for t in val):
                bad.append(f'{tag}: pair #{i} holds the WHEN / THEN keyword of the wrong part (the THEN part belongs to the value, the WHEN part to the condition)')
            if skip_ws and any(t.ttype is not None and WSP.contains(t.ttype) for t in list(cnd) + list(val)):
                bad.append(f'{tag}: whitespace in pair #{i} although skip_ws=True')
        if has_else:
            cnd, val = got[-1]
            if cnd is not None or not any(t is ev_ for t in val):
                bad.append(f'{tag}: the ELSE part is not returned as (None, [value])')
    ctx.ob('R13.9', 'simulation:leading-whitespace-pair', loc, 'get_cases yields exactly one pair per WHEN arm (plus ELSE)', not lead,
           f'{len(lead)} tree(s), all with skip_ws=False, e.g. {lead[:1]}: the whitespace between CASE and the first WHEN is returned as an extra first pair '
           '([<Whitespace>], []) -- a condition that is not written')
    if not bad:
        ctx.ob('R13.9', 'simulation', loc, f'{n} Case trees (1-3 WHEN arms, with/without ELSE, upper/lower case keywords, three kinds of whitespace, skip_ws on/off): '
               'get_cases yields the written parts arm by arm', True)
    else:
        ctx.ob('R13.9', 'simulation', loc, f'Case.get_cases yields the written parts on {n} interpreted Case trees', False, f'{len(bad)} case(s), e.g. {bad[:2]}')
