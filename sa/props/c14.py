"""C14 -- literal, quoted-name and comment bodies are opaque; keywords classify by table."""
import ast

from .. import rules_regions as RR
from .. import rules_lexer as RL
from .. import rx
from ..astutil import src, is_name, is_attr
from ..fold import TT, Marker, NotConst
from ..model import own_nodes
from ..tables import get_tables

EXPLANATION = (
    'R14.1/R14.2 (automata): for every region kind (single-quoted string, double-quoted and backtick name, block comment and '
    'hint, line comments ended by newline / carriage return / end of text, dollar-quoted bodies for a set of tags) a '
    'specification language of lexemes is written in the checker; the leftmost-first extent automaton of the rule that should '
    'win at the opener is explored in product with the DFA of the specification over the atoms of the alphabet partition '
    '(all bodies at once, no sampling): a match must be recorded exactly at the end of every lexeme in every right context '
    'and never later; every earlier rule that can start at the opener is shown never to match on those words. R14.6: every '
    'rule that embeds a quoted region has the same lexeme language there as the dedicated rule. R14.3: default_initialization '
    'registers every KEYWORDS* dictionary after clear(); is_keyword upper-cases and returns the first hit in registration '
    'order, else Name (the lookup strategy is classified and the effective table compared with the first-wins table). R14.4 '
    '(table agreement): every dictionary word, in both letter cases and five right contexts, is one token whose type is that '
    'of the first dictionary listing it, or is claimed by an earlier dedicated rule of at least that extent. R14.5: dictionary '
    'values are token types. R14.3 also: the rule and dictionary lists of a Lexer are bound to fresh lists only (never to a module-level '
    'object that add_keywords would then modify) and nothing but clear()/set_SQL_REGEX writes the rule list. Contexts are limited to the delimiter classes listed; classes are sampled over BMP + astral representatives.')

CTX = [' ', ',', ';', ')', '']


def run(ctx):
    ctx.engines |= {'tables', 'rx', 'paths'}
    ctx.rule('R14.1', 'region extents and precedence by extent automata x specification DFA', floor=20)
    ctx.rule('R14.3', 'dictionary registration and first-hit lookup in registration order, case-insensitively', floor=10)
    ctx.rule('R14.4', 'every dictionary word is one token of the type of the first dictionary that lists it (both cases, five right contexts)', floor=700)
    ctx.rule('R14.5', 'dictionary values are token types', floor=5)
    ctx.rule('R14.6', 'rules embedding a quoted region agree with the dedicated rule of that quote kind', floor=1)
    T = get_tables(ctx)
    RR.check_regions(ctx, 'R14.1', quick=(ctx.tier == 'quick'))
    RR.check_quote_agreement(ctx, 'R14.6')
    ctx.rule('R14.8', 'left contexts: no other rule consumes (part of) the opener of a comment or quoted region that begins after the rule\'s own start', floor=100)
    RR.check_opener_left_contexts(ctx, 'R14.8')
    RL.check_initialisation(ctx, 'R14.3', T)
    ctx.rule('R14.7', 'the lexer sees the whole input at once: a body cannot be cut at a chunk boundary', floor=3)
    RL.check_whole_text(ctx, 'R14.7')
    # every rule above reads the lexer through its tables; that the scan loop applies them faithfully is decided by interpretation
    ctx.rule('R14.S', 'Lexer.get_tokens interpreted on short texts agrees token by token with the rule-table model the other rules use', floor=1)
    RL.check_scan_semantics(ctx, 'R14.S')
    from .. import rules_stack as RK
    ctx.rule('R14.9', 'the text reaches the lexer as it was given: parse/parsestream/FilterStack.run forward their argument unmodified', floor=10)
    RK.check_parse_pipeline(ctx, 'R14.9')
    RL.check_regex_table_ownership(ctx, 'R14.3')
    strategy = check_lookup_strategy(ctx, T)
    check_words(ctx, T)
    ctx.rule('R14.10', 'a word that is no letter-case variant (Unicode caseless matching) of a dictionary word is one Name token: Lexer.get_tokens interpreted', floor=5)
    check_foreign_words(ctx, T)
    for name, d in T.kw:
        bad = [k for k, v in d.items() if not isinstance(v, TT) or not isinstance(k, str) or k != k.upper()]
        ctx.ob('R14.5', f'dict:{name}', T.kwmod.relpath, f'{name}: keys are upper-case strings and values are token types ({len(d)} entries)', not bad,
               f'offending keys {bad[:5]}: is_keyword looks words up in upper case / yields the value as token type')


def check_lookup_strategy(ctx, T):
    """'first' | 'last' | None"""
    repo = ctx.repo
    f = repo.func('sqlparse.lexer.Lexer.is_keyword')
    p = f.params[1]
    loc = f'{f.mod.relpath}:{f.node.lineno}'
    strategy, how = None, ''
    upper_names = {s.targets[0].id for s in own_nodes(f.node) if isinstance(s, ast.Assign) and is_name(s.targets[0])
                   and isinstance(s.value, ast.Call) and is_attr(s.value.func, 'upper', p)}

    def is_upper(e):
        return (is_name(e) and e.id in upper_names) or (isinstance(e, ast.Call) and is_attr(e.func, 'upper', p))
    loops = [s for s in f.node.body if isinstance(s, ast.For)]
    for lp in loops:
        it = lp.iter
        rev = False
        if isinstance(it, ast.Call) and is_name(it.func, 'reversed') and it.args:
            it, rev = it.args[0], True
        if is_attr(it, '_keywords', 'self') and isinstance(lp.target, ast.Name):
            dv = lp.target.id
            # first hit returns
            for s in lp.body:
                if isinstance(s, ast.If) and isinstance(s.test, ast.Compare) and isinstance(s.test.ops[0], ast.In) \
                        and is_name(s.test.comparators[0], dv) and is_upper(s.test.left):
                    r = [x for x in s.body if isinstance(x, ast.Return)]

                    def is_hit(e):
                        return isinstance(e, ast.Subscript) and is_name(e.value, dv) and is_upper(e.slice)
                    hit_names = {t.id for x in s.body if isinstance(x, ast.Assign) and is_hit(x.value) for t in x.targets if isinstance(t, ast.Name)}
                    if r and isinstance(r[0].value, ast.Tuple) and (is_hit(r[0].value.elts[0]) or (
                            is_name(r[0].value.elts[0]) and r[0].value.elts[0].id in hit_names)):
                        strategy = 'last' if rev else 'first'
                        how = f'loop over {"reversed " if rev else ""}self._keywords returning the first hit'
    if strategy is None:
        # flat map: self.X.get(upper, default)
        for n in own_nodes(f.node):
            if isinstance(n, ast.Call) and isinstance(n.func, ast.Attribute) and n.func.attr == 'get' and is_attr(n.func.value, None, 'self') \
                    and n.args and is_upper(n.args[0]):
                attr = n.func.value.attr
                strategy, how = flat_map_precedence(ctx, attr)
    ctx.ob('R14.3', 'is_keyword:upper', loc, 'is_keyword looks up value.upper()', bool(upper_names) or strategy is not None, 'no upper-casing of the word')
    # default Name
    rets = [r for r in own_nodes(f.node) if isinstance(r, ast.Return)]
    default_ok = any('tokens.Name' in src(r) or 'Name' in src(r) for r in rets)
    ctx.ob('R14.3', 'is_keyword:default-Name', loc, 'a word in no dictionary is typed tokens.Name', default_ok, f'returns {[src(r) for r in rets]}')
    if strategy is None:
        ctx.ob('R14.3', 'is_keyword:strategy', loc, 'the lookup strategy of is_keyword is recognised', None,
               'neither a first-hit loop over self._keywords nor a flat map with a recognisable merge order')
        return None
    # compare the effective table with the first-wins table
    first, last = {}, {}
    for name, d in T.kw:
        for w, tt in d.items():
            first.setdefault(w, (tt, name))
            last[w] = (tt, name)
    eff = first if strategy == 'first' else last
    diff = sorted(w for w in first if eff[w][0] != first[w][0])
    ctx.ob('R14.3', 'is_keyword:first-dictionary-wins', loc,
           f'the type of a word listed in several dictionaries is that of the first registered one ({how})', not diff,
           f'strategy is {strategy}-wins ({how}); {len(diff)} default words change type: ' +
           ', '.join(f'{w}: {first[w][0]!r} ({first[w][1]}) -> {eff[w][0]!r} ({eff[w][1]})' for w in diff[:4]))
    ctx.info['lookup_strategy'] = how
    ctx.info['words_in_several_dictionaries'] = sum(1 for w in first if first[w][1] != last[w][1])
    return strategy


def flat_map_precedence(ctx, attr):
    """how self.<attr> is filled: update() in registration order -> last wins; reversed/setdefault -> first wins"""
    repo = ctx.repo
    c = repo.cls('sqlparse.lexer.Lexer')
    for m in c.methods.values():
        for n in own_nodes(m.node):
            if isinstance(n, ast.Call) and isinstance(n.func, ast.Attribute) and n.func.attr in ('update', 'setdefault') :
                recv = n.func.value
                target_ok = is_attr(recv, attr, 'self')
                if not target_ok and isinstance(recv, ast.Name):
                    # local alias: self.attr = kwmap = {}
                    for s in own_nodes(m.node):
                        if isinstance(s, ast.Assign) and any(is_attr(t, attr, 'self') for t in s.targets) and any(is_name(t, recv.id) for t in s.targets):
                            target_ok = True
                if not target_ok:
                    continue
                if n.func.attr == 'setdefault':
                    return 'first', f'{m.name}: setdefault into self.{attr}'
                # update: in add_keywords (called in registration order) -> last wins; inside a loop over reversed(self._keywords) -> first wins
                for lp in [x for x in own_nodes(m.node) if isinstance(x, ast.For)]:
                    if any(y is n for y in ast.walk(lp)):
                        it = lp.iter
                        if isinstance(it, ast.Call) and is_name(it.func, 'reversed') and is_attr(it.args[0], '_keywords', 'self'):
                            return 'first', f'{m.name}: update() over reversed(self._keywords)'
                        if is_attr(it, '_keywords', 'self'):
                            return 'last', f'{m.name}: update() over self._keywords'
                if m.name == 'add_keywords':
                    return 'last', f'add_keywords: self.{attr}.update(keywords) in registration order'
    return None, ''


def check_words(ctx, T):
    kwloc = T.kwmod.relpath
    n = 0
    seen = set()
    for name, d in T.kw:
        for w in d:
            if w in seen:
                continue
            seen.add(w)
            want = T.lookup(w)
            bad = []
            for spelled in (w, w.lower()):
                for c in CTX:
                    r, end, tt = T.lex_one(spelled + c, 0)
                    if r is not None and r.is_kw:
                        if end != len(spelled) or tt != want:
                            bad.append((spelled + c, f'word rule gives {spelled[:end]!r}:{tt!r}'))
                    elif r is not None and end >= len(spelled):
                        continue       # an earlier dedicated rule claims at least the word
                    else:
                        bad.append((spelled + c, f'rule {r.pattern if r else None!r} matches only {spelled[:end]!r} as {tt!r}'))
            n += 1
            ctx.ob('R14.4', f'word:{w}', kwloc, f'{name}[{w!r}] is reachable as one token of type {want!r}', not bad,
                   f'{bad[0][1] if bad else ""} for input {bad[0][0] if bad else ""!r}: this dictionary entry can never classify a token')
    # a word in no dictionary is a Name
    for w in ('zzqx', 'Foo_1', 'ünïcode'):
        if w.upper() in seen:
            continue
        bad = [c for c in CTX if T.lex_one(w + c, 0)[1:] != (len(w), TT(('Name',)))]
        ctx.ob('R14.4', f'nonword:{w}', kwloc, f'the non-dictionary word {w!r} is one Name token', not bad, f'contexts {bad}')
    ctx.info['dictionary_words'] = n


# words whose str.upper() lands on an ASCII dictionary word although no caseless comparison (str.casefold) equates them -- the
# dotless i -- next to plain non-words and a capital dotted I (upper() leaves it alone)
FOREIGN_WORDS = ('\u0131nsert', '\u0131n', 'l\u0131m\u0131t', 'w\u0131th', 'zzqx', '\u00fcn\u00efcode', '\u0130nsert', 's\u0131n\u0131f')


def check_foreign_words(ctx, T):
    """`Every word of the dictionaries in any letter case ... a word in no dictionary is a Name`: the spelled word belongs to a
    dictionary word W iff word.casefold() == W.casefold().  Decided on the code itself by interpreting Lexer.get_tokens (with the
    interpreted default lexer) on words chosen so that the upper-casing of is_keyword and the caseless comparison disagree."""
    from .. import miniev as ME
    f = ctx.repo.func(RL.LEXER + '.get_tokens')
    L = ctx.repo.classes.get(RL.LEXER)
    loc = f'{f.mod.relpath}:{f.node.lineno}'
    lx, why = RL.default_lexer(ctx)
    if lx is None:
        ctx.ob('R14.10', 'foreign:simulation', loc, 'the lexer is evaluable', None, why)
        return
    folded = {w.casefold() for _, d in T.kw for w in d}
    for w in FOREIGN_WORDS:
        if w.casefold() in folded:
            continue
        ev = ME.Evaluator(ctx, f.mod, L)
        ev.effects = True
        out = []
        ev.on_yield = out.append
        env = {f.params[0]: lx, f.params[1]: w}
        for p_, d_ in zip(f.params[len(f.params) - len(f.node.args.defaults):], f.node.args.defaults):
            env[p_] = ev.ev(d_, {})
        try:
            ME.run_function(ev, f.node, env, max_steps=20000)
        except (ME.Unsupported, ME.Unknown) as e:
            ctx.ob('R14.10', 'foreign:simulation', loc, 'Lexer.get_tokens is evaluable on single words', None, f'{w!r}: {e}')
            return
        except ME.Crash as e:
            out = [('crash', str(e))]
        ok = len(out) == 1 and tuple(out[0]) == (TT(('Name',)), w)
        ctx.ob('R14.10', f'foreign:{w}', loc, f'the word {w!r} (casefold {w.casefold()!r} is in no dictionary) is one Name token', ok,
               f'tokenize({w!r}) gives {out!r}: the lexer equates a letter of the word with an ASCII one (str.upper() in is_keyword, or re.IGNORECASE in a dedicated word rule)')
