"""C15 -- pathological nesting is reported as SQLParseError."""
import ast

from .. import rules_stack as RK
from ..astutil import src, is_name, is_attr
from ..cg import get_cg
from ..fx import effects_of
from ..model import own_nodes, Cls

EXPLANATION = (
    'Decided: RecursionError cannot escape the entry points. R15.1: FilterStack.run is a generator whose whole body '
    '(tokenize, preprocess, splitter, statement loop with grouping/stmtprocess/postprocess and the yield) lies inside one '
    'try whose handler for RecursionError raises SQLParseError. R15.2: REC = functions on a call-graph cycle (SCCs of the '
    'name-based call graph with the repo idioms resolved); for every entry point (parse, parsestream, split, format, cli.main) '
    'every call expression of its body other than the consumption of stack.run(...) must not reach REC. R15.3: the one '
    'exception, str(stmt) in split (TokenList.__str__ -> flatten is recursive), is accepted only while split never enables '
    'grouping and installs no group-building filter, so the statements are flat (moot once flatten is iterative). R15.4: the package '
    'never changes the recursion limit / thread stack size. R15.5: str()/flatten() of a returned statement reach no recursive function '
    '(the final tree is deeper than anything a grouping pass walked). Not decided: C-level stack exhaustion, '
    'MemoryError, behaviour at particular recursion limits.')

ENTRY = ['sqlparse.parse', 'sqlparse.parsestream', 'sqlparse.split', 'sqlparse.format', 'sqlparse.cli.main', 'sqlparse.lexer.tokenize']


def run(ctx):
    ctx.engines |= {'cg', 'paths', 'fx'}
    ctx.rule('R15.1', 'FilterStack.run: every pipeline step and the yield lie inside one try whose RecursionError handler raises SQLParseError', floor=3)
    ctx.rule('R15.2', 'recursion containment: no call in an entry point, other than consuming stack.run(...), reaches a recursive function', floor=8)
    ctx.rule('R15.3', 'the str(stmt) exception in split is justified: no grouping and no group-building filter on that stack', floor=1)
    ctx.rule('R15.5', 'a tree that parse() returns can be serialised at any depth: str()/flatten() of a statement reach no recursive function', floor=2)
    ctx.rule('R15.6', 'recursive accessors of the tree classes use one frame per tree level', floor=1)
    ctx.rule('R15.4', 'the package never changes interpreter-wide limits (recursion limit, thread stack size, resource limits)', floor=1)
    repo = ctx.repo
    cg = get_cg(ctx)
    check_limits(ctx, ctx.repo)
    # "a later call on ordinary input still works": an exception that unwinds through the pipeline (RecursionError translated
    # at the top, or the SQLParseError itself) must not leave a counter, flag or table behind in state that outlives the call
    from .. import rules_filters as RF
    ctx.rule('R15.8', 'no fixed-length table is indexed with a quantity that grows with the nesting depth (IndexError is not SQLParseError)', floor=1)
    RF.check_fixed_tables(ctx, 'R15.8')
    from . import c20
    ctx.rule('R15.7', 'a call that fails leaves nothing behind: no import-time closure cell and no class/module variable is written on the request path', floor=2)
    c20.check_closure_cells(ctx, 'R15.7')
    c20.check_global_writes(ctx, 'R15.7')
    from .. import rules_lexer as RL
    RL.check_singleton_lock(ctx, 'R15.7')
    m = ctx.shared('runmodel', lambda: RK.RunModel(ctx))
    f = m.f
    loc = f'{f.mod.relpath}:{f.node.lineno}'
    ctx.ob('R15.1', 'run:is-generator', loc, 'run is a generator (its body executes while the caller iterates)', f.is_generator(), '')
    ok = len(m.tries) == 1
    ctx.ob('R15.1', 'run:single-try', loc, 'run has exactly one try statement', ok, f'{len(m.tries)} try statements')
    outside = [s for s in m.steps if not s[2] and not (s[0] == 'other' and RK.neutral(s[1]))]
    for s in m.steps:
        if s[0] == 'other' and RK.neutral(s[1]):
            continue
        ctx.ob('R15.1', f'run:step-in-try:{s[0]}', f'{f.mod.relpath}:{s[1].lineno}',
               f'pipeline step `{s[0]}` runs inside the translating try', s[2],
               f'step `{s[0]}` (`{src(s[1])[:70]}`) is outside the try: a RecursionError raised there escapes as RecursionError '
               '(the 0.5.0 shape, where only grouping was guarded)')
    if m.tries:
        t = m.tries[0]
        hs = []
        for h in t.handlers:
            names = []
            if h.type is None:
                names = ['BaseException']
            elif isinstance(h.type, ast.Tuple):
                names = [src(e) for e in h.type.elts]
            else:
                names = [src(h.type)]
            hs.append((h, names))
        catching = [h for h, names in hs if any(n in ('RecursionError', 'RuntimeError', 'Exception', 'BaseException') for n in names)]
        ok = False
        detail = f'handlers: {[n for _, n in hs]}'
        if catching:
            h = catching[0]
            raises = [n for n in ast.walk(h) if isinstance(n, ast.Raise)]
            ok = len(raises) >= 1 and all(r.exc is not None and isinstance(r.exc, ast.Call)
                                          and RK.resolves_to(ctx, f, r.exc.func, 'sqlparse.exceptions.SQLParseError') for r in raises)
            from ..astutil import exits_always
            ok = ok and exits_always(h.body)
            detail = f'handler body: {"; ".join(src(s) for s in h.body)}'
        ctx.ob('R15.1', 'run:handler', f'{f.mod.relpath}:{t.lineno}',
               'a handler catches RecursionError and raises SQLParseError', ok, detail)
        # the handler itself runs with an almost exhausted stack: it must not call a recursive routine
        rec0 = cg.recursive_functions()
        for h in catching[:1]:
            for call, callees in cg.sites.get(f.qname, []):
                if not any(n is call for n in ast.walk(h)):
                    continue
                reach = set()
                for c in callees:
                    reach |= cg.reachable([c])
                hit = sorted(reach & rec0)
                ctx.ob('R15.1', f'run:handler-call:{src(call.func)}', f'{f.mod.relpath}:{call.lineno}',
                       f'`{src(call)[:50]}` in the RecursionError handler cannot recurse', not hit,
                       f'reaches recursive {hit[0].replace("sqlparse.", "") if hit else ""}: on the deeply nested statement that caused the error this raises '
                       'RecursionError again, from inside the handler, and it escapes untranslated')
        # the yield is inside the try (a generator resumed after yield continues inside it)
        ys = [n for n in ast.walk(f.node) if isinstance(n, (ast.Yield, ast.YieldFrom))]
        in_try = all(any(n is y for b in t.body for n in ast.walk(b)) for y in ys)
        ctx.ob('R15.1', 'run:yield-in-try', loc, 'every yield of run is inside the try body', in_try and bool(ys), '')
    # R15.2
    rec = cg.recursive_functions()
    ctx.info['recursive_functions'] = sorted(x.replace('sqlparse.', '') for x in rec)
    ctx.info['recursive_components'] = sum(1 for g in cg.sccs() if len(g) > 1 or g[0] in cg.edges[g[0]])
    ctx.need(len(rec) >= 10, f'only {len(rec)} recursive functions found: the call graph lost its cycles (resolution broken?)')
    run_q = RK.RUN
    for q in ENTRY:
        ep = repo.func(q)
        for call, callees in cg.sites.get(q, []):
            loc = f'{ep.mod.relpath}:{call.lineno}'
            key = f'{ep.short}:call:{src(call.func)}'
            if run_q in callees and isinstance(call.func, ast.Attribute) and call.func.attr == 'run':
                ctx.ob('R15.2', key, loc, 'consumption of stack.run(...): its body runs under its own try', True)
                continue
            # other entry points are themselves checked
            reach = set()
            for c in callees:
                if c in ENTRY:
                    continue
                reach |= cg.reachable([c])
            hit = sorted(reach & rec)
            if q == 'sqlparse.split' and is_name(call.func, 'str'):
                if hit:
                    check_split_exception(ctx, ep, call, hit)
                else:
                    ctx.ob('R15.3', 'split:str(stmt)', loc, 'str(stmt) in split cannot recurse (the serialisation walk is iterative)', True)
                continue
            path = None
            if hit:
                for c in callees:
                    path = cg.path(c, set(hit))
                    if path:
                        break
            ctx.ob('R15.2', key, loc, f'`{src(call)[:60]}` in {ep.short} cannot reach a recursive function', not hit,
                   f'reaches recursive {hit[0].replace("sqlparse.", "") if hit else ""} via '
                   f'{" -> ".join(x.replace("sqlparse.", "") for x in (path or []))} outside FilterStack.run\'s try: '
                   'RecursionError on deeply nested input escapes untranslated')
        # generator expressions / comprehensions etc. in the entry point body have no extra calls beyond sites
    # R15.5: the final tree is up to three times deeper than anything a grouping pass walked (Function, Parenthesis and
    # IdentifierList levels are added by different passes, the last one bottom-up), so "grouping got through" says nothing about
    # the depth a later walk needs: the serialisation primitives themselves must not recurse
    for q in ('sqlparse.sql.TokenList.__str__', 'sqlparse.sql.TokenList.flatten', 'sqlparse.sql.Token.__str__', 'sqlparse.sql.Token.flatten'):
        fn = repo.func(q)
        hit = sorted(cg.reachable([q]) & rec)
        path = cg.path(q, set(hit)) if hit else None
        ctx.ob('R15.5', f'serialise:{fn.short}', f'{fn.mod.relpath}:{fn.node.lineno}', f'{fn.short} reaches no recursive function', not hit,
               f'reaches recursive {hit[0].replace("sqlparse.", "") if hit else ""} via {" -> ".join(x.replace("sqlparse.", "") for x in (path or []))}: '
               'parse() can return a statement (e.g. f(a, f(a, ...)) nested ~400 deep at the default limit) whose str()/flatten() raises '
               'RecursionError in the caller\'s code, outside FilterStack.run\'s translation')
    # R15.6: recursive accessors of the tree classes run in the caller's code, outside run's try.  Grouping descends one Python
    # frame per tree level; an accessor that needs two (A -> B -> A per level) overflows on trees parse() has just accepted.
    # (the name accessors get_name -> get_alias -> _get_first_name -> get_name were accepted here as "the pinned shape" until a
    # reviewer showed `select a asc asc ... (x400)`: parse() succeeds, get_name() raises RecursionError.  The cluster is a
    # violation of this very rule and is listed in known_findings.json, not whitelisted.)
    ref_clusters = [{'sql.Token.__repr__', 'sql.Token._get_repr_name', 'sql.Token._get_repr_value'}]
    nscc = 0
    for g in cg.sccs():
        if not (len(g) > 1 or g[0] in cg.edges[g[0]]):
            continue
        names = {x.replace('sqlparse.', '') for x in g}
        if not all(n.startswith('sql.') for n in names):
            continue
        # only recursion that follows the tree: some member iterates over child tokens
        def walks(q):
            fn_ = repo.funcs[q]
            for n_ in own_nodes(fn_.node):
                if isinstance(n_, (ast.For, ast.comprehension)):
                    t_ = src(n_.iter)
                    if 'tokens' in t_ or 'get_sublists' in t_ or 'flatten' in t_ or 'get_identifiers' in t_:
                        return True
            return False
        if not any(walks(q) for q in g):
            continue
        nscc += 1
        # a cycle through several functions is acceptable when the recursion is cut by a translating guard: after removing the
        # call sites that sit in `try: ... except RecursionError: raise SQLParseError`, no cycle through >1 function remains
        gset = set(g)
        edges = {q: set() for q in g}
        guarded_sites = 0
        for q in g:
            fn_ = repo.funcs[q]
            tries = [t for t in own_nodes(fn_.node) if isinstance(t, ast.Try) and _translates(t)]
            for call, callees in cg.sites.get(q, []):
                tgt = {c if isinstance(c, str) else getattr(c, 'qname', None) for c in callees} & gset
                if not tgt:
                    continue
                if any(any(x is call for b in t.body for x in ast.walk(b)) for t in tries):
                    guarded_sites += 1
                    continue
                edges[q] |= tgt
        # cycle detection on the unguarded edges (self-loops of one function are the accepted one-frame-per-level form)
        def has_cycle():
            color = {}
            def dfs(u):
                color[u] = 1
                for v in edges[u]:
                    if v == u:
                        continue
                    if color.get(v) == 1 or (color.get(v) is None and dfs(v)):
                        return True
                color[u] = 2
                return False
            return any(color.get(u) is None and dfs(u) for u in edges)
        ok = len(names) == 1 or any(names <= c for c in ref_clusters) or not has_cycle()
        fn = repo.funcs[sorted(g)[0]]
        ctx.ob('R15.6', f'cycle:{sorted(names)[0]}', f'{fn.mod.relpath}:{fn.node.lineno}',
               f'recursive accessor(s) {sorted(names)} descend one frame per tree level (self-recursion), like the grouping passes, '
               f'or translate RecursionError into SQLParseError at the recursive call ({guarded_sites} guarded site(s))', ok,
               f'the recursion runs through {len(names)} functions per tree level ({sorted(names)}) with no translating guard: on a tree as deep '
               'as grouping can build (about 990 levels at the default limit; `a asc asc ...` or `a::b::c...` a few hundred levels deep is '
               'enough) the accessor raises RecursionError in the caller\'s code, outside FilterStack.run')
    ctx.need(nscc >= 1, f'only {nscc} recursive accessor cycles found in sqlparse.sql: call-graph resolution lost them')
    # the entry points must consume run (sanity)
    for q in ENTRY[:4]:
        reach = cg.reachable([q])
        ctx.need(run_q in reach, f'{q} no longer reaches FilterStack.run')


def _translates(t):
    """try statement with a handler for RecursionError (or a superclass) whose body raises SQLParseError"""
    for h in t.handlers:
        names = ['BaseException'] if h.type is None else [src(e) for e in h.type.elts] if isinstance(h.type, ast.Tuple) else [src(h.type)]
        if any(n in ('RecursionError', 'RuntimeError', 'Exception', 'BaseException') for n in names):
            if any(isinstance(x, ast.Raise) and x.exc is not None and 'SQLParseError' in src(x.exc) for b in h.body for x in ast.walk(b)):
                return True
    return False


def check_split_exception(ctx, ep, call, hit):
    cg = get_cg(ctx)
    repo = ctx.repo
    ctor, var = RK.stack_usage(ctx, ep)
    uses = [n.attr for n in own_nodes(ep.node) if isinstance(n, ast.Attribute) and is_name(n.value, var)] if var else ['?']
    no_grouping = 'enable_grouping' not in uses and all(u in ('run',) for u in uses)
    # filters FilterStack.__init__ can install: must not build groups
    init = repo.func(RK.FSTACK + '.__init__')
    builders = []
    for n in own_nodes(init.node):
        if isinstance(n, ast.Call):
            for t in cg._resolve_name_value(n.func, init, init.mod, init.cls) if isinstance(n.func, (ast.Name, ast.Attribute)) else []:
                if isinstance(t, Cls):
                    for m in t.methods.values():
                        for q in cg.reachable([m.qname]):
                            for e in effects_of(repo.funcs[q], cg):
                                if (e.kind == 'tree-api' and e.attr == 'group_tokens') or (e.kind == 'construct' and e.attr != 'Token'):
                                    builders.append(f'{t.name}: {e.detail}')
    ok = no_grouping and not builders
    ctx.ob('R15.3', 'split:str(stmt)', f'{ep.mod.relpath}:{call.lineno}',
           'str(stmt) in split runs on flat statements only (no grouping enabled, no group-building filter on the stack)', ok,
           f'stack uses {uses}; group-building effects in installable filters: {builders[:2]}: TokenList.__str__ -> flatten recurses '
           'per nesting level outside the translating try')


LIMIT_SETTERS = {'setrecursionlimit', 'stack_size', 'setrlimit', 'setswitchinterval', 'set_int_max_str_digits'}


def limit_sites(repo):
    out = []
    for mod in repo.modules.values():
        for n in ast.walk(mod.tree):
            if isinstance(n, ast.Attribute) and n.attr in LIMIT_SETTERS:
                out.append((mod, n, src(n)))
            elif isinstance(n, ast.Name) and n.id in LIMIT_SETTERS:
                out.append((mod, n, n.id))
            elif isinstance(n, ast.ImportFrom) and any(a.name in LIMIT_SETTERS for a in n.names):
                out.append((mod, n, src(n)))
    return out


def check_limits(ctx, repo):
    """Grouping and every later walk of the tree (flatten, str, the filters, user code) run under the same recursion
    limit, and grouping needs the deeper stack: that is why a tree parse() returns can always be serialised and why the
    RecursionError -> SQLParseError translation in run is the only exit for input that is too deep.  Raising the limit
    while grouping returns trees that str()/flatten() cannot walk (RecursionError in user code, outside run's handler),
    and the limit is process-wide state other threads see."""
    from ..model import Repo
    sites = limit_sites(repo)
    ctx.ob('R15.4', 'no-limit-change', 'sqlparse/', f'no use of {sorted(LIMIT_SETTERS)} in {len(repo.modules)} modules', not sites,
           '; '.join(f'{m.relpath}:{n.lineno} `{t}`' for m, n, t in sites[:4]) + ': the stack budget of grouping differs from the budget of the tree '
           'walks that follow (str(stmt), flatten, filters), so parse() can return a statement that cannot be serialised; the limit is also '
           'shared with every other thread')
    # positive control
    rel = 'sqlparse/engine/grouping.py'
    txt = repo.files[rel]
    bad = txt.replace('def group(stmt):\n', 'def group(stmt):\n    import sys\n    sys.setrecursionlimit(sys.getrecursionlimit() + 500)\n', 1)
    ctx.need(bad != txt, 'positive control for R15.4 could not be built (grouping.group not found)')
    r2 = Repo(repo.root, overlay=dict(repo.overlay, **{rel: bad}))
    ctx.need(bool(limit_sites(r2)), 'positive control: setrecursionlimit in grouping.group was not found by R15.4')
    ctx.note('positive control: a setrecursionlimit call planted in grouping.group is found by R15.4')
