"""C16 -- no lexical rule backtracks exponentially (level: proof)."""
from .. import rx
from ..fold import NotConst, Rx
from ..astutil import src, is_name
from ..tables import get_tables
import ast
import re

EXPLANATION = (
    'Every row of keywords.SQL_REGEX (and every sub-pattern inside a look-around) is parsed with re._parser '
    'and turned into an ordered Thompson NFA; the epsilon-free self-product restricted to intersecting character '
    'classes is searched for a strongly connected component that contains a diagonal state (q,q) and an edge built '
    'from two different transitions: that is exactly exponential ambiguity (EDA). Nullable bodies under unbounded '
    'repeats (epsilon cycles) are reported separately. Look-arounds/anchors are treated as epsilon (only adds paths, '
    'so "no ambiguity" stays sound); a back-reference is replaced by a copy of its group. With C01/R1.2 (every row has '
    'minimum width >= 1) a match attempt is polynomial and tokenising is polynomial in the input length. '
    'R16.4: no regex reaches the rule table except the foldable rows of keywords.SQL_REGEX (only clear() and the comprehension in '
    'set_SQL_REGEX write self._SQL_REGEX); non-foldable re.compile arguments elsewhere are analysed as templates. '
    'Not decided: the concrete time budget of the second sentence of C16 (a timing measurement).')

CONTROLS = [
    (r"'(''|\\\\|\\'|[^'])*'", 'GHSA-rrm6-wvj7-cwh2 string rule (0.4.2)'),
    (r'((\r\n|\r|\n)+) *$', 'strip-comments regex (0.4.4 advisory)'),
    (r'(a+)+$', 'textbook nested quantifier'),
    (r'(a|a)*', 'overlapping alternatives under star'),
]
NEG_CONTROLS = [r"'(''|\\'|[^'])*'", r'\w[$#\w]*', r'/\*[\s\S]*?\*/']


def run(ctx):
    ctx.engines |= {'tables', 'rx'}
    T = get_tables(ctx)
    ctx.rule('R16.0', 'positive/negative controls of the EDA test itself (must fire / must stay silent)', floor=len(CONTROLS))
    ctx.rule('R16.1', 'no epsilon-cycle and no exponential ambiguity (EDA) in any row of SQL_REGEX', floor=26)
    ctx.rule('R16.1b', 'no epsilon-cycle / EDA in any look-around sub-pattern of SQL_REGEX', floor=1)
    ctx.rule('R16.3', 'the same test on the other regex constants of the package', floor=3)
    for pat, why in CONTROLS:
        f, _ = rx.ambiguity(pat)
        ctx.need(bool(f), f'positive control not flagged by the EDA test: {pat!r} ({why})')
        ctx.ob('R16.0', f'control:{pat}', 'sa/props/c16.py', f'control {why} must be flagged', True, repr(f[0]))
    for pat in NEG_CONTROLS:
        f, _ = rx.ambiguity(pat)
        ctx.need(not f, f'negative control flagged by the EDA test: {pat!r}')
        ctx.ob('R16.0', f'negcontrol:{pat}', 'sa/props/c16.py', 'control must stay silent', True)
    stats = []
    for r in T.lex:
        loc = f'{T.kwmod.relpath}:{r.line}'
        try:
            f, st = rx.ambiguity(r.pattern, rx.LEXFLAGS)
        except rx.Unsupported as e:
            ctx.ob('R16.1', f'row:{r.pattern}', loc, f'rule {r.pattern!r} analysable', None, str(e))
            continue
        except re.error as e:
            ctx.ob('R16.1', f'row:{r.pattern}', loc, f'rule {r.pattern!r} compiles', False, f're.error: {e}')
            continue
        stats.append(st)
        ctx.ob('R16.1', f'row:{r.pattern}', loc, f'rule #{r.index} {r.pattern!r} has no eps-cycle/EDA', not f,
               '; '.join(map(repr, f)))
        for op, direction, sub in rx.lookarounds(r.tree):
            try:
                f2, st2 = rx.ambiguity(None, rx.LEXFLAGS, tree=sub)
            except rx.Unsupported as e:
                ctx.ob('R16.1b', f'look:{r.pattern}:{sub}', loc, 'look-around analysable', None, str(e))
                continue
            ctx.ob('R16.1b', f'look:{r.pattern}:{sub}', loc,
                   f'look-around sub-pattern of rule #{r.index} has no eps-cycle/EDA', not f2, '; '.join(map(repr, f2)))
    # R16.3: other regex constants of the package (informational in DESIGN; armed here because
    # SPLIT_REGEX / strip-comments run on every format() call and were the 0.4.4 advisory)
    others = collect_other_regexes(ctx)
    for loc, pat, flags, how in others:
        try:
            f, st = rx.ambiguity(pat, flags | re.UNICODE)
        except (rx.Unsupported, re.error) as e:
            ctx.note(f'R16.3 {loc}: {pat!r} not analysable ({e})')
            continue
        ctx.ob('R16.3', f'other:{pat}', loc, f'{how} {pat!r} has no eps-cycle/EDA', not f, '; '.join(map(repr, f)))
    from .. import rules_lexer as RL
    ctx.rule('R16.4', 'the compiled rule table is exactly the analysed table: only clear()/set_SQL_REGEX write self._SQL_REGEX', floor=2)
    RL.check_regex_table_ownership(ctx, 'R16.4')
    ctx.info['automata'] = {'rules': len(T.lex), 'max_states': max((s.get('states', 0) for s in stats), default=0),
                            'total_product_nodes': sum(s.get('product_nodes', 0) for s in stats)}


def collect_other_regexes(ctx):
    """String constants that reach re.compile/search/match/sub/split or Token.match(..., regex=True)."""
    repo, folder = ctx.repo, ctx.folder
    out = []
    RE_FUNCS = {'compile', 'search', 'match', 'sub', 'split', 'fullmatch', 'findall', 'finditer'}
    for mod in repo.modules.values():
        if mod.name == 'sqlparse.keywords':
            continue
        for n in ast.walk(mod.tree):
            if isinstance(n, ast.Call) and isinstance(n.func, ast.Attribute) and n.func.attr in RE_FUNCS \
                    and isinstance(n.func.value, ast.Name) and mod.imports.get(n.func.value.id) == ('module', 're') and n.args:
                try:
                    pat = folder.eval(n.args[0], mod)
                except NotConst:
                    pat = template_pattern(ctx, mod, n.args[0], n)
                    if pat is None:
                        continue
                if isinstance(pat, bytes):
                    pat = pat.decode('latin-1')
                if isinstance(pat, str):
                    flags = 0
                    if n.func.attr == 'compile' and len(n.args) > 1:
                        try:
                            flags = folder._flags(n.args[1], mod)
                        except NotConst:
                            flags = 0
                    out.append((f'{mod.relpath}:{n.lineno}', pat, flags, f're.{n.func.attr}'))
    # regex=True match tables: split_words of both indent filters, join_words/by_words
    for cq, attr in (('sqlparse.filters.aligned_indent.AlignedIndentFilter', 'split_words'),
                     ('sqlparse.filters.aligned_indent.AlignedIndentFilter', 'join_words'),
                     ('sqlparse.filters.aligned_indent.AlignedIndentFilter', 'by_words')):
        c = repo.classes.get(cq)
        if c is None:
            continue
        v, owner = repo.lookup_class_attr(c, attr)
        if v is None:
            continue
        try:
            val = folder.eval(v, owner.mod, None, owner)
        except NotConst:
            continue
        for p in ([val] if isinstance(val, str) else val):
            if isinstance(p, str):
                out.append((f'{owner.mod.relpath}:{v.lineno}', p, re.IGNORECASE, f'{c.name}.{attr}'))
    f = repo.funcs.get('sqlparse.filters.reindent.ReindentFilter._next_token')
    if f is not None:
        for n in ast.walk(f.node):
            if isinstance(n, ast.Assign) and isinstance(n.targets[0], ast.Name) and n.targets[0].id == 'split_words':
                try:
                    val = folder.eval(n.value, f.mod)
                    for p in val:
                        out.append((f'{f.mod.relpath}:{n.lineno}', p, re.IGNORECASE, 'ReindentFilter split_words'))
                except NotConst:
                    pass
    seen, uniq = set(), []
    for o in out:
        if (o[1], o[2]) not in seen:
            seen.add((o[1], o[2]))
            uniq.append(o)
    return uniq


def template_pattern(ctx, mod, e, at):
    """A pattern assembled at run time from constant fragments: unknown (escaped) words are instantiated by the
    literal `w`, so the fragment structure (separators, repeats) is what gets analysed."""
    repo, folder = ctx.repo, ctx.folder
    cls = None
    for c in repo.classes.values():
        if c.mod is mod and any(x is at for x in ast.walk(c.node)):
            cls = c

    def t(x, depth=0):
        if depth > 6:
            return None
        v = folder.try_eval(x, mod, None, cls)
        if isinstance(v, (str, bytes)):
            return v.decode('latin-1') if isinstance(v, bytes) else v
        if isinstance(x, ast.BinOp) and isinstance(x.op, ast.Add):
            a, b = t(x.left, depth + 1), t(x.right, depth + 1)
            return None if a is None or b is None else a + b
        if isinstance(x, ast.Call) and src(x.func) == 're.escape':
            return 'w'
        if isinstance(x, ast.Call) and isinstance(x.func, ast.Attribute) and x.func.attr == 'join' and len(x.args) == 1:
            sep = t(x.func.value, depth + 1)
            if sep is None:
                return None
            inner = x.args[0]
            item = None
            if isinstance(inner, ast.Call) and is_name(inner.func, 'map') and inner.args and src(inner.args[0]) == 're.escape':
                item = 'w'
            elif isinstance(inner, (ast.GeneratorExp, ast.ListComp)):
                item = t(inner.elt, depth + 1)
            elif isinstance(inner, (ast.Tuple, ast.List)):
                parts = [t(y, depth + 1) for y in inner.elts]
                return None if any(p_ is None for p_ in parts) else sep.join(parts)
            if item is None:
                return None
            return item + sep + item + sep + item
        if isinstance(x, ast.JoinedStr):
            out = ''
            for v_ in x.values:
                if isinstance(v_, ast.Constant):
                    out += v_.value
                else:
                    p_ = t(v_.value, depth + 1)
                    out += p_ if p_ is not None else 'w'
            return out
        if isinstance(x, ast.Name):
            # a local assembled from fragments
            f = repo.enclosing_func(mod, x)
            if f is not None:
                from ..astutil import local_defs
                ds = [d for d in local_defs(f.node).get(x.id, []) if isinstance(d, ast.AST)]
                if len(ds) == 1:
                    return t(ds[0], depth + 1)
        return None
    return t(e)
