"""C17 -- procedural bodies (CREATE ... BEGIN ... END;) stay one statement."""
import ast
import copy
from ..model import AnalysisError as model_AnalysisError

from .. import miniev as ME
from .. import rules_splitter as RS
from .. import vocab as VC
from ..astutil import enum_paths, src, is_name, is_attr, sym_path
from ..fold import TT, NotConst
from ..model import own_nodes
from ..tables import get_tables

EXPLANATION = (
    'Decided: the split-level protocol is balanced for each construct named in the property. R17.1 extracts the transfer '
    'table of StatementSplitter._change_splitlevel by path enumeration (guard on token type / normalised keyword / flags -> '
    'level delta and flag updates). R17.3 explores the extracted finite-state transducer (flags from _reset, level, depth) '
    'on the keyword skeletons of the constructs listed in the property (BEGIN..END, IF..END IF, WHILE..END WHILE, FOR/WHILE/'
    'LOOP..END LOOP, CASE expression, CASE..END CASE, DECLARE sections, cursor FOR), alone and nested in each other, with '
    'the token alphabet taken from the lexer table: every inner ";" must see level >= 1 and the ";" after the final END must '
    'see level <= 0. This is a protocol check over the extracted table on a finite alphabet; the splitter is not run. R17.2: '
    'compound keywords the lexer fuses (END IF, END LOOP, ...) agree with the closers the table handles (vocabulary '
    'shadowing). R17.4: per-statement state is completely reset. R17.5: the driver loop classifies each token exactly once, after the '
    'yield/_reset() of the previous statement, and adds the delta to self.level before the append. Not decided: unbounded nesting depth (pairs are checked) '
    'and bodies that use keywords as identifiers.')

SPLITTER = RS.SPLITTER

# skeletons: tokens separated by blanks, "_" inside a token = blank, ";" inner terminator, ";!" statement end
BODY = {
    'K1:BEGIN..END': 'BEGIN SELECT 1 ; {} END ;',
    'K2:IF..END IF': 'IF x THEN SELECT 1 ; {} ELSE SELECT 2 ; END_IF ;',
    'K3:WHILE..END WHILE': 'WHILE x DO SELECT 1 ; {} END_WHILE ;',
    'K4:FOR..END LOOP': 'FOR r IN c LOOP SELECT 1 ; {} END_LOOP ;',
    'K5:WHILE..LOOP..END LOOP': 'WHILE x LOOP SELECT 1 ; {} END_LOOP ;',
    'K6:LOOP..END LOOP': 'LOOP SELECT 1 ; {} END_LOOP ;',
    'K8:CASE..END CASE': 'CASE x WHEN 1 THEN SELECT 1 ; {} ELSE SELECT 2 ; END CASE ;',
}
LEAF = {
    'K7:CASE expression': 'SELECT CASE WHEN a THEN 1 ELSE 2 END ;',
    'K7n:nested CASE expression': 'SELECT CASE WHEN a THEN CASE WHEN b THEN 1 END ELSE 2 END ;',
    'K10:cursor FOR': 'DECLARE c CURSOR FOR SELECT 1 ;',
    'K11:DROP statement in body': 'DROP TABLE t ;',
    'K12:ALTER/TRUNCATE statements in body': 'ALTER TABLE t ADD c int ; TRUNCATE TABLE t ;',
    'K13:INSERT ... SELECT in body': 'INSERT INTO t SELECT a FROM u WHERE a IN ( 1 , 2 ) ;',
}
PRE = 'SELECT 0 ;! CREATE_OR_REPLACE PROCEDURE p ( ) '
POST = ' END ;! SELECT 9 ;!'


def run(ctx):
    ctx.engines |= {'paths', 'tables', 'kinds'}
    ctx.rule('R17.1', 'transfer table of _change_splitlevel extracted by path enumeration: every path returns a constant delta', floor=8)
    ctx.rule('R17.2', 'closer agreement: compound keywords the lexer fuses are known to the split-level table', floor=3)
    ctx.rule('R17.3', 'protocol balance on the construct skeletons: inner ";" at level >= 1, final ";" at level <= 0, following statements separate', floor=15)
    ctx.rule('R17.4', 'per-statement state is completely reset; block keywords are lexed as Keyword tokens', floor=8)
    ctx.rule('R17.5', 'driver order: per token one _change_splitlevel(ttype, value) after the yield/_reset of the previous statement; its delta goes to self.level before the append', floor=2)
    RS.check_driver_order(ctx, 'R17.5')
    V = VC.get_vocab(ctx)
    rows = transfer_table(ctx)
    ctx.info['transfer_table'] = rows
    lits = VC.collect_matchlits(ctx)
    VC.check_shadowing(ctx, V, lits, 'R17.2', families={'splitter'})
    RS.check_reset_completeness(ctx, 'R17.4')
    check_block_keywords(ctx, V)
    check_protocol(ctx, V)
    from .. import rules_base as RB
    from .. import rules_lexer as RL_
    ctx.rule('R17.S', 'Lexer.get_tokens interpreted on short texts agrees token by token with the rule-table model the other rules use', floor=1)
    RL_.check_scan_semantics(ctx, 'R17.S')
    ctx.rule('R17.B', 'base model: token-type containment and token normal form behave as the protocol evaluation assumes', floor=1)
    RB.check_base_model(ctx, 'R17.B', parts=('contains', 'flags'))
    # the level protocol lives in one StatementSplitter object per script: the entry points must give the whole script to one run
    from .. import rules_regions as RR
    ctx.rule('R17.8', 'literals and comments inside a body are single tokens: a ";" or END inside them cannot reach the protocol (region rules of the lexer)', floor=10)
    RR.check_regions(ctx, 'R17.8', quick=True)
    from .. import rules_stack as RK
    ctx.rule('R17.6', 'one splitter pass sees the whole script: pipeline shape of parse/parsestream/FilterStack.run', floor=10)
    RK.check_parse_pipeline(ctx, 'R17.6')


def transfer_table(ctx):
    f = ctx.repo.func(SPLITTER + '._change_splitlevel')
    rows = []
    for p in enum_paths(f.node.body):
        guards = ' ∧ '.join(('' if pol else 'not ') + src(t) for t, pol in p.tests())
        st = p.stmts()
        ret = st[-1] if st and isinstance(st[-1], ast.Return) else None
        loc = f'{f.mod.relpath}:{ret.lineno if ret else f.node.lineno}'
        delta = None
        if ret is not None and ret.value is not None:
            try:
                delta = ctx.folder.eval(ret.value, f.mod)
            except NotConst:
                delta = None
        upd = [src(s) for s in st if isinstance(s, (ast.Assign, ast.AugAssign)) and any(
            is_attr(t, None, 'self') for t in (s.targets if isinstance(s, ast.Assign) else [s.target]))]
        ok = p.exit == 'return' and isinstance(delta, int) and not isinstance(delta, bool)
        ctx.ob('R17.1', f'row[{guards}]', loc, 'path returns a constant integer level delta', ok,
               f'exit {p.exit}, returns `{src(ret.value) if ret is not None and ret.value is not None else None}`')
        rows.append({'guard': guards, 'delta': delta, 'updates': upd})
    return rows


def check_block_keywords(ctx, V):
    KW = TT(('Keyword',))
    for w in ('BEGIN', 'END', 'IF', 'FOR', 'WHILE', 'CASE', 'DECLARE', 'LOOP', 'END IF', 'END LOOP', 'END WHILE'):
        types, broken = V.emit_types(w, contexts=[' ', '\n', ';'])
        ok = types == {KW} and not broken
        ctx.ob('R17.4', f'keyword:{w}', 'sqlparse/keywords.py', f'{w!r} is lexed as one token of type exactly Keyword before blank/newline/";"', ok,
               f'types {types}, not one token in {broken[:2]}')
    types, _ = V.emit_types('CREATE', contexts=[' '])
    ok = types == {TT(('Keyword', 'DDL'))}
    ctx.ob('R17.4', 'keyword:CREATE', 'sqlparse/keywords.py', 'CREATE [OR REPLACE] is lexed as Keyword.DDL', ok, f'{types}')


def initial_state(ctx):
    r = ctx.repo.func(SPLITTER + '._reset')
    st = {}
    for s in r.node.body:
        if isinstance(s, ast.Assign) and is_attr(s.targets[0], None, 'self'):
            try:
                st[s.targets[0].attr] = ctx.folder.eval(s.value, r.mod)
            except NotConst:
                ctx.need(False, f'{r.mod.relpath}:{s.lineno}: _reset value `{src(s.value)}` is not a constant')
    return st


SPELLING = {'sep': ' ', 'lower': False}


def lex_item(ctx, V, item):
    text = item.replace('_', SPELLING['sep'])
    if SPELLING['lower']:
        text = text.lower()
    r, end, tt = V.T.lex_one(text + ' ', 0)
    ctx.need(end == len(text), f'skeleton item {text!r} is not lexed as one token (ends at {end}): the skeleton table needs updating')
    return tt, text


def _simulate_levels(ctx, V, script, f, init):
    """returns list of (kind, split, level_after, state) at each terminator; drives _change_splitlevel alone (state from _reset)"""
    ev = ME.Evaluator(ctx, f.mod, f.cls)
    state = ME.Obj(_cls=f.cls, **copy.deepcopy(init))
    out = []
    for item in script.split():
        final = item == ';!'
        tok = ';' if item in (';', ';!') else item
        tt, text = lex_item(ctx, V, tok)
        env = {'self': state, f.params[1]: tt, f.params[2]: text}
        delta = ME.run_function(ev, f.node, env)
        if not isinstance(delta, int):
            raise ME.Unsupported(f'_change_splitlevel returned {delta!r} for {text!r}')
        state.level = state.level + delta
        if tok == ';':
            split = state.level <= 0
            out.append(('final' if final else 'inner', split, state.level,
                        {k: v for k, v in state.__dict__.items() if k.startswith('_') and k != '_cls'}))
            if split:
                state = ME.Obj(_cls=f.cls, **copy.deepcopy(init))
    return out


def simulate(ctx, V, script, f, init):
    """The verdict comes from StatementSplitter.process itself when it is evaluable (state kept in process -- the previous keyword, the
    start of a line -- takes part); the level numbers in the messages, and the verdict otherwise, from driving _change_splitlevel alone."""
    try:
        tr = simulate_process(ctx, V, script)
    except (ME.Unsupported, ME.Unknown) as e:
        ctx.info['splitter_process_not_evaluable'] = str(e)[:200]
        return _simulate_levels(ctx, V, script, f, init)
    ctx.info['splitter_process_simulated'] = ctx.info.get('splitter_process_simulated', 0) + 1
    try:
        lv = _simulate_levels(ctx, V, script, f, init)
    except (ME.Unsupported, ME.Unknown, ME.Crash):
        lv = None
    if lv is not None and len(lv) == len(tr):
        tr = [(k, sp, l2 if sp == sp2 else None, fl2 if sp == sp2 else {}) for (k, sp, _, _), (_, sp2, l2, fl2) in zip(tr, lv)]
    return tr


def run_process(ctx, stream):
    """StatementSplitter().process(stream) interpreted: the token lists of the statements it yields"""
    repo = ctx.repo
    cls = repo.cls(SPLITTER)
    o = ME.Obj(_cls=cls)
    ev = ME.Evaluator(ctx, cls.methods['process'].mod, cls)
    ev.effects = True
    if repo.lookup_method(cls, '__init__') is not None:
        ev._obj_method(o, '__init__')()
    stmts = ev._obj_method(o, 'process')(list(stream))
    out = []
    for st in (stmts if isinstance(stmts, list) else list(stmts)):
        toks = getattr(st, 'tokens', None)
        if not isinstance(toks, list):
            raise ME.Unsupported('process yields something that is not a statement')
        out.append(toks)
    return out


def simulate_process(ctx, V, script):
    """The same scripts through StatementSplitter.process itself (interpreted with _reset, _change_splitlevel and whatever else it calls),
    fed with the token stream of the script -- items one blank apart (SPELLING['sep'] inside multi-word items).  The trace has one entry per
    terminator: (kind, a statement ends right behind it, None, {}).  Raises ME.Unsupported / ME.Unknown when process is not evaluable."""
    repo = ctx.repo
    cls = repo.cls(SPLITTER)
    WSP = TT(('Text', 'Whitespace'))
    stream, marks = [], []
    for item in script.split():
        final = item == ';!'
        tok = ';' if item in (';', ';!') else item
        tt, text = lex_item(ctx, V, tok)
        if stream:
            stream.extend(SPELLING.get('between') or [(WSP, ' ')])
        stream.append((tt, text))
        if tok == ';':
            marks.append((len(stream) - 1, 'final' if final else 'inner'))
    o = ME.Obj(_cls=cls)
    ev = ME.Evaluator(ctx, cls.methods['process'].mod, cls)
    ev.effects = True
    init = repo.lookup_method(cls, '__init__')
    if init is not None:
        ev._obj_method(o, '__init__')()
    stmts = ev._obj_method(o, 'process')(list(stream))
    if not isinstance(stmts, list):
        stmts = list(stmts)
    ends, pos = set(), 0
    for st in stmts:
        toks = getattr(st, 'tokens', None)
        if not isinstance(toks, list):
            raise ME.Unsupported('process yields something that is not a statement')
        pos += len(toks)
        ends.add(pos)
    out = []
    for idx, kind in marks:
        # a statement ends behind this terminator if a boundary lies between it and the next significant token
        nxt = next((j for j in range(idx + 1, len(stream)) if not WSP.contains(stream[j][0])), len(stream))
        out.append((kind, any(idx < e <= nxt for e in ends), None, {}))
    if pos != len(stream):
        raise ME.Crash(f'process yields {pos} tokens for a stream of {len(stream)}')
    return out


def judge(trace):
    """None if the trace is as the property demands, else a description"""
    for i, (kind, split, level, flags) in enumerate(trace):
        if kind == 'inner' and split:
            return f'terminator #{i + 1} inside the body is seen at level {level} <= 0: the CREATE statement is cut there'
        if kind == 'final' and not split:
            return f'the ";" that ends statement #{i + 1} is seen at level {level} > 0 (flags {flags}): following statements are swallowed'
    return None


def check_protocol(ctx, V):
    f = ctx.repo.func(SPLITTER + '._change_splitlevel')
    init = initial_state(ctx)
    ctx.need('level' in init, '_reset does not initialise self.level')
    loc = f'{f.mod.relpath}:{f.node.lineno}'
    results = {}

    def run_one(name, body):
        script = PRE + 'BEGIN ' + body + POST
        try:
            tr = simulate(ctx, V, script, f, init)
            return judge(tr)
        except ME.Unsupported as e:
            if 'of abstract object' in str(e):
                return f'evaluation fails: {e} (state attribute not initialised by _reset)'
            ctx.ob('R17.3', f'skeleton:{name}', loc, f'skeleton {name} evaluable on the extracted table', None, str(e))
            return 'undetermined'
        except (ME.Unknown, ME.Crash) as e:
            return f'evaluation fails: {e}'
    # plain statements outside CREATE must split at every ";"
    plain = {
        'plain statements': 'SELECT 1 ;! BEGIN ;! SELECT 2 ;! END ;! SELECT ( 3 ) ;!',
        'CREATE TABLE IF NOT EXISTS': 'CREATE TABLE IF NOT EXISTS t ( a int ) ;! SELECT 1 ;! DROP TABLE IF EXISTS t ;! SELECT 2 ;!',
        'CREATE VIEW with CASE expression': 'CREATE_OR_REPLACE VIEW v AS SELECT CASE WHEN a THEN 1 ELSE 2 END FROM t ;! SELECT 2 ;!',
        'CREATE INDEX ... FOR / WHILE words': 'CREATE TABLE t ( a int ) ;! SELECT 1 FOR UPDATE ;! SELECT 2 ;!',
    }
    for name, script in plain.items():
        try:
            bad = judge(simulate(ctx, V, script, f, init))
        except ME.Unsupported as e:
            ctx.ob('R17.3', f'skeleton:{name}', loc, 'skeleton evaluable on the extracted table', None, str(e))
            continue
        except (ME.Unknown, ME.Crash) as e:
            bad = f'evaluation fails: {e}'
        ctx.ob('R17.3', f'skeleton:{name}', loc, f'{name}: every statement ends at its own top-level ";"', bad is None, bad or '')
    singles = {}
    for name, body in list(BODY.items()):
        singles[name] = run_one(name, body.format(''))
    for name, body in LEAF.items():
        singles[name] = run_one(name, body)
    # the same constructs in the other spellings the lexer hands out as one token: lower case, and tab / line break / two blanks /
    # CRLF between the words of END IF, END LOOP, CREATE OR REPLACE ...  The verdict must not depend on the spelling.
    ctx.rule('R17.7', 'the protocol does not depend on how a keyword is spelled (letter case, whitespace inside multi-word keywords)', floor=1)
    nsp = 0
    for sep, lower, label in ((' ', True, 'lower case'), ('\t', False, 'tab inside'), ('\n', False, 'line break inside'), ('  ', False, 'two blanks inside'),
                              ('\r\n', True, 'CRLF inside, lower case')):
        diffs = []
        SPELLING.update(sep=sep, lower=lower)
        try:
            for name, body in list(BODY.items()) + list(LEAF.items()):
                if singles.get(name, 'x') is not None:
                    continue            # not balanced in the canonical spelling either: a listed finding, not a spelling matter
                text = body.format('') if name in BODY else body
                try:
                    r_ = run_one(name + ' [' + label + ']', text)
                except model_AnalysisError:
                    r_ = 'an item is no longer one token in this spelling'
                if r_ not in (None, 'undetermined'):
                    diffs.append(f'{name}: {r_}')
                nsp += 1
        finally:
            SPELLING.update(sep=' ', lower=False)
        ctx.ob('R17.7', f'spelling:{label}', loc, f'every construct that is balanced in upper case with single blanks is balanced with {label}', not diffs,
               f'{diffs[:2]}: e.g. `END{sep!r}IF` written that way is not recognised as the closer, the body never returns to level 0 and the following statements are swallowed')
    # DECLARE before BEGIN
    try:
        tr = simulate(ctx, V, 'SELECT 0 ;! CREATE FUNCTION f ( ) RETURNS int AS DECLARE x int ; y int ; BEGIN SELECT 1 ; END ;! SELECT 9 ;!', f, init)
        singles['K9:DECLARE before BEGIN'] = judge(tr)
    except ME.Unsupported as e:
        singles['K9:DECLARE before BEGIN'] = 'undetermined'
    for name, bad in singles.items():
        if bad == 'undetermined':
            continue
        ctx.ob('R17.3', f'skeleton:{name}', loc, f'construct {name} inside CREATE ... BEGIN ... END; is balanced', bad is None, bad or '')
    # nesting: only interactions of constructs that are balanced on their own are reported separately
    good_bodies = [n for n in BODY if singles.get(n) is None]
    good_all = good_bodies + [n for n in LEAF if singles.get(n) is None]
    n_pairs = 0
    for outer in good_bodies:
        for inner in good_all:
            inner_text = BODY[inner].format('') if inner in BODY else LEAF[inner]
            bad = run_one(f'{outer}({inner})', BODY[outer].format(inner_text))
            if bad == 'undetermined':
                continue
            n_pairs += 1
            ctx.ob('R17.3', f'nest:{outer.split(":")[0]}({inner.split(":")[0]})', loc, f'{inner} nested in {outer} is balanced', bad is None, bad or '')
            # followed by a second construct (flags must be restored)
        for inner in good_all:
            for third in good_all[:3]:
                pass
    # sequences: a leaf construct followed by a block construct in the same body (flag restoration)
    for a in good_all:
        for b in good_bodies:
            ta = BODY[a].format('') if a in BODY else LEAF[a]
            bad = run_one(f'{a};{b}', ta + ' ' + BODY[b].format(''))
            if bad == 'undetermined':
                continue
            n_pairs += 1
            ctx.ob('R17.3', f'seq:{a.split(":")[0]};{b.split(":")[0]}', loc, f'{a} followed by {b} leaves the protocol balanced', bad is None, bad or '')
    if ctx.tier == 'thorough':
        for o1 in good_bodies:
            for o2 in good_bodies:
                for inner in good_all:
                    it = BODY[inner].format('') if inner in BODY else LEAF[inner]
                    bad = run_one(f'{o1}({o2}({inner}))', BODY[o1].format(BODY[o2].format(it)))
                    if bad == 'undetermined':
                        continue
                    n_pairs += 1
                    ctx.ob('R17.3', f'nest3:{o1.split(":")[0]}({o2.split(":")[0]}({inner.split(":")[0]}))', loc,
                           f'depth-3 nesting {o1}({o2}({inner})) is balanced', bad is None, bad or '')
    ctx.info['skeletons'] = {'singles': len(singles), 'combinations': n_pairs}
