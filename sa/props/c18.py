"""C18 -- Statement.get_type() names the leading DML/DDL keyword (thin)."""
import ast
from .. import rx

from .. import kinds as KD
from .. import miniev as ME
from .. import vocab as VC
from ..astutil import Guards, src, is_name, is_attr
from ..fold import TT, NotConst, ClsRef
from ..model import own_nodes
from ..tables import get_tables

EXPLANATION = (
    'Thin claim. R18.1: get_type takes its token from token_first(skip_cm=True) and token_first\'s matcher, evaluated on every '
    'token kind, rejects exactly whitespace, comment leaves and sql.Comment groups. R18.2: the answer is token.normalized '
    'under `ttype in (DML, DDL)`, "UNKNOWN" otherwise, and a CTE arm walks Identifier/IdentifierList to the next DML keyword. '
    'R18.3 (table agreement): every dictionary word typed Keyword.DML/DDL/CTE and the CREATE rule reach the parser with that '
    'type in each right context (blank, newline, ";", "(", "."): an earlier rule that re-types the word is reported. R18.4: '
    'the normal form returned is upper case with single blanks (descriptor of Token.normalized). R18.5: the CTE walk does not '
    'skip comments itself, so it relies on align_comments folding every comment that follows a group into that group; the '
    'guard of that fold must be exactly isinstance(prev_, sql.TokenList). Not decided: the CTE walk result on arbitrary statements.')


def run(ctx):
    ctx.engines |= {'tables', 'kinds', 'paths'}
    ctx.rule('R18.1', 'leading token is found past whitespace and comments (matcher of token_first on every kind)', floor=20)
    ctx.rule('R18.2', 'get_type returns token.normalized for DML/DDL, walks CTEs, else UNKNOWN', floor=3)
    ctx.rule('R18.3', 'keyword shadowing: DML/DDL/CTE words keep their type in every right context', floor=5)
    ctx.rule('R18.4', 'the returned keyword text is upper case with single blanks', floor=1)
    ctx.rule('R18.5', 'comments between the CTE definitions and the DML keyword are folded into the preceding group (or skipped by the walk)', floor=1)
    KD.check_imt_shape(ctx)
    V = VC.get_vocab(ctx)
    check_token_first(ctx, V)
    check_get_type(ctx)
    check_shadowing(ctx, V)
    desc, node = VC.normalized_descriptor(ctx)
    ctx.ob('R18.4', 'Token.normalized', f'sqlparse/sql.py:{node.lineno}',
           'keyword text is normalised to upper case with single blanks (CREATE  OR   REPLACE -> CREATE OR REPLACE)',
           bool(desc['upper']) and str(desc['upper']) == 'upper' and bool(desc['ws']),
           f'descriptor {desc}: get_type() returns the keyword as spelled (inner whitespace / case kept)')
    check_cte_comments(ctx)
    from .. import rules_base as RB
    # the CTE walk relies on the CTE bodies being Parenthesis groups whatever the size of the statement
    from .. import rules_tree as RT2
    ctx.rule('R18.6', 'parentheses are grouped in statements of any size: no size/depth cut-off in the matching driver', floor=1)
    RT2.check_no_cutoff(ctx, 'R18.6', only={'_group_matching'})
    from .. import rules_lexer as RL_
    ctx.rule('R18.S', 'Lexer.get_tokens interpreted on short texts agrees token by token with the rule-table model the other rules use', floor=1)
    RL_.check_scan_semantics(ctx, 'R18.S')
    ctx.rule('R18.B', 'base model: containment, flags, Token.match, imt and token_first/token_next behave as the abstract evaluation assumes', floor=1)
    RB.check_base_model(ctx, 'R18.B', parts=('contains', 'flags', 'match', 'imt', 'nav'))


def check_token_first(ctx, V):
    repo = ctx.repo
    g = repo.func('sqlparse.sql.Statement.get_type')
    calls = [n for n in own_nodes(g.node) if isinstance(n, ast.Call) and is_attr(n.func, 'token_first', 'self')]
    ok = len(calls) == 1 and any(k.arg == 'skip_cm' and isinstance(k.value, ast.Constant) and k.value.value is True for k in calls[0].keywords) \
        and not any(k.arg == 'skip_ws' and not (isinstance(k.value, ast.Constant) and k.value.value is True) for k in calls[0].keywords)
    ctx.ob('R18.1', 'get_type:token_first(skip_cm=True)', f'{g.mod.relpath}:{g.node.lineno}', 'get_type asks for the first token skipping whitespace and comments',
           ok, f'calls: {[src(c) for c in calls]}')
    f = repo.func('sqlparse.sql.TokenList.token_first')
    factory_env = {}
    m = None
    from ..astutil import local_defs
    from ..cg import get_cg
    cg = get_cg(ctx)
    # the predicate handed to self._token_matching(...): a nested def, or the closure returned by a factory call
    tm = [n for n in own_nodes(f.node) if isinstance(n, ast.Call) and is_attr(n.func, '_token_matching', 'self') and n.args]
    cands = []
    for c in tm:
        a = c.args[0]
        if isinstance(a, ast.Name):
            if a.id in f.nested:
                m = f.nested[a.id]
            cands += [d for d in local_defs(f.node).get(a.id, []) if isinstance(d, ast.Call)]
        elif isinstance(a, ast.Call):
            cands.append(a)
    if m is None:
        for d in cands:
            for cq in cg.callees_of_call(f.qname, d):
                fac = repo.funcs[cq]
                rets_ = [r for r in own_nodes(fac.node, include_lambdas=False) if isinstance(r, ast.Return) and is_name(r.value)]
                if rets_ and rets_[0].value.id in fac.nested:
                    m = fac.nested[rets_[0].value.id]
                    for pn, a in zip(fac.params, d.args):
                        factory_env[pn] = src(a)
                    for k in d.keywords:
                        factory_env[k.arg] = src(k.value)
    ctx.need(m is not None, 'TokenList.token_first no longer defines (or obtains from a factory) a matcher closure')
    rets = [n for n in own_nodes(f.node, include_lambdas=False) if isinstance(n, ast.Return)]
    rv = rets[0].value if len(rets) == 1 else None
    ok = isinstance(rv, ast.Subscript) and isinstance(rv.slice, ast.Constant) and rv.slice.value == 1 and len(tm) == 1 and rv.value is tm[0] \
        and len(tm[0].args) == 1 and not tm[0].keywords
    ctx.ob('R18.1', 'token_first:uses-matcher', f'{f.mod.relpath}:{f.node.lineno}', 'token_first returns the first child accepted by the matcher (scan from index 0)', ok,
           f'returns `{src(rets[0].value) if rets else None}`')
    ev = ME.Evaluator(ctx, f.mod, f.cls)
    kinds = KD.leaf_kinds(ctx, V.T) + [ME.AbsToken(repo, cls=c) for c in KD.group_classes(ctx)]
    COMMENT = TT(('Comment',))
    for k in kinds:
        is_comment = (k.ttype is not None and COMMENT.contains(k.ttype)) or (k.cls is not None and k.cls.name == 'Comment')
        want = not (k.is_whitespace or is_comment)
        env = {'skip_ws': True, 'skip_cm': True, m.params[0]: k}
        for pn, an in factory_env.items():
            env[pn] = True if an in ('skip_ws', 'skip_cm') else env.get(pn, True)
        try:
            got = bool(ME.run_function(ev, m.node, env))
        except (ME.Unknown, ME.Unsupported) as e:
            ctx.ob('R18.1', f'matcher:{k.label}', f'{f.mod.relpath}:{m.node.lineno}', 'matcher decidable on this kind', None, str(e))
            continue
        except ME.Crash as e:
            got = f'crash: {e}'
        ctx.ob('R18.1', f'matcher:{k.label}', f'{f.mod.relpath}:{m.node.lineno}',
               f'with skip_ws and skip_cm the matcher {"accepts" if want else "skips"} a {k.label} token', got == want,
               f'matcher gives {got}: leading {k.label} tokens {"hide" if want else "are taken as"} the statement keyword')


def check_get_type(ctx):
    repo, folder = ctx.repo, ctx.folder
    g = repo.func('sqlparse.sql.Statement.get_type')
    gd = Guards(g.node)
    loc = f'{g.mod.relpath}:{g.node.lineno}'
    rets = [n for n in own_nodes(g.node) if isinstance(n, ast.Return)]
    tokv = None
    for s in g.node.body:
        if isinstance(s, ast.Assign) and is_name(s.targets[0]) and isinstance(s.value, ast.Call) and is_attr(s.value.func, 'token_first', 'self'):
            tokv = s.targets[0].id
    ctx.need(tokv is not None, 'get_type no longer binds the result of token_first')
    norm = [r for r in rets if is_attr(r.value, 'normalized', tokv)]
    first_ok = False
    for r in norm:
        facts = [a for a in gd.facts(r) if a[0] != '|']
        for e, pol in facts:
            if pol and e.startswith(f'{tokv}.ttype in '):
                try:
                    v = folder.eval(ast.parse(e.split(' in ', 1)[1], mode='eval').body, g.mod)
                except (NotConst, SyntaxError):
                    continue
                vs = set(tuple(x) for x in (v if isinstance(v, tuple) and not isinstance(v, TT) else (v,)))
                if vs == {('Keyword', 'DML'), ('Keyword', 'DDL')}:
                    first_ok = True
    ctx.ob('R18.2', 'dml-ddl-arm', loc, 'for a leading token typed exactly Keyword.DML or Keyword.DDL get_type returns token.normalized', first_ok,
           'no `return token.normalized` guarded by `token.ttype in (T.Keyword.DML, T.Keyword.DDL)`')
    unknown = [r for r in rets if isinstance(r.value, ast.Constant) and r.value.value == 'UNKNOWN']
    other = [r for r in rets if r not in unknown and not is_attr(r.value, 'normalized')]
    ctx.ob('R18.2', 'unknown-arm', loc, 'every other return is the constant "UNKNOWN" or a DML token\'s normalized text', len(unknown) >= 1 and not other,
           f'other returns: {[src(r) for r in other]}')
    check_get_type_sim(ctx, g)


def check_get_type_sim(ctx, g):
    """get_type decided on concrete statement heads: the source of Statement.get_type (and of the TokenList helpers it calls)
    is interpreted on small trees; the answer must be the upper-cased leading DML/DDL keyword, for a WITH statement the DML
    keyword that follows the CTE definitions -- whatever shape grouping gives the definitions -- and UNKNOWN otherwise."""
    import itertools
    repo = ctx.repo
    loc = f'{g.mod.relpath}:{g.node.lineno}'
    WSP, CSG = TT(('Text', 'Whitespace')), TT(('Comment', 'Single'))
    DML, DDL, CTE, KW, NAME, PUN = TT(('Keyword', 'DML')), TT(('Keyword', 'DDL')), TT(('Keyword', 'CTE')), TT(('Keyword',)), TT(('Name',)), TT(('Punctuation',))
    cls = {k: repo.classes.get(f'sqlparse.sql.{v}') for k, v in (('S', 'Statement'), ('G', 'Comment'), ('I', 'Identifier'), ('L', 'IdentifierList'), ('P', 'Parenthesis'))}
    ctx.need(all(cls.values()), 'sqlparse.sql classes not found')
    leafs = {'w': (WSP, ' '), 'c': (CSG, '-- c\n'), 'sel': (DML, 'select'), 'ins': (DML, 'Insert'), 'cre': (DDL, 'create  or\nreplace'), 'with': (CTE, 'with'),
             'kw': (KW, 'data'), 'dname': (DML, 'start'), 'mat': (KW, 'materialized'), 'not': (KW, 'not'), 'as': (KW, 'as'), 'rec': (KW, 'recursive'), 'val': (KW, 'values'), 'x': (NAME, 'x'), '(': (PUN, '('), ')': (PUN, ')'), ',': (PUN, ',')}

    def build(shape):
        out = []
        for s_ in shape:
            if isinstance(s_, str):
                t_ = ME.AbsToken(repo, ttype=leafs[s_][0], value=leafs[s_][1])
                t_.parent = None
                out.append(t_)
            else:
                out.append(group(cls[s_[0]], build(s_[1])))
        return out

    def group(c_, kids):
        g_ = ME.AbsToken(repo, cls=c_)
        g_.tokens, g_.parent, g_.is_whitespace = kids, None, False
        g_.value = ''.join(k.value for k in kids)
        for k in kids:
            k.parent = g_
        return g_

    def show(shape):
        return ' '.join(s_ if isinstance(s_, str) else f'{s_[0]}[{show(s_[1])}]' for s_ in shape)
    ident = ('I', ['x'])
    ilist = ('L', [('I', ['x']), '(', ('I', ['x'])])
    paren = ('P', ['(', 'sel', ')'])
    cm = ('G', ['c'])
    prefixes = [[], ['w'], [cm, 'w'], ['w', cm, 'w'], ['c'], ['w', 'c', 'w'], [cm, cm]]
    tail = ['w', ident]
    cases = []
    for pre in prefixes:
        for first, want in (('sel', 'SELECT'), ('ins', 'INSERT'), ('cre', 'CREATE OR REPLACE'), ('kw', 'UNKNOWN'), (ident, 'UNKNOWN'), (paren, 'UNKNOWN')):
            cases.append(('lead', pre + [first] + tail, want))
        cases.append(('lead', pre, 'UNKNOWN'))
        defs = [[ident], [ilist], ['kw', 'w', 'as', 'w', paren], [ident, 'w', 'kw', 'w', paren], ['rec', 'w', ident], [ident, 'w', cm],
                [ident, '(', ident], ['kw', 'w', 'as', 'w', paren, '(', 'w', ident],
                # a CTE named with a non-reserved word of the DML class (start, replace, merge, commit ...)
                ['dname', 'w', 'as', 'w', paren], ['dname', 'w', 'as', 'w', 'mat', 'w', paren], ['dname', 'w', cm, 'as', 'w', 'not', 'w', 'mat', 'w', paren],
                [ident, 'w', 'as', 'w', paren, ',', 'w', 'dname', 'w', 'as', 'w', paren], ['rec', 'w', 'dname', 'w', 'as', 'w', paren]]
        # what follows the keyword must not matter: a name, AS (SELECT AS STRUCT ...), a comment and AS, a parenthesis, nothing
        tails = [tail, ['w', 'as', 'w', ident], ['w', cm, 'w', 'as', 'w', ident], [paren], []]
        for first, want in (('sel', 'SELECT'), ('ins', 'INSERT')):
            for tl in tails[1:]:
                cases.append(('lead', pre + [first] + tl, want))
        for d in defs:
            for dml, want in (('sel', 'SELECT'), ('ins', 'INSERT')):
                for tl in (tails if not pre else tails[:2]):
                    cases.append(('cte', pre + ['with', 'w'] + d + ['w', dml] + tl, want))
            cases.append(('cte-no-dml', pre + ['with', 'w'] + d, 'UNKNOWN'))
            cases.append(('cte-no-dml', pre + ['with', 'w'] + d + ['w', 'val', 'w', paren], 'UNKNOWN'))
        cases.append(('cte-no-dml', pre + ['with'], 'UNKNOWN'))
    bad = {}
    n = 0
    for kind, shape, want in cases:
        st = group(cls['S'], build(shape))
        ev = ME.Evaluator(ctx, g.mod, g.cls)
        try:
            got = ME.run_function(ev, g.node, {g.params[0]: st}, max_steps=500)
        except (ME.Unsupported, ME.Unknown) as e:
            ctx.ob('R18.2', 'simulation', loc, 'get_type is evaluable on small statement heads', None, f'{show(shape)}: {e}')
            return
        except ME.Crash as e:
            got = f'crash: {e}'
        n += 1
        if got != want:
            bad.setdefault(kind, []).append(f'[{show(shape)}] -> {got!r}, expected {want!r}')
    ctx.info['get_type_simulated_heads'] = n
    for kind, text in (('lead', 'leading DML/DDL keyword (behind whitespace and comments): upper-cased keyword with single blanks, else UNKNOWN'),
                       ('cte', 'WITH statement: the DML keyword that follows the CTE definitions, whatever shape grouping gives them (Identifier, '
                               'IdentifierList, ungrouped keyword name + AS + parenthesis, RECURSIVE, trailing comment)'),
                       ('cte-no-dml', 'WITH statement without a following DML keyword: UNKNOWN')):
        b = bad.get(kind, [])
        ctx.ob('R18.2', f'simulation:{kind}', loc, f'{text} ({sum(1 for k, _, _ in cases if k == kind)} heads interpreted)', not b,
               f'{len(b)} head(s) differ, e.g. {b[:2]}')


ACCEPT_CTX = {}


def check_shadowing(ctx, V):
    T = V.T
    want_types = {('Keyword', 'DML'), ('Keyword', 'DDL'), ('Keyword', 'CTE')}
    words = {}
    for name, d in T.kw:
        for w, tt in d.items():
            if isinstance(tt, TT) and tuple(tt) in want_types and T.lookup(w) == tt:
                words[w] = tt
    # two dictionaries that disagree on a statement keyword: the one registered first wins, so an entry that types the word
    # as plain Keyword / Name in an earlier dictionary silently takes it out of the DML/DDL vocabulary
    nshadow = 0
    for name, d in T.kw:
        for w, tt in d.items():
            if isinstance(tt, TT) and tuple(tt) in want_types:
                eff = T.lookup(w)
                nshadow += 1
                if eff != tt:
                    first = next((n2 for n2, d2 in T.kw if w in d2), '?')
                    ctx.ob('R18.3', f'shadowed:{w}', T.kwmod.relpath, f'{name}[{w!r}] = {tt!r} is the type the lexer gives {w}', False,
                           f'{first}[{w!r}] = {eff!r} is looked up first (registration order of the dictionaries): a statement starting '
                           f'with {w} gets get_type() == UNKNOWN instead of {w}')
    ctx.ob('R18.3', 'shadowed:inventory', T.kwmod.relpath, f'{nshadow} DML/DDL/CTE dictionary entries examined for shadowing by an earlier dictionary', nshadow >= 10, '')
    for r in T.lex:
        if isinstance(r.action, TT) and tuple(r.action) in want_types:
            for w in (V.rule_words.get(r.index) or ()):
                words[w] = r.action
    # a multi-word rule that starts with a statement keyword and gives the whole a different type: `WITH DATA`, `WITH TIES` as plain
    # Keyword take the WITH of `with data as (...) select ...` out of the CTE vocabulary (the second word can be any name)
    for w, tt in sorted(words.items()):
        if ' ' in w:
            continue
        for ext, ett in sorted(V.extensions(w).items()):
            ctx.ob('R18.3', f'extension:{ext}', T.kwmod.relpath, f'the multi-word keyword {ext!r} has the type of its first word {w} ({tt!r})',
                   isinstance(ett, TT) and tuple(ett) == tuple(tt),
                   f'{ext!r} is one token typed {ett!r}: a statement that starts with {w} followed by the name {ext.split(" ", 1)[1].lower()!r} '
                   f'(e.g. a CTE called {ext.split(" ", 1)[1].lower()}) has no {tt!r} token, get_type() returns UNKNOWN')
    ctx.info['dml_ddl_cte_words'] = sorted(words)
    core = {'SELECT': 'DML', 'INSERT': 'DML', 'UPDATE': 'DML', 'DELETE': 'DML', 'CREATE': 'DDL', 'ALTER': 'DDL', 'DROP': 'DDL',
            'CREATE OR REPLACE': 'DDL', 'WITH': 'CTE'}
    for w, sub in sorted(core.items()):
        got = words.get(w)
        ctx.ob('R18.3', f'core:{w}', T.kwmod.relpath, f'{w} is typed Keyword.{sub} by the keyword tables', got == TT(('Keyword', sub)),
               f'{w} is typed {got!r}: get_type() does not recognise a leading {w}')
    ctx.need(len(words) >= 10, 'fewer than 10 DML/DDL/CTE words found in the keyword tables')
    contexts = [(' ', 'blank'), ('\n', 'newline'), (';', 'semicolon'), ('(', 'open parenthesis'), ('.', 'period'), (' .', 'blank+period')]
    for cx, cname in contexts:
        bad = []
        for w, tt in sorted(words.items()):
            for spelled in (w, w.lower()):
                r, end, got = T.lex_one(spelled + cx + 'x', 0)
                if end != len(spelled) or got != tt:
                    bad.append((spelled, r.pattern if r else None, got))
        if not bad:
            ctx.ob('R18.3', f'context:{cname}', T.kwmod.relpath,
                   f'every DML/DDL/CTE keyword ({len(words)} words) keeps its type when followed by {cname}', True)
        for rp in sorted({b[1] for b in bad}, key=str):
            sub = [b for b in bad if b[1] == rp]
            line = next((x.line for x in T.lex if x.pattern == rp), 0)
            ctx.ob('R18.3', f'context:{cname}:rule={rx.canon_pattern(rp)}', f'{T.kwmod.relpath}:{line}',
                   f'no rule re-types a DML/DDL/CTE keyword followed by {cname}', False,
                   f'rule {rp!r} re-types {len(sub)} spellings, e.g. {[(b[0], repr(b[2])) for b in sub[:3]]}: get_type() returns UNKNOWN for '
                   f'e.g. `{sub[0][0]}{cx}...`')


def check_cte_comments(ctx):
    repo = ctx.repo
    g = repo.func('sqlparse.sql.Statement.get_type')
    lookups = [n for n in own_nodes(g.node) if isinstance(n, ast.Call) and is_attr(n.func, 'token_next', 'self')]
    skips_cm = bool(lookups) and all(any(k.arg == 'skip_cm' and isinstance(k.value, ast.Constant) and k.value.value is True for k in c.keywords)
                                     for c in lookups)
    loc = f'{g.mod.relpath}:{g.node.lineno}'
    if skips_cm:
        ctx.ob('R18.5', 'cte-walk-skips-comments', loc, 'the CTE walk skips comments itself', True)
        return
    a = repo.func('sqlparse.engine.grouping.align_comments')
    gd = Guards(a.node)
    calls = [n for n in own_nodes(a.node) if isinstance(n, ast.Call) and isinstance(n.func, ast.Attribute) and n.func.attr == 'group_tokens']
    ctx.need(len(calls) == 1, 'align_comments no longer has exactly one group_tokens call')
    w = [s for s in a.node.body if isinstance(s, ast.While)]
    base = set(gd.facts(w[0].body[0])) if w else set()
    facts = [x for x in gd.facts(calls[0]) if x not in base]
    # `while True: idx, tok = lookup(); if not tok: break` -- the truthiness of the looked-up token is the loop condition
    toks = set()
    for n in own_nodes(a.node):
        if isinstance(n, ast.Assign) and isinstance(n.targets[0], ast.Tuple) and len(n.targets[0].elts) == 2 and isinstance(n.value, ast.Call) \
                and isinstance(n.value.func, ast.Attribute) and n.value.func.attr == 'token_next_by' and is_name(n.targets[0].elts[1]):
            toks.add(n.targets[0].elts[1].id)
    facts = [x for x in facts if not (x[0] != '|' and x[1] and (x[0] in toks or any(x[0] == f'{t} is not None' for t in toks)))]
    prevv = None
    ok = len(facts) == 1 and facts[0][0] != '|' and facts[0][1] and facts[0][0].startswith('isinstance(') and facts[0][0].endswith(', sql.TokenList)')
    kw = {k.arg: src(k.value) for k in calls[0].keywords}
    ok = ok and kw.get('extend') == 'True'
    ctx.ob('R18.5', 'align_comments:fold-guard', f'{a.mod.relpath}:{calls[0].lineno}',
           'align_comments folds every sql.Comment whose previous sibling is a group into that group (guard exactly isinstance(prev_, sql.TokenList))',
           ok, f'fold guarded by {facts}: a comment can stay between the CTE definitions and the DML keyword, where get_type\'s CTE walk '
           '(token_next without skip_cm) does not look past it')
    # and align_comments runs in grouping.group
    grp = repo.func('sqlparse.engine.grouping.group')
    ctx.ob('R18.5', 'align_comments:in-pass-list', f'{grp.mod.relpath}:{grp.node.lineno}', 'align_comments is in the pass list',
           any(is_name(n, 'align_comments') for n in own_nodes(grp.node)), '')
