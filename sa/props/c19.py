"""C19 -- all input forms and front ends give the same result."""
import ast
import codecs

from .. import rules_stack as RK
from ..astutil import Guards, src, is_name, is_attr
from ..cg import get_cg
from ..fold import NotConst
from ..model import own_nodes

EXPLANATION = (
    'Decided: there is one decode point (R19.1: .decode/.read/open/TextIOWrapper occur only in Lexer.get_tokens and '
    'cli.main); the (sql, encoding) arguments are forwarded unchanged on every hop parse -> parsestream -> run -> tokenize '
    '-> get_tokens and from format and split (R19.2, parameter-forwarding dataflow); in get_tokens a stream is read once '
    'before the type dispatch, bytes are decoded with the given encoding, else UTF-8, else the documented Latin-1 fallback '
    '(R19.3, R19.4); parse is tuple(parsestream(...)) (R19.5); the command line decodes both input branches with '
    'args.encoding, reads newline-preserving, opens the output file with the same encoding, validates the options, and '
    'writes exactly sqlparse.format(data, **options) once; every argparse dest other than filename/outfile/encoding is an '
    'option validate_options reads (R19.6); for every combination of the boolean flags x each valued flag, the filter plan built from '
    'validate(validate(argparse defaults + flags)) equals the plan from validate(flags) -- validate_options, build_filter_stack and the '
    'parser table are interpreted on the enumerated dictionaries (R19.7). Not decided: equality of outputs as values; codec behaviour.')


def norm_codec(name):
    try:
        return codecs.lookup(name).name
    except (LookupError, TypeError):
        return None


def run(ctx):
    ctx.engines |= {'cg', 'paths'}
    ctx.rule('R19.1', 'who may decode: .decode( / .read( / open( / TextIOWrapper( occur only in Lexer.get_tokens and cli.main', floor=3)
    ctx.rule('R19.2', 'parameter forwarding: (text, encoding) flow unchanged through every hop to Lexer.get_tokens', floor=6)
    ctx.rule('R19.3', 'get_tokens: stream read precedes the type dispatch; bytes decoded with the given encoding, else UTF-8', floor=3)
    ctx.rule('R19.4', 'the no-encoding fallback codec is Latin-1 as documented', floor=1)
    ctx.rule('R19.5', 'parse returns tuple(parsestream(sql, encoding))', floor=1)
    ctx.rule('R19.6', 'CLI: decode with args.encoding (newline-preserving), same encoding for the output file, validated options, one write of sqlparse.format(data, **opts), every dest is a known option', floor=6)
    ctx.rule('R19.7', 'CLI/API option agreement: for every flag combination, validate(validate(parser defaults + flags)) and '
             'validate(flags only) give build_filter_stack the same filter plan', floor=15)
    repo = ctx.repo
    check_who_decodes(ctx)
    check_forwarding(ctx)
    check_get_tokens(ctx)
    RK_parse(ctx)
    check_cli(ctx)
    check_option_equivalence(ctx)


def RK_parse(ctx):
    p = ctx.repo.func('sqlparse.parse')
    rets = [n for n in own_nodes(p.node) if isinstance(n, ast.Return)]
    ok = False
    if len(rets) == 1 and isinstance(rets[0].value, ast.Call) and is_name(rets[0].value.func, 'tuple', 'list') and len(rets[0].value.args) == 1:
        c = rets[0].value.args[0]
        ok = isinstance(c, ast.Call) and RK.resolves_to(ctx, p, c.func, 'sqlparse.parsestream') \
            and [src(a) for a in c.args] == p.params[:2] and not c.keywords
    ctx.ob('R19.5', 'parse', f'{p.mod.relpath}:{p.node.lineno}', 'parse returns tuple(parsestream(sql, encoding))', ok,
           f'returns `{src(rets[0].value) if rets else None}`')


ALLOWED_DECODERS = {'sqlparse.lexer.Lexer.get_tokens', 'sqlparse.cli.main'}


def check_who_decodes(ctx):
    repo = ctx.repo
    from .. import rules_lexer as RL
    helper_qnames = {h.qname for h, _, _, _ in RL.decode_sites(ctx)[1:]}
    n = 0
    for f in repo.funcs.values():
        for c in own_nodes(f.node, include_lambdas=False):
            if not isinstance(c, ast.Call):
                continue
            kind = None
            if isinstance(c.func, ast.Attribute) and c.func.attr in ('decode', 'read', 'readlines', 'readline', 'encode'):
                kind = '.' + c.func.attr
            elif is_name(c.func, 'open', 'TextIOWrapper', 'bytes', 'bytearray') or src(c.func) in ('io.open', 'io.TextIOWrapper', 'codecs.open', 'codecs.decode'):
                kind = src(c.func)
                if kind in ('bytes', 'bytearray') and not c.args:
                    continue
            if kind is None:
                continue
            n += 1
            ok = f.qname in ALLOWED_DECODERS or f.mod.name == 'sqlparse.cli' or f.qname in helper_qnames
            ctx.ob('R19.1', f'{f.short}:{kind}:{src(c)[:50]}', f'{f.mod.relpath}:{c.lineno}',
                   f'`{src(c)[:60]}` ({kind}) is in the single decode point or the CLI', ok,
                   f'{f.short} decodes/reads input itself: input forms no longer share one decode point')
    ctx.need(n >= 3, 'no decode/read/open call found at all')


HOPS = [
    ('sqlparse.parse', 'sqlparse.parsestream', None),
    ('sqlparse.parsestream', RK.RUN, 'run'),
    ('sqlparse.format', RK.RUN, 'run'),
    ('sqlparse.split', RK.RUN, 'run'),
    (RK.RUN, 'sqlparse.lexer.tokenize', None),
    ('sqlparse.lexer.tokenize', 'sqlparse.lexer.Lexer.get_tokens', 'get_tokens'),
]


def check_forwarding(ctx):
    repo = ctx.repo
    cg = get_cg(ctx)
    for caller_q, callee_q, attr in HOPS:
        caller, callee = repo.func(caller_q), repo.func(callee_q)
        cparams = [p for p in caller.params if p not in ('self', 'cls')]
        text_p, enc_p = cparams[0], 'encoding'
        loc = f'{caller.mod.relpath}:{caller.node.lineno}'
        if enc_p not in caller.params:
            ctx.ob('R19.2', f'{caller.short}->{callee.short}', loc, f'{caller.short} has an `encoding` parameter', False,
                   'the entry point lost its encoding parameter')
            continue
        calls = [c for c, cs in cg.sites.get(caller_q, []) if callee_q in cs and (attr is None or (isinstance(c.func, ast.Attribute) and c.func.attr == attr))]
        if len(calls) != 1:
            ctx.ob('R19.2', f'{caller.short}->{callee.short}', loc, f'{caller.short} calls {callee.short} exactly once', False, f'{len(calls)} call sites')
            continue
        c = calls[0]
        kparams = [p for p in callee.params if p not in ('self', 'cls')]
        bound = {}
        for i, a in enumerate(c.args):
            if i < len(kparams):
                bound[kparams[i]] = a
        for k in c.keywords:
            if k.arg:
                bound[k.arg] = k.value
        t_ok = is_name(bound.get(kparams[0]), text_p)
        e_ok = is_name(bound.get('encoding'), enc_p)
        # and neither is reassigned before the call
        re_t = [n for n in own_nodes(caller.node) if isinstance(n, ast.Assign) and any(is_name(t, text_p, enc_p) for t in n.targets)
                and n.lineno <= c.lineno]
        if caller_q == 'sqlparse.lexer.Lexer.get_tokens':
            re_t = []
        ok = t_ok and e_ok and not re_t
        ctx.ob('R19.2', f'{caller.short}->{callee.short}', f'{caller.mod.relpath}:{c.lineno}',
               f'{caller.short} forwards ({text_p}, encoding) unchanged to {callee.short}', ok,
               f'call `{src(c)}`: text forwarded: {t_ok}, encoding forwarded: {e_ok}' +
               (f'; `{src(re_t[0])}` rebinds an argument first' if re_t else '') +
               ': this entry point decodes bytes with a different codec than the others')


def check_get_tokens(ctx):
    repo = ctx.repo
    f = repo.func('sqlparse.lexer.Lexer.get_tokens')
    g = Guards(f.node)
    textv, encv = f.params[1], f.params[2] if len(f.params) > 2 else None
    ctx.need(encv == 'encoding', 'Lexer.get_tokens lost its encoding parameter')
    body = f.node.body
    # stream read first: an `if isinstance(text, TextIOBase): text = text.read()` before the str/bytes dispatch
    idx_stream = idx_dispatch = None
    for i, s in enumerate(body):
        if isinstance(s, ast.If):
            t = src(s.test)
            if 'TextIOBase' in t and idx_stream is None:
                idx_stream = i
            elif f'isinstance({textv}, str)' in t.replace('  ', ' ') and idx_dispatch is None:
                idx_dispatch = i
    ok = idx_stream is not None and idx_dispatch is not None and idx_stream < idx_dispatch
    ctx.ob('R19.3', 'stream-before-dispatch', f'{f.mod.relpath}:{f.node.lineno}',
           'a text stream is read (once) before the str/bytes dispatch, so its contents take the same path as a str', ok,
           f'stream test at statement {idx_stream}, dispatch at {idx_dispatch}')
    if idx_stream is not None:
        s = body[idx_stream]
        reads = [n for n in ast.walk(s) if isinstance(n, ast.Call) and is_attr(n.func, 'read', textv)]
        ok = len(reads) == 1 and not reads[0].args and not s.orelse
        ctx.ob('R19.3', 'stream-read-all', f'{f.mod.relpath}:{s.lineno}', 'the stream is read completely with one read()', ok,
               f'`{src(s)[:80]}`')
    from .. import rules_lexer as RL
    seen_enc = seen_utf8 = seen_fb = 0
    for (df, dtext, denc, site_facts) in RL.decode_sites(ctx):
        dg = Guards(df.node)
        decs = [n for n in own_nodes(df.node) if isinstance(n, ast.Call) and isinstance(n.func, ast.Attribute) and n.func.attr == 'decode']
        handlers = {}
        for t in [n for n in ast.walk(df.node) if isinstance(n, ast.Try)]:
            for h in t.handlers:
                for n in ast.walk(h):
                    handlers[id(n)] = (t, h)
        for d in decs:
            facts = [x for x in dg.facts(d) if x[0] != '|'] + list(site_facts)
            loc = f'{df.mod.relpath}:{d.lineno}'
            in_bytes = any(p and 'bytes' in e and e.startswith('isinstance(') for e, p in facts)
            recv_ok = is_name(d.func.value, dtext)
            arg = d.args[0] if d.args else next((k.value for k in d.keywords if k.arg == 'encoding'), None)
            extra = [k.arg for k in d.keywords if k.arg != 'encoding'] + [src(a) for a in d.args[1:]]
            if denc is not None and (denc, True) in facts:
                seen_enc += 1
                ok = recv_ok and in_bytes and is_name(arg, denc) and not extra
                ctx.ob('R19.3', f'decode:with-encoding', loc, 'with an encoding argument bytes are decoded with exactly that encoding', ok,
                       f'`{src(d)}`')
            elif id(d) in handlers:
                seen_fb += 1
                t, h = handlers[id(d)]
                codec = arg.value if isinstance(arg, ast.Constant) else None
                okh = h.type is not None and 'UnicodeDecodeError' in src(h.type)
                nc = norm_codec(codec) if isinstance(codec, str) else None
                ok = recv_ok and okh and nc == 'iso8859-1' and not extra
                ctx.ob('R19.4', 'decode:fallback', loc,
                       'bytes that are not valid UTF-8 are read as Latin-1 (docs/source/api.rst: "utf-8 or latin-1")', ok,
                       f'`{src(d)}`: fallback codec {codec!r} (normalised {nc!r}) is not Latin-1: e.g. a backslash sequence in the bytes is '
                       'interpreted, so the result differs from format(bytes.decode("latin-1"))')
            else:
                seen_utf8 += 1
                codec = arg.value if isinstance(arg, ast.Constant) else None
                nc = norm_codec(codec) if isinstance(codec, str) else None
                ok = recv_ok and in_bytes and nc == 'utf-8' and not extra and denc is not None and (denc, False) in facts
                ctx.ob('R19.3', 'decode:utf-8-default', loc, 'without an encoding argument bytes are first decoded as plain UTF-8', ok,
                       f'`{src(d)}`: codec {codec!r} (normalised {nc!r}) is not plain UTF-8 (e.g. utf-8-sig drops a leading BOM that the str / '
                       'explicit-encoding paths keep)')
    ctx.ob('R19.3', 'decode:arms-present', f'{f.mod.relpath}:{f.node.lineno}', 'get_tokens has the three decode arms (given encoding, UTF-8, fallback)',
           seen_enc == 1 and seen_utf8 == 1 and seen_fb == 1, f'given-encoding arms: {seen_enc}, utf-8 arms: {seen_utf8}, fallback arms: {seen_fb}')


def check_cli(ctx):
    repo = ctx.repo
    f = repo.func('sqlparse.cli.main')
    g = Guards(f.node)
    loc0 = f'{f.mod.relpath}:{f.node.lineno}'
    argsv = 'args'

    def kw(c, name):
        return next((k.value for k in c.keywords if k.arg == name), None)
    # main plus the private helpers of cli.py it calls; a helper parameter is traced to the argument main passes
    cg = get_cg(ctx)
    helpers = {}
    for call, callees in cg.sites.get(f.qname, []):
        for cq in callees:
            h = repo.funcs[cq]
            if h.mod is f.mod and h.qname != f.qname and h.name not in ('create_parser', '_error'):
                bind = {}
                for i, a in enumerate(call.args):
                    if i < len(h.params):
                        bind[h.params[i]] = src(a)
                for k_ in call.keywords:
                    bind[k_.arg] = src(k_.value)
                helpers[h.qname] = (h, bind, call)

    def resolve_arg(fn, e):
        t = src(e) if e is not None else None
        if fn is not f and t in helpers[fn.qname][1]:
            return helpers[fn.qname][1][t]
        return t
    opens = []
    for fn in [f] + [h for h, _, _ in helpers.values()]:
        for n in own_nodes(fn.node):
            if isinstance(n, ast.Call) and (is_name(n.func, 'open', 'TextIOWrapper') or src(n.func) in ('io.open', 'io.TextIOWrapper')):
                opens.append((fn, n))
    n_in = n_out = 0
    for fn, c in opens:
        loc = f'{fn.mod.relpath}:{c.lineno}'
        mode = c.args[1].value if len(c.args) > 1 and isinstance(c.args[1], ast.Constant) else (kw(c, 'mode').value if isinstance(kw(c, 'mode'), ast.Constant) else 'r')
        enc = kw(c, 'encoding')
        enc_ok = enc is not None and resolve_arg(fn, enc) == f'{argsv}.encoding'
        is_wrapper = 'TextIOWrapper' in src(c.func)
        if is_wrapper or 'r' in mode:
            n_in += 1
            what = 'stdin' if is_wrapper else 'input file'
            ctx.ob('R19.6', f'cli:{what}:encoding', loc, f'{what} is decoded with args.encoding', enc_ok, f'`{src(c)}`')
            nl = kw(c, 'newline')
            nl_ok = isinstance(nl, ast.Constant) and nl.value == ''
            ctx.ob('R19.6', f'cli:{what}:newline', loc,
                   f'{what} is read without newline translation (format(decoded text) sees the same characters)', nl_ok,
                   f'`{src(c)}` uses universal newlines: "\\r\\n" / "\\r" inside a string literal or comment reach format() as "\\n", unlike '
                   'format(bytes.decode(enc))')
        else:
            n_out += 1
            ctx.ob('R19.6', 'cli:outfile:encoding', loc, 'the output file is opened with args.encoding', enc_ok and 'w' in mode, f'`{src(c)}`')
    ctx.ob('R19.6', 'cli:branches', loc0, 'the CLI has a stdin branch, a file branch and an output-file branch', n_in == 2 and n_out == 1,
           f'input opens: {n_in}, output opens: {n_out}')
    # options validated, then one write of sqlparse.format(data, **opts)
    vcalls = [n for n in own_nodes(f.node) if isinstance(n, ast.Call) and RK.resolves_to(ctx, f, n.func, 'sqlparse.formatter.validate_options')]
    fcalls = [n for n in own_nodes(f.node) if isinstance(n, ast.Call) and RK.resolves_to(ctx, f, n.func, 'sqlparse.format')]
    writes = [n for n in own_nodes(f.node) if isinstance(n, ast.Call) and isinstance(n.func, ast.Attribute) and n.func.attr == 'write']
    ok = len(vcalls) == 1 and len(fcalls) == 1 and vcalls[0].lineno < fcalls[0].lineno
    ctx.ob('R19.6', 'cli:validate-then-format', loc0, 'options go through validate_options before the single sqlparse.format call', ok,
           f'validate_options calls: {len(vcalls)}, format calls: {len(fcalls)}')
    if fcalls:
        c = fcalls[0]
        stars = [k for k in c.keywords if k.arg is None]
        ok = len(c.args) == 1 and is_name(c.args[0], 'data') and len(stars) == 1 and len(c.keywords) == 1
        data_defs = [n for n in own_nodes(f.node) if isinstance(n, ast.Assign) and any(is_name(t, 'data') for t in n.targets)]
        ctx.ob('R19.6', 'cli:format-args', f'{f.mod.relpath}:{c.lineno}', 'format receives the decoded text and the validated options unchanged', ok,
               f'`{src(c)}`')
        for d in data_defs:
            v = d.value
            def whole_read(x):
                return isinstance(x, ast.Call) and isinstance(x.func, ast.Attribute) and x.func.attr == 'read' and not x.args
            via_helper = False
            if isinstance(v, ast.Call):
                for h, bind, call in helpers.values():
                    if call is v:
                        rets = [r_ for r_ in own_nodes(h.node) if isinstance(r_, ast.Return)]
                        via_helper = bool(rets) and all(whole_read(r_.value) for r_ in rets)
            okd = via_helper or (isinstance(v, ast.Call) and isinstance(v.func, ast.Attribute) and v.func.attr == 'read' and not v.args) or \
                (isinstance(v, ast.Call) and isinstance(v.func, ast.Attribute) and v.func.attr == 'join' and isinstance(v.func.value, ast.Constant)
                 and v.func.value.value == '' and isinstance(v.args[0], ast.Call) and isinstance(v.args[0].func, ast.Attribute)
                 and v.args[0].func.attr == 'readlines')
            ctx.ob('R19.6', f'cli:data:{src(v)[:40]}', f'{f.mod.relpath}:{d.lineno}', 'data is the whole decoded input', okd, f'`{src(d)}`')
        fvar = None
        for n in own_nodes(f.node):
            if isinstance(n, ast.Assign) and n.value is c and is_name(n.targets[0]):
                fvar = n.targets[0].id
        wr = [w for w in writes if not (isinstance(w.func.value, ast.Attribute) and 'stderr' in src(w.func.value))]
        ok = len(wr) == 1 and len(wr[0].args) == 1 and (is_name(wr[0].args[0], fvar) or wr[0].args[0] is c)
        ctx.ob('R19.6', 'cli:single-write', loc0, 'the result of format() is written exactly once, unmodified', ok,
               f'writes: {[src(w) for w in wr]}')
    # every dest is a known option
    cp = repo.func('sqlparse.cli.create_parser')
    dests = []
    for n in own_nodes(cp.node):
        if isinstance(n, ast.Call) and isinstance(n.func, ast.Attribute) and n.func.attr == 'add_argument':
            d = kw(n, 'dest')
            act = kw(n, 'action')
            if isinstance(act, ast.Constant) and act.value in ('version', 'help'):
                continue
            if isinstance(d, ast.Constant):
                dests.append((d.value, n))
            else:
                flags = [a.value for a in n.args if isinstance(a, ast.Constant) and isinstance(a.value, str)]
                longs = [x for x in flags if x.startswith('--')]
                name = (longs[0][2:] if longs else flags[0].lstrip('-')).replace('-', '_')
                dests.append((name, n))
    vo = repo.func('sqlparse.formatter.validate_options')
    known = set()
    for n in own_nodes(vo.node):
        if isinstance(n, ast.Call) and isinstance(n.func, ast.Attribute) and n.func.attr == 'get' and is_name(n.func.value, vo.params[0]) \
                and n.args and isinstance(n.args[0], ast.Constant):
            known.add(n.args[0].value)
    ctx.info['cli_dests'] = [d for d, _ in dests]
    for d, n in dests:
        if d in ('filename', 'outfile', 'encoding'):
            continue
        ctx.ob('R19.6', f'cli:dest:{d}', f'{cp.mod.relpath}:{n.lineno}', f'command-line option dest `{d}` is an option validate_options reads', d in known,
               f'`{d}` is passed to format() but never validated/used: the flag has no effect or an unvalidated value reaches the filters')


def check_option_equivalence(ctx):
    """The command line hands validate_options the complete argparse namespace (every dest with its default) and then
    sqlparse.format validates the result again; the library user passes only the options they want.  Both must reach
    build_filter_stack with dictionaries that select the same filters with the same arguments.  Decided by evaluating the
    three option functions (AST interpretation over a finite set of dictionaries, optmodel.py) on every combination of the
    boolean flags x every valued flag one at a time."""
    import itertools
    from .. import optmodel as OM
    repo = ctx.repo
    f = repo.func('sqlparse.cli.main')
    nval = len([n for n in own_nodes(f.node) if isinstance(n, ast.Call) and RK.resolves_to(ctx, f, n.func, 'sqlparse.formatter.validate_options')])
    fmt = repo.func('sqlparse.format')
    nval_fmt = len([n for n in own_nodes(fmt.node) if isinstance(n, ast.Call) and RK.resolves_to(ctx, fmt, n.func, 'sqlparse.formatter.validate_options')])
    ctx.need(nval_fmt == 1, f'sqlparse.format calls validate_options {nval_fmt} times')
    opts = [o for o in OM.cli_options(ctx) if o['dest'] not in ('filename', 'outfile', 'encoding', 'version') and o['action'] != 'version']
    defaults = {o['dest']: o['default'] for o in OM.cli_options(ctx) if o['action'] != 'version'}
    flags = [o for o in opts if o['action'] == 'store_true']
    valued = []
    for o in opts:
        if o['action'] != 'store':
            continue
        if o['choices']:
            valued += [(o['dest'], c) for c in o['choices']]
        elif o['type'] == 'int':
            valued += [(o['dest'], 1), (o['dest'], 7)]
        elif o['type'] == 'bool' or (o['default'] is False and o['type'] not in (None, 'int', 'str')):
            valued += [(o['dest'], True)]
        else:
            valued += [(o['dest'], 'x')]
    # the converter of a valued flag maps the text the user writes to the value format() would be given: bool("False") is
    # True, so type=bool cannot express False.  A converter defined in the repository is interpreted on the spellings.
    from .. import miniev as ME

    def converter_ok(name):
        if name in (None, 'int', 'str', 'float'):
            return True, ''
        if name == 'bool':
            return False, 'type=bool: bool("False") is True'
        fn = f.mod.funcs.get(name) if hasattr(f.mod, 'funcs') else None
        if fn is None:
            return None, f'converter {name} is not a function of {f.mod.relpath}'
        ev = ME.Evaluator(ctx, fn.mod, None)
        ev.effects = []
        for text, want in (('False', False), ('True', True), ('false', False), ('true', True)):
            try:
                got = ME.run_function(ev, fn.node, {fn.params[0]: text})
            except ME.Unsupported as x:
                return None, f'{name}({text!r}) not interpretable: {x}'
            if isinstance(got, ME.Raised):
                continue      # rejecting a spelling is an argparse error, not a wrong value
            if got is not want:
                return False, f'{name}({text!r}) gives {got!r}'
        return True, ''
    for o in opts:
        if o['action'] == 'store':
            ok, why = converter_ok(o['type'])
            ctx.ob('R19.8', f'argparse-type:{o["dest"]}', f'{f.mod.relpath}:{o["line"]}',
                   f'the value of {o["flags"][-1]} is converted by a function that maps the text to the option value ({o["type"] or "str"})',
                   ok, f'{why}, so `sqlformat {o["flags"][-1]} False` formats with {o["dest"]}=True while the corresponding '
                   f'format(..., {o["dest"]}=False) does not')
    ctx.info['cli_boolean_flags'] = [o['dest'] for o in flags]
    ctx.info['cli_valued_flags'] = sorted({d for d, _ in valued})

    def vv(d, k):
        for _ in range(k):
            if not isinstance(d, dict):
                return d
            d = OM.validate(ctx, d)
        return d

    def show(p):
        return OM.plan_names(p) if isinstance(p, dict) else p
    n = 0
    bad = {}
    for r in range(len(flags) + 1):
        for combo in itertools.combinations(flags, r):
            for extra in [None] + valued:
                api = {o['dest']: True for o in combo}
                if extra is not None:
                    api[extra[0]] = extra[1]
                cli = dict(defaults)
                cli.update(api)
                va = vv(api, 1)
                vc = vv(cli, nval + 1)
                pa = OM.plan(ctx, va) if isinstance(va, dict) else va
                pc = OM.plan(ctx, vc) if isinstance(vc, dict) else vc
                n += 1
                if pa != pc:
                    key = tuple(sorted(api))
                    # report the smallest witness per differing plan
                    sig = (str(show(pa)), str(show(pc)))
                    if sig not in bad or len(key) < len(bad[sig][0]):
                        bad[sig] = (key, api, pa, pc)
    ctx.info['option_dictionaries_evaluated'] = n
    ctx.need(n >= 500, f'only {n} option dictionaries were enumerated (expected >= 500): the CLI parser model lost its flags')
    loc = f'{f.mod.relpath}:{f.node.lineno}'
    if not bad:
        ctx.ob('R19.7', 'cli-vs-api:plans', loc, f'all {n} flag combinations: the CLI ({nval}+1 validations of the full namespace) and format() '
               '(one validation of the given options) build the same filter stack', True)
        for o in flags:
            ctx.ob('R19.7', f'flag:{o["dest"]}', f'{f.mod.relpath}:{o["line"]}', f'flag {o["flags"][-1]} covered in every combination with the other boolean flags', True)
        for d, v in valued:
            ctx.ob('R19.7', f'value:{d}={v}', loc, f'valued flag {d}={v!r} covered with every combination of the boolean flags', True)
    else:
        for sig, (key, api, pa, pc) in sorted(bad.items(), key=lambda kv: len(kv[1][0]))[:5]:
            ctx.ob('R19.7', f'cli-vs-api:{",".join(key) or "no flags"}', loc,
                   f'sqlformat with {api} builds the filter stack format(text, **{api}) builds', False,
                   f'format(): {show(pa)}; sqlformat: {show(pc)} -- validate_options is not idempotent on this dictionary, or an argparse default '
                   'is not equivalent to leaving the option out')
