"""C20 -- results depend only on input and options: no call history, no thread effects."""
import ast

from .. import rules_lexer as RL
from .. import rules_splitter as RS
from .. import rules_stack as RK
from ..astutil import src, is_name, is_attr, Guards
from ..cg import get_cg
from ..fold import TT, NotConst
from ..fx import effects_of
from ..model import own_nodes, Cls, Func, FUNC_NODES
from ..tables import get_tables

EXPLANATION = (
    'Decided: the inventory of process-wide state and the proof that the request path does not write it. R20.1 lock '
    'discipline of the lexer singleton (every access to _default_instance except the final return, and the initialisation '
    'of the new instance, lie inside `with cls._lock`; the lock is created at import); R20.2 Lexer.get_tokens/is_keyword '
    'write no lexer state and nothing reachable from parse/split/format reconfigures the lexer except through '
    'get_default_instance; R20.3 the attributes StatementSplitter stores to are exactly those _reset re-initialises; R20.4 '
    'every stateful object (FilterStack, splitter, filters) is constructed per call: no module-level instances, no mutable '
    'default arguments, no mutated class-level containers; R20.5 every token-type chain evaluated inside a function body '
    'already exists at import (prefix closure over module/class level chains), so _TokenType.__getattr__ never creates a '
    'type on the request path; R20.6 clear()/default_initialization() rebuild all lexer state; R20.7 the only stores to '
    'module/class-level state reachable from the entry points are those of R20.1; R20.8 closures created at import (decorators such '
    'as utils.recurse) never rebind or mutate what they capture and store no function attributes. Not decided: interleavings inside '
    'CPython and user code reconfiguring the lexer concurrently.')

ENTRY = ['sqlparse.parse', 'sqlparse.parsestream', 'sqlparse.split', 'sqlparse.format']


def run(ctx):
    ctx.engines |= {'cg', 'fx', 'paths', 'tables'}
    ctx.rule('R20.1', 'lock discipline of Lexer.get_default_instance', floor=5)
    ctx.rule('R20.2', 'read-only request path: get_tokens/is_keyword write no lexer state; no reconfiguration reachable from the entry points', floor=3)
    ctx.rule('R20.3', 'reset completeness of StatementSplitter', floor=7)
    ctx.rule('R20.4', 'fresh objects per call: no module-level instances, no mutable defaults, no mutated class-level containers', floor=20)
    ctx.rule('R20.5', 'token types used inside functions are interned at import (prefix closure)', floor=40)
    ctx.rule('R20.6', 'clear()/default_initialization() rebuild the whole lexer configuration', floor=10)
    ctx.rule('R20.7', 'global-write inventory: no store to module/class-level state reachable from the entry points except R20.1', floor=1)
    ctx.rule('R20.8', 'closure cells and function attributes created at import (decorator closures) are never written by the functions they are captured in', floor=1)
    T = get_tables(ctx)
    RL.check_singleton_lock(ctx, 'R20.1')
    RL.check_request_path_readonly(ctx, 'R20.2')
    check_no_reconfiguration(ctx)
    RS.check_reset_completeness(ctx, 'R20.3')
    check_fresh_objects(ctx)
    check_interned_types(ctx)
    RL.check_initialisation(ctx, 'R20.6', T)
    check_global_writes(ctx)
    check_closure_cells(ctx)
    ctx.rule('R20.10', 'the library itself never reconfigures the shared default lexer (who may call add_keywords / clear / set_SQL_REGEX / default_initialization)', floor=1)
    RL.check_who_reconfigures(ctx, 'R20.10', ENTRY + ['sqlparse.cli.main'])
    ctx.rule('R20.9', 'lexer reconfiguration followed by default_initialization() gives the default lexer again (configuration methods interpreted)', floor=1)
    RL.check_reconfiguration(ctx, 'R20.9')
    # positive controls for zero-count rules
    controls(ctx)


def check_no_reconfiguration(ctx):
    cg = get_cg(ctx)
    repo = ctx.repo
    conf = {f'{RL.LEXER}.{m}' for m in ('clear', 'set_SQL_REGEX', 'add_keywords', 'default_initialization')}
    getter = f'{RL.LEXER}.get_default_instance'
    # reachability with the getter's outgoing edges removed
    saved = cg.edges[getter]
    cg.edges[getter] = set()
    try:
        for q in ENTRY:
            reach = cg.reachable([q])
            hit = sorted(reach & conf)
            path = cg.path(q, set(hit)) if hit else None
            ctx.ob('R20.2', f'no-reconfig:{q}', f'{repo.funcs[q].mod.relpath}:{repo.funcs[q].node.lineno}',
                   f'{q} cannot reconfigure the default lexer (other than its one-time initialisation in the getter)', not hit,
                   f'reaches {hit} via {" -> ".join(path or [])}: a request rewrites the shared rule/keyword lists')
    finally:
        cg.edges[getter] = saved


def check_fresh_objects(ctx):
    repo = ctx.repo
    cg = get_cg(ctx)
    # entry points construct their FilterStack locally
    for q in ['sqlparse.parsestream', 'sqlparse.split', 'sqlparse.format']:
        f = repo.func(q)
        ctor, var = RK.stack_usage(ctx, f)
        ctx.ob('R20.4', f'{f.name}:local-stack', f'{f.mod.relpath}:{f.node.lineno}', f'{f.name} constructs its own FilterStack per call',
               ctor is not None, 'no local FilterStack() construction: a shared stack accumulates filters/state across calls')
    m = ctx.shared('runmodel', lambda: RK.RunModel(ctx))
    spl = [s for s in m.steps if s[0] == 'split']
    ctx.ob('R20.4', 'run:fresh-splitter', f'{m.f.mod.relpath}:{m.f.node.lineno}', 'run constructs a fresh StatementSplitter per call',
           bool(spl) and spl[0][3]['fresh'], 'the splitter is not constructed inside run: its per-statement state survives an abandoned generator')
    # build_filter_stack constructs every filter at the call
    b = repo.func('sqlparse.formatter.build_filter_stack')
    for n in own_nodes(b.node):
        if isinstance(n, ast.Call) and isinstance(n.func, ast.Attribute) and n.func.attr in ('append', 'insert', 'extend') and n.args:
            a = n.args[-1]
            ok = isinstance(a, ast.Call) or (isinstance(a, ast.Name) and all(
                isinstance(d, ast.Call) or (isinstance(d, ast.Constant) and d.value is None)
                for d in [x for x in _local_values(b, a.id)]))
            ctx.ob('R20.4', f'build_filter_stack:{src(n)[:60]}', f'{b.mod.relpath}:{n.lineno}',
                   'the installed filter is constructed at this call', ok, f'`{src(a)}` is not a constructor call: a shared filter instance '
                   'carries state (offsets, last statement, counters) from one format() call into the next')
    # module-level / class-level instances of package classes
    for mod in repo.modules.values():
        for node in mod.tree.body:
            _scan_toplevel(ctx, repo, cg, mod, node, f'module {mod.name}')
        for c in mod.classes.values():
            for node in c.node.body:
                _scan_toplevel(ctx, repo, cg, mod, node, f'class {c.name}', c)
    # mutable default arguments
    for f in repo.funcs.values():
        a = f.node.args
        for d in list(a.defaults) + [x for x in a.kw_defaults if x is not None]:
            bad = isinstance(d, (ast.List, ast.Dict, ast.Set, ast.ListComp, ast.DictComp, ast.SetComp)) or \
                (isinstance(d, ast.Call) and not (is_name(d.func, 'frozenset', 'tuple', 'object')))
            ctx.ob('R20.4', f'default:{f.short}:{src(d)}', f'{f.mod.relpath}:{d.lineno}', f'default argument `{src(d)}` of {f.short} is immutable',
                   not bad, 'mutable default argument is shared by all calls')


def _local_values(f, name):
    out = []
    for n in own_nodes(f.node):
        if isinstance(n, ast.Assign) and any(is_name(t, name) for t in n.targets):
            out.append(n.value)
    return out


def _scan_toplevel(ctx, repo, cg, mod, node, where, cls=None):
    if not isinstance(node, (ast.Assign, ast.AnnAssign)):
        return
    v = node.value
    if v is None:
        return
    tname = src(node.targets[0]) if isinstance(node, ast.Assign) else src(node.target)
    loc = f'{mod.relpath}:{node.lineno}'
    # a one-shot iterator stored at import (generator expression, iter(), map/filter/zip/reversed/enumerate object): whoever
    # iterates it first -- a membership test `x in TABLE` is enough -- uses it up for every later call and every thread
    def one_shot(e):
        # a generator passed to tuple()/list()/sorted()/... is consumed at import and is no element of the stored value
        out = []
        if isinstance(e, ast.GeneratorExp):
            out.append(e)
        elif isinstance(e, ast.Call) and is_name(e.func, 'iter', 'map', 'filter', 'zip', 'reversed', 'enumerate'):
            out.append(e)
        elif isinstance(e, (ast.Tuple, ast.List, ast.Set)):
            for x in e.elts:
                out += one_shot(x)
        elif isinstance(e, ast.Dict):
            for x in e.values:
                out += one_shot(x)
        elif isinstance(e, ast.IfExp):
            out += one_shot(e.body) + one_shot(e.orelse)
        elif isinstance(e, ast.Starred):
            pass
        return out
    its = one_shot(v)
    if its or isinstance(v, (ast.Tuple, ast.List, ast.Set, ast.Dict, ast.GeneratorExp, ast.Call)):
        ctx.ob('R20.4', f'toplevel-iterator:{mod.name}:{(cls.name + ".") if cls else ""}{tname}', loc,
               f'{where}: `{tname}` holds no one-shot iterator', not its,
               f'`{src(its[0]) if its else ""}` is an iterator created once at import: the first use (a membership test is enough) consumes it, '
               'so the table is complete for the first call only and empty for every later call and every other thread')
    if isinstance(v, ast.Call):
        target_cls = None
        if isinstance(v.func, (ast.Name, ast.Attribute)):
            for t in cg._resolve_name_value(v.func, None, mod, None):
                if isinstance(t, Cls):
                    target_cls = t
        if target_cls is not None:
            # instance state = any self.<x> store in its methods, or a mutable base
            stateful = any(isinstance(n, (ast.Assign, ast.AugAssign)) and any(
                is_attr(t, None, 'self') for t in (n.targets if isinstance(n, ast.Assign) else [n.target]))
                for m in repo.mro(target_cls) for mm in m.methods.values() for n in own_nodes(mm.node))
            tuple_based = any(is_name(b, 'tuple', 'str', 'int', 'frozenset') for b in target_cls.base_exprs)
            ctx.ob('R20.4', f'toplevel-instance:{mod.name}:{tname}', loc,
                   f'{where}: `{tname} = {src(v)}` is not a shared instance of a class with instance state', (not stateful) or tuple_based,
                   f'{target_cls.qname} has instance state: a process-wide instance makes results depend on earlier calls / other threads')
    if isinstance(v, (ast.List, ast.Dict, ast.Set)) and cls is None and tname.isidentifier() and tname != '__all__':
        # module-level mutable container: never mutated by a function (directly, through `module.NAME`, or through a local alias)
        MUT = ('append', 'extend', 'insert', 'pop', 'remove', 'clear', 'update', 'setdefault', 'sort', 'reverse', 'add', 'discard', 'popitem')
        muts = []
        for f in repo.funcs.values():
            def refers(e):
                if isinstance(e, ast.Name) and e.id == tname:
                    if f.mod is mod:
                        return True
                    imp = f.mod.imports.get(tname)
                    return bool(imp) and imp[0] == 'object' and imp[1] == mod.name
                if isinstance(e, ast.Attribute) and e.attr == tname and isinstance(e.value, ast.Name):
                    imp = f.mod.imports.get(e.value.id)
                    return bool(imp) and imp[0] == 'module' and imp[1] == mod.name
                return False
            shadow = tname in f.params or any(isinstance(n, ast.Name) and n.id == tname and isinstance(n.ctx, ast.Store) for n in own_nodes(f.node))
            aliases = {n.targets[0].id for n in own_nodes(f.node) if isinstance(n, ast.Assign) and len(n.targets) == 1
                       and isinstance(n.targets[0], ast.Name) and refers(n.value)}

            def is_container(e):
                return (refers(e) and not (shadow and isinstance(e, ast.Name))) or (isinstance(e, ast.Name) and e.id in aliases)
            for n in own_nodes(f.node):
                if isinstance(n, ast.Call) and isinstance(n.func, ast.Attribute) and n.func.attr in MUT and is_container(n.func.value):
                    muts.append(f'{f.short}:{n.lineno}')
                if isinstance(n, (ast.Assign, ast.AugAssign, ast.Delete)):
                    tg = n.targets if isinstance(n, (ast.Assign, ast.Delete)) else [n.target]
                    for t in tg:
                        if isinstance(t, ast.Subscript) and is_container(t.value):
                            muts.append(f'{f.short}:{n.lineno}')
                        if isinstance(n, ast.AugAssign) and isinstance(t, ast.Name) and t.id in aliases:
                            muts.append(f'{f.short}:{n.lineno}')
        ctx.ob('R20.4', f'module-container:{mod.name}.{tname}', loc, f'module-level container {mod.name}.{tname} is never mutated by the package', not muts,
               f'mutated at {muts}: the object is created once at import and shared by every call and thread')
    if isinstance(v, (ast.List, ast.Dict, ast.Set)) and cls is not None:
        # class-level mutable container: must never be mutated through the attribute
        muts = []
        MUT = ('append', 'extend', 'insert', 'pop', 'remove', 'clear', 'update', 'setdefault', 'sort', 'reverse', 'add', 'discard', 'popitem')
        for f in repo.funcs.values():
            # locals bound to the container (types = self._NAME_TTYPES): mutating the alias mutates the shared object
            aliases = {n.targets[0].id for n in own_nodes(f.node) if isinstance(n, ast.Assign) and len(n.targets) == 1
                       and isinstance(n.targets[0], ast.Name) and isinstance(n.value, ast.Attribute) and n.value.attr == tname}

            def is_container(e):
                return (isinstance(e, ast.Attribute) and e.attr == tname) or (isinstance(e, ast.Name) and e.id in aliases)
            for n in own_nodes(f.node):
                if isinstance(n, ast.Call) and isinstance(n.func, ast.Attribute) and n.func.attr in MUT and is_container(n.func.value):
                    muts.append(f'{f.short}:{n.lineno}')
                if isinstance(n, (ast.Assign, ast.AugAssign, ast.Delete)):
                    tg = n.targets if isinstance(n, (ast.Assign, ast.Delete)) else [n.target]
                    for t in tg:
                        if isinstance(t, ast.Subscript) and is_container(t.value):
                            muts.append(f'{f.short}:{n.lineno}')
                        if isinstance(n, ast.AugAssign) and is_container(t):
                            # `x += [...]` extends a list in place
                            muts.append(f'{f.short}:{n.lineno}')
        ctx.ob('R20.4', f'class-container:{cls.name}.{tname}', loc, f'class-level container {cls.name}.{tname} is never mutated', not muts,
               f'mutated at {muts}: shared by all instances and threads')


def check_interned_types(ctx):
    repo, folder = ctx.repo, ctx.folder
    import_level, func_level = set(), []

    def chains(node, in_func, mod, cls, fq):
        """maximal attribute chains"""
        if isinstance(node, FUNC_NODES + (ast.Lambda,)):
            # defaults and decorators are evaluated at definition time
            if not isinstance(node, ast.Lambda):
                for d in node.decorator_list:
                    chains(d, in_func, mod, cls, fq)
            for d in list(node.args.defaults) + [x for x in node.args.kw_defaults if x is not None]:
                chains(d, in_func, mod, cls, fq)
            body = node.body if isinstance(node.body, list) else [node.body]
            for b in body:
                chains(b, True, mod, cls, getattr(node, 'name', '<lambda>'))
            return
        if isinstance(node, ast.ClassDef):
            for b in node.body:
                chains(b, in_func, mod, node, fq)
            return
        if isinstance(node, ast.Attribute):
            try:
                v = folder.eval(node, mod)
            except NotConst:
                v = None
            if isinstance(v, TT):
                if in_func:
                    func_level.append((v, mod, node, fq))
                else:
                    import_level.add(tuple(v))
                return
        for ch in ast.iter_child_nodes(node):
            chains(ch, in_func, mod, cls, fq)
    for mod in repo.modules.values():
        for node in mod.tree.body:
            chains(node, False, mod, None, None)
    closure = set()
    for t in import_level:
        for i in range(len(t) + 1):
            closure.add(t[:i])
    ctx.info['token_types_created_at_import'] = len(closure)
    seen = set()
    for v, mod, node, fq in func_level:
        key = f'{mod.name}:{fq}:{v!r}'
        if key in seen:
            continue
        seen.add(key)
        ctx.ob('R20.5', f'type:{key}', f'{mod.relpath}:{node.lineno}', f'{v!r} used in {fq} already exists at import', tuple(v) in closure,
               f'{v!r} is first created inside a function: two threads touching it first can obtain two different type objects, '
               'and identity comparisons (`ttype is ...`) then disagree')


def check_global_writes(ctx, rid='R20.7'):
    repo = ctx.repo
    cg = get_cg(ctx)
    reach = set()
    for q in ENTRY + ['sqlparse.cli.main']:
        reach |= cg.reachable([q])
    allowed_func = f'{RL.LEXER}.get_default_instance'
    n = 0
    for q in sorted(reach):
        f = repo.funcs[q]
        for node in own_nodes(f.node):
            if isinstance(node, ast.Global):
                n += 1
                ctx.ob(rid, f'global:{f.short}:{src(node)}', f'{f.mod.relpath}:{node.lineno}', 'no `global` rebinding on the request path', False,
                       f'`{src(node)}` in {f.short}')
            tg = node.targets if isinstance(node, ast.Assign) else [node.target] if isinstance(node, (ast.AugAssign, ast.AnnAssign)) else []
            for t0 in tg:
                for t in (t0.elts if isinstance(t0, (ast.Tuple, ast.List)) else [t0]):
                    root = t
                    while isinstance(root, (ast.Attribute, ast.Subscript)):
                        root = root.value
                    if not isinstance(t, (ast.Attribute, ast.Subscript)) or not isinstance(root, ast.Name):
                        continue
                    is_cls_state = root.id == 'cls' or root.id in f.mod.classes or (
                        root.id in f.mod.imports and f.mod.imports[root.id][0] == 'module' and root.id != 'self') or \
                        (root.id in f.mod.imports and f.mod.imports[root.id][0] == 'object'
                         and repo.resolve_class_expr(root, f.mod) is not None)
                    if not is_cls_state:
                        continue
                    n += 1
                    ok = q == allowed_func
                    if not ok and _idempotent_lexer_cache(ctx, f, node, t):
                        ctx.ob(rid, f'store:{f.short}:{src(t)}', f'{f.mod.relpath}:{node.lineno}',
                               f'store to class-level state `{src(t)}`: a complete value built from module-level constants only (the same whatever ran before), published by one '
                               'assignment; what shares it is decided by interpreting the configuration methods with class state (R20.9)', True)
                        continue
                    ctx.ob(rid, f'store:{f.short}:{src(t)}', f'{f.mod.relpath}:{node.lineno}',
                           f'store to class/module-level state `{src(t)}` is the lexer singleton publication under the lock', ok,
                           f'`{src(node)}` in {f.short} writes process-wide state on the request path')
    ctx.info['global_write_sites'] = n


def _idempotent_lexer_cache(ctx, f, node, target):
    """`cls.X = <expr>` in a method of the Lexer class, <expr> free of self/parameters (module constants and cls methods only), plain
    assignment, and the reconfiguration simulation (which models class attributes) finds no sequence that leaves a different lexer"""
    if f.cls is None or f.cls.qname != RL.LEXER or not isinstance(node, ast.Assign) or not isinstance(target, ast.Attribute):
        return False
    if not (isinstance(target.value, ast.Name) and target.value.id in ('cls', f.cls.name)):
        return False
    params = set(f.params) - {'cls'}
    local = {x.id for x in ast.walk(f.node) if isinstance(x, ast.Name) and isinstance(x.ctx, ast.Store)}
    for x in ast.walk(node.value):
        if isinstance(x, ast.Name) and isinstance(x.ctx, ast.Load) and (x.id in params or x.id == 'self' or x.id in local):
            return False
    return RL.reconfiguration_result(ctx)['status'] is True


MUTATORS = ('append', 'extend', 'insert', 'pop', 'remove', 'clear', 'update', 'setdefault', 'sort', 'reverse', 'add', 'discard',
            'appendleft', 'popleft', 'popitem', '__setitem__')


def _bound_names(f):
    """names bound in f's own scope (parameters, assignments, loop/with targets, nested defs)"""
    a = f.node.args
    out = {x.arg for x in a.posonlyargs + a.args + a.kwonlyargs}
    for x in (a.vararg, a.kwarg):
        if x is not None:
            out.add(x.arg)
    declared = set()
    for n in own_nodes(f.node):
        if isinstance(n, (ast.Nonlocal, ast.Global)):
            declared |= set(n.names)
        if isinstance(n, ast.Name) and isinstance(n.ctx, ast.Store):
            out.add(n.id)
    out |= set(f.nested)
    return out - declared


def _import_time_functions(repo):
    """functions invoked while the package is imported: referenced from a decorator expression or called from a
    module/class-level statement; functions they return are invoked too when the decorator is a factory call."""
    out = set()
    for mod in repo.modules.values():
        def scan(body, cls):
            for node in body:
                if isinstance(node, ast.ClassDef):
                    for d in node.decorator_list:
                        mark(d, mod)
                    scan(node.body, node)
                    continue
                if isinstance(node, FUNC_NODES):
                    for d in node.decorator_list:
                        mark(d, mod)
                    continue
                for n in ast.walk(node):
                    if isinstance(n, ast.Call):
                        mark(n.func, mod)

        def mark(e, mod):
            for n in ast.walk(e):
                if isinstance(n, (ast.Name, ast.Attribute)):
                    q = None
                    if isinstance(n, ast.Name):
                        if n.id in mod.funcs:
                            q = mod.funcs[n.id].qname
                        elif n.id in mod.imports and mod.imports[n.id][0] == 'object':
                            q = f'{mod.imports[n.id][1]}.{mod.imports[n.id][2]}'
                    elif isinstance(n.value, ast.Name) and n.value.id in mod.imports and mod.imports[n.value.id][0] == 'module':
                        q = f'{mod.imports[n.value.id][1]}.{n.attr}'
                    if q in repo.funcs:
                        out.add(q)
        scan(mod.tree.body, None)
    # functions nested in an import-time function and returned by it (decorator factories)
    changed = True
    while changed:
        changed = False
        for q in list(out):
            f = repo.funcs[q]
            for n in own_nodes(f.node):
                if isinstance(n, ast.Return) and isinstance(n.value, ast.Name) and n.value.id in f.nested:
                    g = f.nested[n.value.id].qname
                    if g not in out:
                        out.add(g)
                        changed = True
    return out


def check_closure_cells(ctx, rid='R20.8'):
    """A variable of a function that runs at import (a decorator such as utils.recurse) lives as long as the closure that
    captures it, i.e. for the whole process: a nested function that rebinds it (`nonlocal`) or mutates it in place, or that
    stores attributes on a function object, carries state from one call -- and one thread -- into the next."""
    repo = ctx.repo
    imp = _import_time_functions(repo)
    ctx.info['import_time_functions'] = sorted(imp)
    n_closures = 0
    for f in repo.funcs.values():
        if f.parent is None or isinstance(f.node, ast.Lambda):
            continue
        # enclosing function scopes, innermost first
        chain, p = [], f.parent
        while p is not None:
            chain.append(p)
            p = p.parent
        if not any(c.qname in imp for c in chain):
            # the enclosing call happens per request: its cells die with the request
            continue
        own = _bound_names(f)
        outer = {}
        for c in chain:
            if isinstance(c.node, ast.Lambda):
                continue
            for nm in _bound_names(c):
                outer.setdefault(nm, c)
        n_closures += 1
        bad = []
        nonlocals = set()
        for n in own_nodes(f.node):
            if isinstance(n, ast.Nonlocal):
                nonlocals |= set(n.names)
        for n in own_nodes(f.node):
            if isinstance(n, ast.Name) and isinstance(n.ctx, (ast.Store, ast.Del)) and n.id in nonlocals:
                bad.append((n.lineno, f'rebinds the captured variable `{n.id}` (nonlocal)'))
            tg = n.targets if isinstance(n, (ast.Assign, ast.Delete)) else [n.target] if isinstance(n, (ast.AugAssign, ast.AnnAssign)) else []
            for t0 in tg:
                for t in (t0.elts if isinstance(t0, (ast.Tuple, ast.List)) else [t0]):
                    root = t
                    while isinstance(root, (ast.Attribute, ast.Subscript)):
                        root = root.value
                    if isinstance(t, (ast.Attribute, ast.Subscript)) and isinstance(root, ast.Name) and root.id not in own and (
                            root.id in outer or root.id == f.node.name):
                        bad.append((n.lineno, f'stores into the captured object `{src(t)}`'))
            if isinstance(n, ast.Call) and isinstance(n.func, ast.Attribute) and n.func.attr in MUTATORS and \
                    isinstance(n.func.value, ast.Name) and n.func.value.id not in own and n.func.value.id in outer:
                c = outer[n.func.value.id]
                vals = _local_values(c, n.func.value.id)
                if vals and all(isinstance(v, (ast.List, ast.Dict, ast.Set, ast.ListComp, ast.DictComp, ast.SetComp)) or (
                        isinstance(v, ast.Call) and is_name(v.func, 'list', 'dict', 'set', 'deque', 'defaultdict', 'OrderedDict', 'Counter'))
                        for v in vals):
                    bad.append((n.lineno, f'mutates the captured container `{n.func.value.id}` in place (.{n.func.attr})'))
        ctx.ob(rid, f'closure:{f.qname}', f'{f.mod.relpath}:{f.node.lineno}',
               f'{f.qname} (closure created at import by {chain[0].qname}) only reads its captured variables', not bad,
               '; '.join(f'line {ln}: {w}' for ln, w in bad) + ': the cell is created once at import and shared by every later call and '
               'every thread, so a call that raises (or runs concurrently) leaves it in a state the next call observes')
    ctx.info['import_time_closures'] = n_closures


def controls(ctx):
    """positive controls: the zero-expected-count rules must fire on embedded snippets"""
    import tempfile, os, shutil
    from ..model import Repo
    from .. import report
    snippet_lexer = ctx.repo.files['sqlparse/lexer.py']
    gf = ctx.repo.funcs.get(RL.LEXER + '.get_default_instance')
    if gf is not None:
        # the getter replaced by the unlocked fast path that publishes the instance before it is initialised
        lines = snippet_lexer.split('\n')
        first = min([gf.node.lineno] + [d.lineno for d in gf.node.decorator_list])
        canned = ['    @classmethod', '    def get_default_instance(cls):',
                  '        if cls._default_instance is None:', '            with cls._lock:', '                if cls._default_instance is None:',
                  '                    cls._default_instance = cls()', '                    cls._default_instance.default_initialization()',
                  '        return cls._default_instance']
        bad = '\n'.join(lines[:first - 1] + canned + lines[gf.node.end_lineno:])
        try:
            r2 = Repo(ctx.repo.root, overlay=dict(ctx.repo.overlay, **{'sqlparse/lexer.py': bad}))
            c2 = report.Ctx('C20', r2, 'quick')
            c2.rule('R20.1', '')
            RL.check_singleton_lock(c2, 'R20.1')
            fired = any(o.status == 'refuted' for o in c2.obs)
        except Exception as e:
            fired = False
        ctx.need(fired, 'positive control: double-checked locking variant of get_default_instance was not flagged by R20.1')
        ctx.note('positive control: unlocked fast path (double-checked locking) variant is flagged by R20.1')
