"""Obligation bookkeeping, known findings, evidence and exit codes (DESIGN 1)."""
import json
import os
import time

from .model import AnalysisError

VERIF = os.path.dirname(os.path.dirname(os.path.abspath(__file__)))
EVID = os.path.join(VERIF, 'evidence')
KNOWN = os.path.join(VERIF, 'known_findings.json')

ASSUMPTIONS = [
    'A0: no reflection hides effects (inventory of getattr/setattr/exec/eval/globals/__dict__/importlib re-checked on every run)',
    'A1: Python semantics of the constructs used and the stdlib (re, itertools.islice, collections.deque, str methods) are as documented',
    'A2: the name-based call graph over-approximates real calls inside the package; entry points are the documented API',
]


class Ob:
    __slots__ = ('rule', 'key', 'loc', 'text', 'status', 'detail')

    def __init__(self, rule, key, loc, text, status, detail=''):
        self.rule, self.key, self.loc, self.text, self.status, self.detail = rule, key, loc, text, status, detail

    def as_dict(self):
        return {'rule': self.rule, 'key': self.key, 'loc': self.loc, 'obligation': self.text,
                'status': self.status, 'detail': self.detail}


class Ctx:
    """Per-run context handed to a property module's run(ctx)."""

    def __init__(self, pid, repo, tier='quick', seed=0):
        from .fold import Folder
        self.pid, self.repo, self.tier, self.seed = pid, repo, tier, seed
        self.folder = Folder(repo)
        self.obs = []
        self.rules = {}        # rule id -> text
        self.floors = {}       # rule id -> minimal instance count
        self.info = {}         # free-form evidence additions
        self.engines = set()
        self.notes = []
        self._cache = {}

    def rule(self, rid, text, floor=1):
        self.rules[rid] = text
        self.floors[rid] = floor

    def ob(self, rule, key, loc, text, ok, detail=''):
        """ok: True discharged / False refuted / None undetermined / 'accepted'"""
        status = {True: 'discharged', False: 'refuted', None: 'undetermined'}.get(ok, ok)
        o = Ob(rule, key, loc, text, status, detail)
        self.obs.append(o)
        return ok is True or ok == 'accepted'

    def need(self, cond, msg):
        if not cond:
            raise AnalysisError(msg)
        return cond

    def note(self, msg):
        self.notes.append(msg)

    def shared(self, name, factory):
        if name not in self._cache:
            self._cache[name] = factory()
        return self._cache[name]


def load_known():
    if not os.path.exists(KNOWN):
        return []
    with open(KNOWN) as fh:
        return json.load(fh)['findings']


def new_refutations(ctx):
    known = [k for k in load_known() if k['property'] == ctx.pid]
    open_known = {(k['rule'], k['key']) for k in known if k.get('status', 'open') == 'open'}
    return [o for o in ctx.obs if o.status == 'refuted' and (o.rule, o.key) not in open_known]


def finish(ctx, level, explanation, t0, quiet=False, write=True, extra_cov=None):
    """Evaluate floors, match known findings, write evidence, print result.
    Returns exit code."""
    out = []
    # instance floors
    counts = {}
    for o in ctx.obs:
        counts[o.rule] = counts.get(o.rule, 0) + 1
    refuted_rules = {o.rule for o in ctx.obs if o.status == 'refuted'}
    known = [k for k in load_known() if k['property'] == ctx.pid]
    open_known = {(k['rule'], k['key']): k for k in known if k.get('status', 'open') == 'open'}
    refuted = [o for o in ctx.obs if o.status == 'refuted']
    new, kf = [], []
    seen = set()
    for o in refuted:
        k = (o.rule, o.key)
        if k in seen:
            continue
        seen.add(k)
        if k in open_known:
            kf.append((o, open_known[k]))
        else:
            new.append(o)
    # A refutation that is not a listed finding is a verdict in its own right: rules that could not be completed on the same
    # tree (their anchor changed shape together with the defect) are reported as notes.  Without such a verdict an incomplete
    # rule is an analysis error -- never a silent pass.
    incomplete = []
    for rid, floor in ctx.floors.items():
        # a rule that stopped at a refutation is not vacuous; the floor guards against rules that silently match nothing
        if counts.get(rid, 0) < floor and rid not in refuted_rules:
            incomplete.append(f'rule {rid} matched {counts.get(rid, 0)} instances, floor is {floor} '
                              f'(a rule that matches nothing passes vacuously)')
    und = [o for o in ctx.obs if o.status == 'undetermined']
    if und:
        o = und[0]
        incomplete.append(f'{len(und)} obligation(s) undetermined, first: [{o.rule}] {o.loc} {o.text}: {o.detail}')
    if getattr(ctx, 'stopped_early', None):
        incomplete.insert(0, f'analysis stopped early: {ctx.stopped_early}')
    if incomplete and not new:
        raise AnalysisError(incomplete[0])
    for msg in incomplete:
        out.append(f'NOTE: not all rules could be completed on this tree: {msg}')
    os.makedirs(os.path.join(EVID, 'replay'), exist_ok=True)
    for o, k in kf:
        out.append(f'KNOWN-FINDING: property={ctx.pid} [{o.rule}] {k["what_fails"]} ({o.loc})')
    replay_paths = []
    for n, o in enumerate(new):
        rp = os.path.join(EVID, 'replay', f'{ctx.pid}-{n}.json')
        if write:
            with open(rp, 'w') as fh:
                json.dump({'property': ctx.pid, **o.as_dict()}, fh, indent=1)
        replay_paths.append(rp)
        out.append(f'  [{o.rule}] {o.loc}: {o.text} -- REFUTED: {o.detail}  (key={o.key})')
        out.append(f'VIOLATION property={ctx.pid} replay={rp}')
    n_ob = len(ctx.obs)
    n_dis = sum(1 for o in ctx.obs if o.status in ('discharged', 'accepted'))
    distinct = len({(o.rule, o.key) for o in ctx.obs})
    per_rule = {}
    for o in ctx.obs:
        d = per_rule.setdefault(o.rule, {'text': ctx.rules.get(o.rule, ''), 'instances': 0, 'discharged': 0,
                                         'accepted': 0, 'refuted': 0})
        d['instances'] += 1
        if o.status == 'accepted':
            d['accepted'] += 1
            d['discharged'] += 1
        elif o.status == 'discharged':
            d['discharged'] += 1
        elif o.status == 'refuted':
            d['refuted'] += 1
    samples = []
    seen_rules = set()
    for o in ctx.obs:
        if o.rule not in seen_rules or o.status in ('refuted', 'accepted'):
            if len(samples) < 60:
                samples.append(o.as_dict())
            seen_rules.add(o.rule)
    cov = {
        'explanation': explanation,
        'evaluations': n_ob,
        'distinct_nontrivial': distinct,
        'rule': 'one evaluation = one proof obligation generated from /repo source by a rule instance '
                '(table row, call site, path, function); distinct = distinct (rule, structural key) pairs',
        'obligations': n_ob,
        'discharged': n_dis,
        'samples': samples,
        'rules': per_rule,
        'accepted_sites': [o.as_dict() for o in ctx.obs if o.status == 'accepted'],
        'known_findings_rederived': [{'rule': o.rule, 'key': o.key, 'loc': o.loc, 'what_fails': k['what_fails']}
                                     for o, k in kf],
        'modules_analysed': sorted(m.relpath for m in ctx.repo.modules.values()),
        'functions_indexed': len(ctx.repo.funcs),
        'engines': sorted(ctx.engines),
        'notes': ctx.notes,
        'exhaustive': True,
    }
    if level == 'proof':
        cov['checker_cmd'] = f'./check {ctx.pid} --tier {ctx.tier}'
        cov['trusted_base'] = ['CPython ast and re._parser', 'sa/rx.py automata constructions',
                               'character-class bitsets over the sampled domain (BMP + astral representatives)',
                               'assumptions A0-A2']
    cov.update(ctx.info)
    if extra_cov:
        cov.update(extra_cov)
    ev = {
        'property_id': ctx.pid, 'tier': ctx.tier, 'seed': ctx.seed, 'level': level,
        'coverage': cov, 'assumptions': ASSUMPTIONS, 'wall_s': round(time.time() - t0, 3),
        'violations': len(new),
    }
    if write:
        os.makedirs(EVID, exist_ok=True)
        with open(os.path.join(EVID, f'{ctx.pid}.json'), 'w') as fh:
            json.dump(ev, fh, indent=1, default=str)
    if not quiet:
        print(f'{ctx.pid} tier={ctx.tier}: {n_ob} obligations, {n_dis} discharged, '
              f'{len(kf)} known finding(s), {len(new)} new violation(s) '
              f'[{", ".join(f"{r}:{d["instances"]}" for r, d in sorted(per_rule.items()))}]')
        for line in out:
            print(line)
    return (1 if new else 0), new, kf
