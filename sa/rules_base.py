"""Model validation of the low-level helpers (DESIGN 0.3, assumptions A0-A2 made checkable).

The rule modules reason with a small model of sqlparse's base layer: token types contain their
sub-types (fold.TT.contains), a token's flags and normal form follow from its type and text
(miniev.AbsToken), Token.match / utils.imt select tokens as miniev mirrors them, and the
navigation helpers of TokenList return the neighbour the rules assume.  Every other rule is only
as good as that model, and a change to tokens.py / utils.py / the generic part of sql.py breaks
many properties at once without touching the code the properties are anchored in.

Here the *source* of those helpers is interpreted (miniev) on a finite matrix of abstract
operands and compared with the model, operand by operand.  sqlparse is not imported."""
import ast
import itertools

from . import miniev as ME
from .astutil import src
from .fold import TT, NotConst
from .tables import get_tables

KW = TT(('Keyword',))
WS = TT(('Text', 'Whitespace'))
NL = TT(('Text', 'Whitespace', 'Newline'))
NAME = TT(('Name',))
PUNCT = TT(('Punctuation',))
COMMENT = TT(('Comment',))
C_SINGLE = TT(('Comment', 'Single'))


def lexer_types(ctx):
    T = get_tables(ctx)
    types = {()}
    for r in T.lex:
        if isinstance(r.action, TT):
            types.add(tuple(r.action))
    for _, d in T.kw:
        for v in d.values():
            if isinstance(v, TT):
                types.add(tuple(v))
    types |= {('Name',), ('Error',), ('Text', 'Whitespace'), ('Text', 'Whitespace', 'Newline')}
    # every prefix is a type as well
    for t in list(types):
        for i in range(len(t)):
            types.add(t[:i])
    return sorted(types)


def base_model(ctx):
    """-> list of (key, location, text, ok, detail); computed once per run"""
    return ctx.shared('base_model', lambda: _compute(ctx))


def check_base_model(ctx, rid, parts=('contains', 'flags', 'match', 'imt', 'nav')):
    n = 0
    for part, key, loc, text, ok, detail in base_model(ctx):
        if part in parts:
            n += 1
            ctx.ob(rid, f'base:{key}', loc, text, ok, detail)
    ctx.need(n >= min(3, len(parts)), f'base-model validation produced only {n} obligations')


def _fn(ctx, q):
    f = ctx.repo.funcs.get(q)
    if f is None:
        raise ME.Unsupported(f'{q} not found')
    return f


def _compute(ctx):
    out = []
    repo = ctx.repo
    types = [TT(t) for t in lexer_types(ctx)]

    def guard(part, key, loc, text, thunk):
        """run one comparison; model/interpreter limits are reported as undetermined, never as a pass"""
        try:
            bad = thunk()
        except (ME.Unsupported, ME.Unknown) as e:
            out.append((part, key, loc, text, None, f'not evaluable: {e}'))
            return
        out.append((part, key, loc, text, not bad, '; '.join(str(b) for b in bad[:3]) + (f' (+{len(bad) - 3} more)' if len(bad) > 3 else '')))

    # ---- B1 containment of token types -------------------------------------------------------
    f = _fn(ctx, 'sqlparse.tokens._TokenType.__contains__')
    loc = f'{f.mod.relpath}:{f.node.lineno}'

    def b1():
        bad = []
        ev = ME.Evaluator(ctx, f.mod, f.cls)
        p_self, p_item = f.params[0], f.params[1]
        for a in types:
            for b in types + [None]:
                got = ev.truth(ME.run_function(ev, f.node, {p_self: a, p_item: b}))
                want = b is not None and tuple(b[:len(a)]) == tuple(a)
                if got != want:
                    bad.append(f'{b!r} in {a!r} gives {got}, the model (prefix containment) says {want}')
        return bad
    guard('contains', '_TokenType.__contains__', loc, f'`x in T.A.B` holds exactly for T.A.B and its sub-types ({len(types)}^2 pairs of lexer types)', b1)

    # ---- B4 token flags and normal form ---------------------------------------------------------
    f = _fn(ctx, 'sqlparse.sql.Token.__init__')
    loc = f'{f.mod.relpath}:{f.node.lineno}'

    def b4():
        bad = []
        ev = ME.Evaluator(ctx, f.mod, f.cls)
        ev.effects = True
        for t in types:
            if not t:
                continue
            for val in ('abc', 'Ab  c', 'a\n\tb', ' '):
                me = ME.Obj()
                ME.run_function(ev, f.node, {f.params[0]: me, f.params[1]: t, f.params[2]: val})
                model = ME.AbsToken(repo, ttype=t, value=val)
                for attr in ('is_keyword', 'is_whitespace', 'is_newline', 'is_group', 'normalized', 'value', 'ttype', 'parent'):
                    got = getattr(me, attr, '<unset>')
                    want = {'is_group': False, 'parent': None, 'value': val, 'ttype': t}.get(attr, getattr(model, attr, None))
                    same = (tuple(got) == tuple(want)) if isinstance(want, TT) and isinstance(got, TT) else (got == want and type(got) is type(want))
                    if not same:
                        bad.append(f'Token({t!r}, {val!r}).{attr} is {got!r}, the model says {want!r}')
        return bad
    guard('flags', 'Token.__init__', loc, 'is_keyword / is_whitespace / is_newline / is_group / normalized / value follow from type and text as modelled', b4)

    # ---- B5 Token.match -------------------------------------------------------------------------
    f = _fn(ctx, 'sqlparse.sql.Token.match')
    loc = f'{f.mod.relpath}:{f.node.lineno}'
    toks = [(KW, 'select'), (KW, 'group  by'), (KW, 'ORDER\nBY'), (TT(('Keyword', 'DML')), 'Select'), (NAME, 'Foo'), (NAME, 'select'),
            (PUNCT, ','), (PUNCT, '('), (WS, ' '), (TT(('Literal', 'String', 'Single')), "'AS'"), (TT(('Name', 'Builtin')), 'int')]
    pats = [(KW, None, False), (KW, 'SELECT', False), (KW, 'select', False), (KW, ('GROUP BY', 'ORDER BY'), False), (KW, 'ORDER BY', False),
            (TT(('Keyword', 'DML')), 'SELECT', False), (NAME, 'foo', False), (NAME, 'Foo', False), (NAME, ('Foo', 'x'), False), (NAME, None, False),
            (PUNCT, ',', False), (PUNCT, ('(', ','), False), (KW, ('GROUP', 'ORDER'), True), (KW, ('BY$',), True), (KW, ('^BY',), True),
            (NAME, ('^f',), True), (NAME, ('^F',), True), (TT(('Name', 'Builtin')), None, False), (NAME, 'int', False)]

    def b5():
        bad = []
        ev = ME.Evaluator(ctx, f.mod, f.cls)
        for (tt, val), (pt, pv, rgx) in itertools.product(toks, pats):
            tok = ME.AbsToken(repo, ttype=tt, value=val)
            env = {f.params[0]: tok, f.params[1]: pt, f.params[2]: pv}
            if len(f.params) > 3:
                env[f.params[3]] = rgx
            elif rgx:
                continue
            got = ev.truth(ME.run_function(ev, f.node, env))
            want = tok.match(pt, pv, rgx)
            if got != want:
                bad.append(f'Token({tt!r}, {val!r}).match({pt!r}, {pv!r}, regex={rgx}) is {got}, the model says {want}')
        return bad
    guard('match', 'Token.match', loc, f'Token.match selects by exact type and normalised text ({len(toks) * len(pats)} token x pattern pairs)', b5)

    # ---- B9 utils.imt ---------------------------------------------------------------------------
    f = _fn(ctx, 'sqlparse.utils.imt')
    loc = f'{f.mod.relpath}:{f.node.lineno}'

    def b9():
        bad = []
        from .fold import ClsRef
        ev = ME.Evaluator(ctx, f.mod, None)
        ident = repo.classes.get('sqlparse.sql.Identifier')
        paren = repo.classes.get('sqlparse.sql.Parenthesis')
        tlist = repo.classes.get('sqlparse.sql.TokenList')
        subjects = [None, ME.AbsToken(repo, ttype=KW, value='as'), ME.AbsToken(repo, ttype=NAME, value='x'),
                    ME.AbsToken(repo, ttype=TT(('Name', 'Builtin')), value='int'), ME.AbsToken(repo, ttype=PUNCT, value=','),
                    ME.AbsToken(repo, cls=ident), ME.AbsToken(repo, cls=paren)]
        I = [None, ClsRef(ident), (ClsRef(ident), ClsRef(paren)), ClsRef(tlist)]
        M = [None, (KW, 'AS'), [(KW, 'AS'), (PUNCT, ',')], (PUNCT, (',', ';'))]
        Tt = [None, NAME, (NAME, PUNCT), [NAME, KW], TT(('Name', 'Builtin'))]
        names = f.params
        for s_, i_, m_, t_ in itertools.product(subjects, I, M, Tt):
            env = dict(zip(names, [s_, i_, m_, t_]))
            got = ev.truth(ME.run_function(ev, f.node, env))
            want = ev.imt(s_, i_, m_, t_)
            if got != want:
                bad.append(f'imt({s_}, i={i_}, m={m_}, t={t_}) is {got}, the model says {want}')
        return bad
    guard('imt', 'utils.imt', loc, 'imt(token, i, m, t) is instance-of OR pattern match OR type containment (tuple of types: equality), False for None', b9)

    # ---- B6 navigation helpers ------------------------------------------------------------------
    tl_cls = repo.classes.get('sqlparse.sql.TokenList')
    comment_cls = repo.classes.get('sqlparse.sql.Comment')
    f = _fn(ctx, 'sqlparse.sql.TokenList.token_next')
    loc = f'{f.mod.relpath}:{f.node.lineno}'

    def mk(kind):
        if kind == 'W':
            return ME.AbsToken(repo, ttype=WS, value=' ')
        if kind == 'N':
            return ME.AbsToken(repo, ttype=NL, value='\n')
        if kind == 'C':
            return ME.AbsToken(repo, ttype=C_SINGLE, value='-- c\n')
        if kind == 'G':
            g = ME.AbsToken(repo, cls=comment_cls)
            g.tokens = []
            g.is_whitespace = False
            return g
        if kind == 'K':
            return ME.AbsToken(repo, ttype=KW, value='as')
        return ME.AbsToken(repo, ttype=NAME, value='x')

    def is_ws(t):
        return bool(t.is_whitespace)

    def is_cm(t):
        return (t.ttype is not None and COMMENT.contains(t.ttype)) or (t.cls is not None and t.cls is comment_cls)

    def b6():
        bad = []
        shapes = [''.join(p) for n_ in range(0, 5) for p in itertools.product('WCX', repeat=n_)] + ['XNX', 'GXW', 'WGK', 'KWGWX', 'XKX']
        for shape in shapes:
            toks_ = [mk(k) for k in shape]
            me = ME.AbsToken(repo, cls=tl_cls)
            me.tokens = toks_
            for t_ in toks_:
                t_.parent = me
            ev = ME.Evaluator(ctx, f.mod, tl_cls)

            def call(name, *a, **k):
                m_ = ev._method_of(me, name)
                return m_(*a, **k)
            for skip_ws, skip_cm in itertools.product((True, False), repeat=2):
                def keep(t):
                    return not ((skip_ws and is_ws(t)) or (skip_cm and is_cm(t)))
                for idx in [None] + list(range(-1, len(toks_) + 1)):
                    # token_next
                    if idx is None:
                        want = (None, None)
                    else:
                        js = [j for j in range(idx + 1, len(toks_)) if j >= 0 and keep(toks_[j])]
                        want = (js[0], toks_[js[0]]) if js else (None, None)
                    try:
                        got = call('token_next', idx, skip_ws=skip_ws, skip_cm=skip_cm)
                    except ME.Crash as e:
                        got = f'raises {e}'
                    if not (isinstance(got, tuple) and got[0] == want[0] and got[1] is want[1]):
                        bad.append(f'[{shape}].token_next({idx}, skip_ws={skip_ws}, skip_cm={skip_cm}) = {got}, expected {want}')
                    # token_prev
                    if idx is None:
                        want = (None, None)
                    else:
                        js = [j for j in range(0, min(idx, len(toks_))) if keep(toks_[j])]
                        want = (js[-1], toks_[js[-1]]) if js and idx > 0 else (None, None)
                    try:
                        got = call('token_prev', idx, skip_ws=skip_ws, skip_cm=skip_cm)
                    except ME.Crash as e:
                        got = f'raises {e}'
                    if idx is not None and idx >= 0 and not (isinstance(got, tuple) and got[0] == want[0] and got[1] is want[1]):
                        bad.append(f'[{shape}].token_prev({idx}, skip_ws={skip_ws}, skip_cm={skip_cm}) = {got}, expected {want}')
                # token_first
                js = [j for j in range(len(toks_)) if keep(toks_[j])]
                want = toks_[js[0]] if js else None
                try:
                    got = call('token_first', skip_ws=skip_ws, skip_cm=skip_cm)
                except ME.Crash as e:
                    got = f'raises {e}'
                if got is not want:
                    bad.append(f'[{shape}].token_first(skip_ws={skip_ws}, skip_cm={skip_cm}) = {got}, expected {want}')
            # token_next_by(t=Name, idx) and token_index
            for idx in range(-1, len(toks_)):
                js = [j for j in range(idx + 1, len(toks_)) if toks_[j].ttype is not None and NAME.contains(toks_[j].ttype)]
                want = (js[0], toks_[js[0]]) if js else (None, None)
                try:
                    got = call('token_next_by', t=NAME, idx=idx)
                except ME.Crash as e:
                    got = f'raises {e}'
                if not (isinstance(got, tuple) and got[0] == want[0] and got[1] is want[1]):
                    bad.append(f'[{shape}].token_next_by(t=Name, idx={idx}) = {got}, expected {want}')
            for j, t_ in enumerate(toks_):
                try:
                    got = call('token_index', t_)
                except ME.Crash as e:
                    got = f'raises {e}'
                if got != j:
                    bad.append(f'[{shape}].token_index(child {j}) = {got}')
            if len(bad) > 20:
                break
        return bad
    # ---- B7 tree helpers: flatten / __str__ / get_token_at_offset / within / has_ancestor / is_child_of ------------------
    ident_cls = repo.classes.get('sqlparse.sql.Identifier')
    par_cls = repo.classes.get('sqlparse.sql.Parenthesis')
    stmt_cls = repo.classes.get('sqlparse.sql.Statement')

    def mkgroup(cls, kids):
        g_ = ME.AbsToken(repo, cls=cls)
        g_.tokens, g_.parent, g_.is_whitespace = kids, None, False
        g_.value = ''.join(k.value for k in kids)
        for k in kids:
            k.parent = g_
        return g_

    def lf(v, tt=NAME):
        t_ = ME.AbsToken(repo, ttype=tt, value=v)
        t_.parent = None
        return t_

    def trees():
        yield mkgroup(stmt_cls, [lf('ab'), lf(' ', WS), lf('c')])
        yield mkgroup(stmt_cls, [mkgroup(ident_cls, [lf('a'), lf('.', PUNCT), lf('bc')]), lf(' ', WS), lf('d')])
        yield mkgroup(stmt_cls, [lf('x'), mkgroup(par_cls, [lf('(', PUNCT), mkgroup(ident_cls, [lf('yy')]), lf(')', PUNCT)]), lf('', WS), lf('z')])
        yield mkgroup(stmt_cls, [mkgroup(par_cls, [lf('(', PUNCT), mkgroup(par_cls, [lf('(', PUNCT), lf(')', PUNCT)]), lf(')', PUNCT)])])
        yield mkgroup(stmt_cls, [])

    def all_nodes(t):
        yield t
        if t.is_group:
            for k in t.tokens:
                yield from all_nodes(k)

    def leaves_of(t):
        if t.is_group:
            for k in t.tokens:
                yield from leaves_of(k)
        else:
            yield t

    def ancestors(t):
        p_ = t.parent
        while p_ is not None:
            yield p_
            p_ = p_.parent

    def b7():
        bad = []
        for st in trees():
            ev = ME.Evaluator(ctx, repo.mod('sqlparse.sql'), tl_cls)
            ev.effects = True         # local work lists (the explicit stack of flatten) are lists the interpreter may change
            lv = list(leaves_of(st))
            text = ''.join(t_.value for t_ in lv)
            got = ev._method_of(st, 'flatten')()
            if not (isinstance(got, list) and len(got) == len(lv) and all(a is b for a, b in zip(got, lv))):
                bad.append(f'flatten() of {st.value!r} yields {[getattr(x, "value", x) for x in got] if isinstance(got, list) else got}')
            for node in all_nodes(st):
                want = ''.join(t_.value for t_ in leaves_of(node))
                try:
                    got = ev._method_of(node, '__str__')()
                except ME.Crash as e:
                    got = f'raises {e}'
                if got != want:
                    bad.append(f'str() of a node with text {want!r} gives {got!r}')
            pos = 0
            spans = []
            for t_ in lv:
                spans.append((pos, pos + len(t_.value), t_))
                pos += len(t_.value)
            for off in range(0, len(text) + 1):
                want = next((t_ for a, b, t_ in spans if a <= off < b), None)
                try:
                    got = ev._method_of(st, 'get_token_at_offset')(off)
                except ME.Crash as e:
                    got = f'raises {e}'
                if got is not want:
                    bad.append(f'get_token_at_offset({off}) on {text!r} gives {getattr(got, "value", got)!r}, expected {getattr(want, "value", None)!r}')
            nodes = list(all_nodes(st))
            for a in nodes:
                anc = list(ancestors(a))
                for cls_ in (ident_cls, par_cls, stmt_cls):
                    want = any(x.cls is cls_ or (x.cls is not None and cls_ in repo.mro(x.cls)) for x in anc)
                    try:
                        got = ev._method_of(a, 'within')(ME.ClsRef(cls_))
                    except ME.Crash as e:
                        got = f'raises {e}'
                    if got is not want:
                        bad.append(f'{a!r}.within({cls_.name}) = {got}, expected {want}')
                for b in nodes:
                    for name, want in (('has_ancestor', any(x is b for x in anc)), ('is_child_of', a.parent is b)):
                        try:
                            got = ev._method_of(a, name)(b)
                        except ME.Crash as e:
                            got = f'raises {e}'
                        if bool(got) is not want:
                            bad.append(f'{a!r}.{name}({b!r}) = {got}, expected {want}')
            if len(bad) > 20:
                break
        return bad
    f7 = _fn(ctx, 'sqlparse.sql.TokenList.get_token_at_offset')
    guard('tree', 'tree helpers', f'{f7.mod.relpath}:{f7.node.lineno}',
          'flatten / str() / get_token_at_offset / within / has_ancestor / is_child_of agree with the tree (five small trees, every node, every offset)', b7)

    # ---- B8 group_tokens: the one editing primitive of the grouping engine --------------------------------------------------
    def b8():
        bad = []
        gt = _fn(ctx, 'sqlparse.sql.TokenList.group_tokens')
        for n_ in range(1, 5):
            for start in range(n_):
                for end in range(start, n_):
                    for extend in (False, True):
                        for first_is_group in (False, True):
                            kids = [lf(f't{i}') for i in range(n_)]
                            if first_is_group:
                                kids[start] = mkgroup(ident_cls, [lf('g0'), lf('g1')])
                            st = mkgroup(stmt_cls, kids)
                            before = list(leaves_of(st))
                            ev = ME.Evaluator(ctx, gt.mod, tl_cls)
                            ev.effects = True
                            try:
                                grp = ev._method_of(st, 'group_tokens')(ME.ClsRef(ident_cls), start, end, extend=extend)
                            except ME.Crash as e:
                                bad.append(f'group_tokens(Identifier, {start}, {end}, extend={extend}) on {n_} children raises {e}')
                                continue
                            after = list(leaves_of(st))
                            tag = f'group_tokens(Identifier, {start}, {end}, extend={extend}) on {n_} children' + (' (first is an Identifier)' if first_is_group else '')
                            if len(after) != len(before) or any(a is not b for a, b in zip(after, before)):
                                bad.append(f'{tag}: leaf sequence changed: {[t_.value for t_ in after]}')
                                continue
                            if len(st.tokens) != n_ - (end - start) or st.tokens[start] is not grp:
                                bad.append(f'{tag}: the list has {len(st.tokens)} children / the group is not at index {start}')
                            if not grp.is_group or grp.parent is not st or any(k.parent is not grp for k in grp.tokens) or not grp.tokens:
                                bad.append(f'{tag}: parent links of the new group are wrong')
                            if getattr(grp, 'value', None) != ''.join(t_.value for t_ in leaves_of(grp)):
                                bad.append(f'{tag}: cached value {getattr(grp, "value", None)!r} is not the text of the group')
                            if extend and first_is_group and grp is not kids[start]:
                                bad.append(f'{tag}: the existing group was not extended')
                            if any(k.parent is not st for k in st.tokens):
                                bad.append(f'{tag}: a remaining child lost its parent')
        return bad
    g8 = _fn(ctx, 'sqlparse.sql.TokenList.group_tokens')
    guard('group_tokens', 'TokenList.group_tokens', f'{g8.mod.relpath}:{g8.node.lineno}',
          'group_tokens replaces exactly the slice by one group (or extends the group at its start), keeps the leaf sequence, sets parent links and the cached text '
          '(lists of up to 4 children, every slice, extend on/off)', b8)

    guard('nav', 'TokenList navigation', loc,
          'token_next / token_prev / token_first / token_next_by / token_index return the neighbour the rules assume (lists of up to 4 children over '
          'whitespace, comment, name; every index; every skip_ws/skip_cm combination)', b6)
    return out
