"""Rules on sqlparse/filters and formatter wiring (C06, C08, C10)."""
import ast
from . import rx

from .astutil import Guards, src, is_name, is_attr, local_defs, enum_paths, exits_always, alias_map, canon_text
from .cg import get_cg
from .fold import TT, NotConst, ClsRef
from .fx import effects_of
from .model import own_nodes, Cls, Func

WS = TT(('Text', 'Whitespace'))
LAYOUT = ['StripWhitespaceFilter', 'SpacesAroundOperatorsFilter', 'ReindentFilter', 'AlignedIndentFilter']


def _loc(f, n):
    return f'{f.mod.relpath}:{n.lineno}'


def filter_class(ctx, name):
    for c in ctx.repo.classes.values():
        if c.name == name and c.mod.name.startswith('sqlparse.filters.'):
            return c
    ctx.need(False, f'filter class {name} not found')


# ---------------------------------------------------------------------------
# whitespace-string domain (R6.2)

class WsDomain:
    def __init__(self, ctx):
        self.ctx = ctx
        self._attr_cache = {}
        self.reasons = []

    def ws_only(self, e, f, depth=0):
        """is the string expression `e` (inside Func f) built only from whitespace constants?"""
        if depth > 6:
            return False
        if isinstance(e, ast.Constant):
            return isinstance(e.value, str) and (e.value == '' or e.value.isspace())
        if isinstance(e, ast.BinOp) and isinstance(e.op, ast.Add):
            return self.ws_only(e.left, f, depth + 1) and self.ws_only(e.right, f, depth + 1)
        if isinstance(e, ast.BinOp) and isinstance(e.op, ast.Mult):
            return self.ws_only(e.left, f, depth + 1) or self.ws_only(e.right, f, depth + 1)
        if isinstance(e, ast.IfExp):
            return self.ws_only(e.body, f, depth + 1) and self.ws_only(e.orelse, f, depth + 1)
        if isinstance(e, ast.JoinedStr):
            ok = True
            for v in e.values:
                if isinstance(v, ast.Constant):
                    ok = ok and (v.value == '' or v.value.isspace())
                elif isinstance(v, ast.FormattedValue):
                    ok = ok and self.ws_only(v.value, f, depth + 1)
            return ok
        if isinstance(e, ast.Name):
            defs = local_defs(f.node).get(e.id, []) if not isinstance(f.node, ast.Lambda) else []
            vals = [d for d in defs if isinstance(d, ast.AST)]
            if defs and len(vals) == len(defs):
                return all(self.ws_only(d, f, depth + 1) for d in vals)
            if e.id in f.params and not defs:
                return self.param_ws(f, e.id, depth)
            # `indent = match.group()` of r'^ +'
            for d in defs:
                if isinstance(d, ast.AST):
                    continue
            return False
        if isinstance(e, ast.Attribute) and is_name(e.value, 'self'):
            cls = f.cls or (f.parent.cls if f.parent else None)
            return cls is not None and self.attr_ws(cls, e.attr, depth)
        if isinstance(e, ast.Call) and isinstance(e.func, ast.Attribute) and e.func.attr == 'group' and not e.args:
            # match.group() of a pattern matching blanks only: re.search(r'^ +', ...)
            recv = e.func.value
            if isinstance(recv, ast.Name):
                for d in local_defs(f.node).get(recv.id, []):
                    if isinstance(d, ast.Call) and src(d.func) in ('re.search', 're.match') and isinstance(d.args[0], ast.Constant):
                        import re
                        pat = d.args[0].value
                        from . import rx
                        try:
                            tree = rx.parse(pat, 0)
                            sets = rx.Prog(pat, 0).charsets()
                            wsb = rx.cls(r'\s', re.UNICODE)
                            return all((s & ~wsb) == 0 for s in sets)
                        except Exception:
                            return False
            return False
        if isinstance(e, ast.Subscript):
            # after_lb = token.value.split('\n', 1)[1]  with token.is_whitespace -- handled by callers via guards
            return False
        return False

    def attr_ws(self, cls, attr, depth):
        key = (cls.qname, attr)
        if key in self._attr_cache:
            return self._attr_cache[key]
        self._attr_cache[key] = True      # optimistic for recursion
        stores = []
        for c in self.ctx.repo.mro(cls):
            for m in c.methods.values():
                for n in own_nodes(m.node):
                    if isinstance(n, ast.Assign) and any(is_attr(t, attr, 'self') for t in n.targets):
                        stores.append((m, n.value))
                    if isinstance(n, ast.AugAssign) and is_attr(n.target, attr, 'self'):
                        stores.append((m, n.value))
        ok = bool(stores) and all(self.ws_only(v, m, depth + 1) for m, v in stores)
        self._attr_cache[key] = ok
        return ok

    def param_ws(self, f, pname, depth):
        """every value the parameter can receive is whitespace-only: default + package call sites"""
        a = f.node.args
        names = [x.arg for x in a.args]
        defaults = dict(zip(names[len(names) - len(a.defaults):], a.defaults))
        d = defaults.get(pname)
        if d is not None and not self.ws_only(d, f, depth + 1):
            return False
        if f.name != '__init__' or f.cls is None:
            return False
        cg = get_cg(self.ctx)
        repo = self.ctx.repo
        ok = True
        nsites = 0
        for caller_q, sites in cg.sites.items():
            for call, callees in sites:
                if f.qname in callees:
                    nsites += 1
                    caller = repo.funcs[caller_q]
                    val = None
                    pos = names.index(pname) - 1
                    if pos < len(call.args):
                        val = call.args[pos]
                    for k in call.keywords:
                        if k.arg == pname:
                            val = k.value
                    if val is None:
                        if d is None:
                            ok = False
                        continue
                    if not self.option_ws(val, caller, depth):
                        ok = False
        return ok

    def option_ws(self, val, caller, depth):
        """options['indent_char'] written unconditionally by validate_options with whitespace constants"""
        if self.ws_only(val, caller, depth + 1):
            return True
        if isinstance(val, ast.Subscript) and is_name(val.value) and isinstance(val.slice, ast.Constant):
            key = val.slice.value
            vo = self.ctx.repo.funcs.get('sqlparse.formatter.validate_options')
            if vo is None:
                return False
            stores = [n for n in own_nodes(vo.node) if isinstance(n, ast.Assign) and isinstance(n.targets[0], ast.Subscript)
                      and isinstance(n.targets[0].slice, ast.Constant) and n.targets[0].slice.value == key]
            if not stores or not all(self.ws_only(s.value, vo, depth + 1) for s in stores):
                return False
            # unconditional: the stores sit in an if/else that covers both arms at top level
            g = Guards(vo.node)
            covered = False
            for s in vo.node.body:
                if isinstance(s, ast.If):
                    arms = _if_arms(s)
                    if arms and all(any(st in stores for st in arm) or exits_always(arm) for arm in arms):
                        covered = True
                if s in stores:
                    covered = True
            return covered
        return False


def _if_arms(s):
    """statement lists of every arm of an if/elif/else chain (None if there is no final else)"""
    arms = [s.body]
    cur = s
    while len(cur.orelse) == 1 and isinstance(cur.orelse[0], ast.If):
        cur = cur.orelse[0]
        arms.append(cur.body)
    if not cur.orelse:
        return None
    arms.append(cur.orelse)
    return arms


# ---------------------------------------------------------------------------
# whitespace tokens

def is_ws_token_expr(ctx, e, f, dom, depth=0):
    """e evaluates to a freshly built whitespace token: sql.Token(T.Whitespace*, <ws-only>) or self.nl(...)"""
    folder = ctx.folder
    if isinstance(e, ast.Call):
        cg = get_cg(ctx)
        r = cg._resolve_name_value(e.func, f, f.mod, cg._enclosing_class(f)) if isinstance(e.func, (ast.Name, ast.Attribute)) else []
        if any(isinstance(t, Cls) and t.qname == 'sqlparse.sql.Token' for t in r):
            if len(e.args) == 2:
                tt = folder.try_eval(e.args[0], f.mod)
                return isinstance(tt, TT) and WS.contains(tt) and dom.ws_only(e.args[1], f), f'sql.Token({tt!r}, {src(e.args[1])})'
            return False, src(e)
        if isinstance(e.func, ast.Attribute) and is_name(e.func.value, 'self'):
            cls = f.cls or (f.parent.cls if f.parent else None)
            m = ctx.repo.lookup_method(cls, e.func.attr) if cls else None
            if m is not None and depth < 2:
                rets = [n for n in own_nodes(m.node) if isinstance(n, ast.Return)]
                if rets and all(r_.value is not None and is_ws_token_expr(ctx, r_.value, m, dom, depth + 1)[0] for r_ in rets):
                    return True, f'self.{m.name}() returns a whitespace token on every path'
                return False, f'self.{m.name}() does not provably return a whitespace token'
    if isinstance(e, ast.Name):
        defs = local_defs(f.node).get(e.id, [])
        vals = [d for d in defs if isinstance(d, ast.AST)]
        if defs and len(vals) == len(defs):
            rs = [is_ws_token_expr(ctx, d, f, dom, depth + 1) for d in vals]
            return all(r[0] for r in rs), '; '.join(r[1] for r in rs)
    return False, src(e)


# ---------------------------------------------------------------------------
# mutation sites of a filter class

class Site:
    def __init__(self, f, node, kind, detail):
        self.f, self.node, self.kind, self.detail = f, node, kind, detail


def mutation_sites(ctx, cls):
    """tree effects inside the methods of a filter class (nested closures included)"""
    cg = get_cg(ctx)
    repo = ctx.repo
    out = []
    funcs = [f for f in repo.funcs.values() if f.qname.startswith(cls.qname + '.')]
    for f in funcs:
        for e in effects_of(f, cg):
            if e.kind in ('list-mut', 'tree-api', 'tokens-rebind'):
                out.append((f, e))
            elif e.kind == 'attr-store' and e.attr in ('value', 'ttype', 'normalized', 'parent', 'tokens'):
                out.append((f, e))
            elif e.kind == 'item-store':
                out.append((f, e))
    return out


def ws_proved(ctx, f, node, target, index_expr, gd):
    """Is the token denoted by `target`/(list, index) proved whitespace by the guards dominating `node`?
    target: expression text of the token (or None); index_expr: (list_src, index_src) or None"""
    amap = alias_map(f.node)
    facts = [(canon_text(a[0], amap), a[1]) for a in gd.facts(node) if a[0] != '|']
    pos = {e for e, p in facts if p}
    # a) same subscript expression
    if index_expr is not None:
        lst, idx = index_expr
        lst = canon_text(lst, amap)
        if f'{lst}[{idx}].is_whitespace' in pos:
            return True, f'guard {lst}[{idx}].is_whitespace'
        # b) pair partner: idx, tok = L.token_prev/next(...)
        for name, defs in local_defs(f.node).items():
            for d in defs:
                if isinstance(d, tuple) and d[0] == 'unpack' and d[2] == 1:
                    stmt = d[3]
                    tgt = stmt.targets[0]
                    if isinstance(tgt, ast.Tuple) and len(tgt.elts) == 2 and is_name(tgt.elts[0], idx) and is_name(tgt.elts[1], name):
                        v = d[1]
                        if isinstance(v, ast.Call) and isinstance(v.func, ast.Attribute) and v.func.attr in ('token_prev', 'token_next', 'token_next_by') \
                                and src(v.func.value) + '.tokens' == lst:
                            if f'{name}.is_whitespace' in pos:
                                return True, f'({idx}, {name}) come from one lookup on {src(v.func.value)} and {name}.is_whitespace holds'
    if target is not None:
        if f'{target}.is_whitespace' in pos:
            return True, f'guard {target}.is_whitespace'
        # c) conditional definition x = t if t.is_whitespace else None  + truthiness
        defs = local_defs(f.node).get(target, [])
        vals = [d for d in defs if isinstance(d, ast.AST)]
        if vals and target in pos:
            ok = True
            for d in vals:
                if isinstance(d, ast.Constant) and d.value is None:
                    continue
                if isinstance(d, ast.IfExp) and isinstance(d.orelse, ast.Constant) and d.orelse.value is None \
                        and src(d.test) == f'{src(d.body)}.is_whitespace':
                    continue
                ok = False
            if ok:
                return True, f'{target} is only ever a whitespace token or None, and is truthy here'
    return False, f'guards: {sorted(pos)}'


# ---------------------------------------------------------------------------
# formatter stack composition (R6.3 / R8.4 / R10.2)

def stack_plan(ctx):
    """ordered list of (list name, filter class name, guard option names, call node) from build_filter_stack"""
    repo = ctx.repo
    b = repo.func('sqlparse.formatter.build_filter_stack')
    gd = Guards(b.node)
    cg = get_cg(ctx)
    out = []
    for n in own_nodes(b.node):
        if isinstance(n, ast.Call) and isinstance(n.func, ast.Attribute) and n.func.attr == 'append' \
                and isinstance(n.func.value, ast.Attribute) and n.func.value.attr in ('preprocess', 'stmtprocess', 'postprocess'):
            lst = n.func.value.attr
            arg = n.args[0]
            cnames = []
            cands = [arg] if isinstance(arg, ast.Call) else [d for d in local_defs(b.node).get(getattr(arg, 'id', ''), []) if isinstance(d, ast.Call)]
            for c in cands:
                for t in cg._resolve_name_value(c.func, b, b.mod, None):
                    if isinstance(t, Cls):
                        cnames.append(t.name)
            opts = []
            for e, p in [a for a in gd.facts(n) if a[0] != '|']:
                import re
                opts += [(o, p) for o in re.findall(r"options(?:\.get\(|\[)'(\w+)'", e)]
            for a in [x for x in gd.facts(n) if x[0] == '|']:
                import re
                for alt in a[1]:
                    for e, p in alt:
                        opts += [(o, p) for o in re.findall(r"options(?:\.get\(|\[)'(\w+)'", e)]
            out.append({'list': lst, 'classes': cnames, 'options': opts, 'node': n, 'line': n.lineno})
    out.sort(key=lambda d: d['line'])
    return b, out


# ---------------------------------------------------------------------------
# every token a filter puts into a tree is a new object (no aliasing between positions, trees or calls)

def check_fresh_insertions(ctx, rid, modules=('sqlparse.filters.',)):
    """A token object occupies one position of one tree: StripWhitespaceFilter and the reindent filters rewrite
    `.value` of whitespace tokens in place, so a token object that is inserted at two positions (a class-level or
    module-level constant, a local created once outside the loop that inserts it) changes at all of them together and
    keeps the change for the next call.  Every inserted token must be created at the insertion: a constructor call, a
    factory call all of whose returns are constructor calls, or a local bound to one of those inside the same loop body."""
    repo, folder = ctx.repo, ctx.folder
    cg = get_cg(ctx)

    def is_ctor(c, f):
        if not isinstance(c, ast.Call):
            return False
        try:
            v = folder.eval(c.func, f.mod)
        except NotConst:
            return False
        return isinstance(v, ClsRef)

    def fresh(e, f, depth=0):
        """(ok, why)"""
        if isinstance(e, ast.IfExp):
            a, wa = fresh(e.body, f, depth)
            b, wb = fresh(e.orelse, f, depth)
            return (a and b), (wa if not a else wb)
        if is_ctor(e, f):
            return True, 'constructor call'
        if isinstance(e, ast.Call) and depth < 3:
            targets = [t for t in cg._resolve_name_value(e.func, f, f.mod, f.cls) if isinstance(t, Func)] if isinstance(e.func, ast.Name) else []
            if isinstance(e.func, ast.Attribute) and is_name(e.func.value, 'self') and f.cls is not None or \
                    (isinstance(e.func, ast.Attribute) and is_name(e.func.value, 'self') and f.parent is not None):
                owner = f
                while owner.cls is None and owner.parent is not None:
                    owner = owner.parent
                if owner.cls is not None:
                    for c in [owner.cls] + [x for x in repo.subclasses(owner.cls) if x is not owner.cls]:
                        m = repo.lookup_method(c, e.func.attr)
                        if m is not None and m not in targets:
                            targets.append(m)
            if isinstance(e.func, ast.Name):
                p = f
                while p is not None:
                    if e.func.id in p.nested and p.nested[e.func.id] not in targets:
                        targets.append(p.nested[e.func.id])
                    p = p.parent
            if not targets:
                return False, f'`{src(e)[:50]}` is not a constructor or a resolvable factory'
            for t in targets:
                rets = [r for r in own_nodes(t.node) if isinstance(r, ast.Return) and r.value is not None]
                if not rets:
                    return False, f'factory {t.short} returns nothing'
                for r in rets:
                    ok, why = fresh(r.value, t, depth + 1)
                    if not ok:
                        return False, f'factory {t.short} returns `{src(r.value)[:50]}`: {why}'
            return True, 'factory call'
        return False, f'`{src(e)[:60]}` is an existing object'

    n = 0
    for f in repo.funcs.values():
        if not any(f.mod.name.startswith(m) for m in modules) or isinstance(f.node, ast.Lambda):
            continue
        gd = None
        sites = []
        for c in own_nodes(f.node):
            tok = None
            if isinstance(c, ast.Call) and isinstance(c.func, ast.Attribute):
                if c.func.attr in ('insert_before', 'insert_after') and len(c.args) == 2:
                    tok = c.args[1]
                elif c.func.attr == 'insert' and is_attr(c.func.value, 'tokens') and len(c.args) == 2:
                    tok = c.args[1]
                elif c.func.attr == 'append' and is_attr(c.func.value, 'tokens') and len(c.args) == 1:
                    tok = c.args[0]
            elif isinstance(c, ast.Assign) and len(c.targets) == 1 and isinstance(c.targets[0], ast.Subscript) \
                    and is_attr(c.targets[0].value, 'tokens') and not isinstance(c.targets[0].slice, ast.Slice):
                tok = c.value
            if tok is not None:
                sites.append((c, tok))
        if not sites:
            continue
        gd = Guards(f.node)
        defs = local_defs(f.node)
        name_sites = {}
        for c, tok in sites:
            if isinstance(tok, ast.Name):
                name_sites.setdefault(tok.id, []).append(c)
        for c, tok in sites:
            n += 1
            loc = f'{f.mod.relpath}:{c.lineno}'
            if isinstance(tok, ast.Name):
                ds = defs.get(tok.id, [])
                ok, why = bool(ds), 'no local definition (parameter or outer variable)'
                for d in ds:
                    if isinstance(d, tuple):
                        ok, why = False, f'`{tok.id}` comes from `{src(d[1])[:50]}`: an existing token'
                        break
                    ok, why = fresh(d, f)
                    if not ok:
                        break
                    # the definition must be re-executed for every insertion: same loop nest
                    dst = next((s for s in own_nodes(f.node) if isinstance(s, ast.Assign) and s.value is d), None)
                    st = gd.stmt_of.get(id(c), c) if not isinstance(c, ast.stmt) else c
                    l_ins = gd.loops.get(id(st), ())
                    l_def = gd.loops.get(id(dst), ())
                    if not all(any(lp is x for x in l_def) for lp in l_ins):
                        ok, why = False, f'`{tok.id}` is created once outside the loop that inserts it'
                        break
                others = [o for o in name_sites.get(tok.id, []) if o is not c]
                if ok and others:
                    def excl(a, b):
                        fa = {(e, p) for e, p in gd.facts(a) if e != '|'}
                        fb = {(e, p) for e, p in gd.facts(b) if e != '|'}
                        return any((e, not p) in fb for e, p in fa)
                    if not all(excl(c, o) for o in others):
                        ok, why = False, f'`{tok.id}` is inserted at {len(others) + 1} places'
            else:
                ok, why = fresh(tok, f)
            ctx.ob(rid, f'fresh-insert:{f.short}:{src(tok)[:40]}:{[s[0] for s in sites].index(c)}', loc,
                   f'{f.short}: the token inserted by `{src(c)[:60]}` is created at the insertion', ok,
                   f'{why}: the same token object ends up at several positions / in several statements, and the in-place edits of the whitespace '
                   'filters (token.value = ...) then change all of them at once')
    return n


# ---------------------------------------------------------------------------
# option space: invariants of the filter plan over every validated option dictionary (optmodel)

BOOL_KEYS = ('strip_comments', 'use_space_around_operators', 'strip_whitespace', 'indent_columns', 'reindent', 'reindent_aligned',
             'indent_tabs', 'indent_after_first', 'comma_first', 'compact')


def option_space(ctx):
    """[(options given by the caller, validated dictionary or ('raise', ..), plan or None)] for every combination of
    {absent, True, False} over the boolean options that interact (read or written together in validate_options /
    build_filter_stack), the other options varied one at a time.  Cached per run."""
    def build():
        import itertools
        from . import optmodel as OM
        inter = ('strip_whitespace', 'indent_columns', 'reindent', 'reindent_aligned', 'use_space_around_operators', 'strip_comments')
        single = [('indent_tabs', True), ('indent_after_first', True), ('comma_first', True), ('compact', True), ('keyword_case', 'upper'),
                  ('identifier_case', 'lower'), ('truncate_strings', 5), ('output_format', 'python'), ('output_format', 'php'), ('output_format', 'sql'),
                  ('right_margin', 40), ('wrap_after', 20), ('indent_width', 4)]
        out = []
        for vals in itertools.product((None, True, False), repeat=len(inter)):
            base = {k: v for k, v in zip(inter, vals) if v is not None}
            for extra in [None] + single:
                o = dict(base)
                if extra is not None:
                    o[extra[0]] = extra[1]
                v = OM.validate(ctx, o)
                pl = OM.plan(ctx, v) if isinstance(v, dict) else None
                out.append((o, v, pl))
        return out
    return ctx.shared('option_space', build)


def check_plan_invariants(ctx, rid):
    """For every option dictionary of the space that validate_options accepts, the filter stack build_filter_stack assembles
    satisfies the composition the layout filters rely on."""
    from . import optmodel as OM
    space = option_space(ctx)
    b = ctx.repo.func('sqlparse.formatter.build_filter_stack')
    loc = f'{b.mod.relpath}:{b.node.lineno}'
    ctx.info['option_dictionaries'] = len(space)
    ctx.need(len(space) >= 5000, f'option space has only {len(space)} dictionaries')
    inv = {
        'no-crash': ('every accepted dictionary builds a stack (no KeyError/TypeError in build_filter_stack)', []),
        'strip-before-indent': ('ReindentFilter / AlignedIndentFilter never run without StripWhitespaceFilter before them', []),
        'operators-before-strip': ('SpacesAroundOperatorsFilter runs before StripWhitespaceFilter (the blanks it inserts are normalised)', []),
        'comments-before-strip': ('StripCommentsFilter runs before StripWhitespaceFilter (blanks left by removed comments are collapsed)', []),
        'grouping': ('a stack with statement filters has grouping enabled', []),
        'requested-filter-present': ('a requested layout option installs its filter', []),
        'no-unrequested-filter': ('no layout filter is installed that no option asked for', []),
    }
    want = {'reindent': 'ReindentFilter', 'reindent_aligned': 'AlignedIndentFilter', 'use_space_around_operators': 'SpacesAroundOperatorsFilter',
            'strip_comments': 'StripCommentsFilter', 'strip_whitespace': 'StripWhitespaceFilter'}
    nacc = 0
    for o, v, pl in space:
        if not isinstance(v, dict):
            continue
        nacc += 1
        if not isinstance(pl, dict):
            inv['no-crash'][1].append((o, pl))
            continue
        names = OM.plan_names(pl)['stmtprocess']

        def before(a, b_):
            return a not in names or b_ not in names or names.index(a) < names.index(b_)
        for ind in ('ReindentFilter', 'AlignedIndentFilter'):
            if ind in names and not ('StripWhitespaceFilter' in names and names.index('StripWhitespaceFilter') < names.index(ind)):
                inv['strip-before-indent'][1].append((o, names))
        if not before('SpacesAroundOperatorsFilter', 'StripWhitespaceFilter'):
            inv['operators-before-strip'][1].append((o, names))
        if not before('StripCommentsFilter', 'StripWhitespaceFilter'):
            inv['comments-before-strip'][1].append((o, names))
        if names and not pl['grouping']:
            inv['grouping'][1].append((o, names))
        for k, cn in want.items():
            if o.get(k) is True and cn not in names:
                inv['requested-filter-present'][1].append((o, names))
        implied = {'ReindentFilter': o.get('reindent') is True or o.get('indent_columns') is True, 'AlignedIndentFilter': o.get('reindent_aligned') is True,
                   'SpacesAroundOperatorsFilter': o.get('use_space_around_operators') is True, 'StripCommentsFilter': o.get('strip_comments') is True,
                   'StripWhitespaceFilter': o.get('strip_whitespace') is True or o.get('reindent') is True or o.get('reindent_aligned') is True
                   or o.get('indent_columns') is True, 'RightMarginFilter': bool(o.get('right_margin'))}
        for cn in names:
            if cn in implied and not implied[cn]:
                inv['no-unrequested-filter'][1].append((o, names))
    ctx.info['accepted_option_dictionaries'] = nacc
    for key, (text, bad) in inv.items():
        bad.sort(key=lambda x: len(x[0]))
        ctx.ob(rid, f'plan:{key}', loc, f'{text} (all {nacc} accepted dictionaries of the option space)', not bad,
               '; '.join(f'format(sql, **{o}) builds {r}' for o, r in bad[:2]) + (f' (+{len(bad) - 2} more)' if len(bad) > 2 else ''))


def _empty_slice_insert(node, tokp):
    """`L[i:i] = [token]`"""
    if not (isinstance(node, ast.Assign) and len(node.targets) == 1 and isinstance(node.targets[0], ast.Subscript)):
        return False
    sl = node.targets[0].slice
    if not (isinstance(sl, ast.Slice) and sl.step is None and sl.lower is not None and sl.upper is not None and src(sl.lower) == src(sl.upper)):
        return False
    v = node.value
    return isinstance(v, (ast.List, ast.Tuple)) and len(v.elts) == 1 and isinstance(v.elts[0], ast.Name) and v.elts[0].id == tokp


def check_tree_api_contract(ctx, rid):
    """The layout rules (R6.1) accept `tlist.insert_before/insert_after(where, <whitespace token>)` as an insertion of whitespace.
    That reading is only right if the two helpers of TokenList do what their names say: on every path that returns they put
    exactly the given token into self.tokens once (insert/append), set its parent, and change nothing else of the tree; the
    look-ups they call have no tree effects at all."""
    from .astutil import enum_paths
    repo = ctx.repo
    cg = get_cg(ctx)
    tl = repo.mod('sqlparse.sql').classes['TokenList']
    n = 0
    for name in ('insert_before', 'insert_after'):
        f = repo.funcs.get(f'{tl.qname}.{name}')
        ctx.need(f is not None, f'TokenList.{name} not found')
        tokp = f.params[2] if len(f.params) > 2 else None
        ctx.need(tokp is not None, f'TokenList.{name} has no token parameter')
        loc0 = f'{f.mod.relpath}:{f.node.lineno}'
        ins_nodes = {}
        for e in effects_of(f, cg):
            key = f'{name}:{e.kind}:{e.detail}'
            if e.kind == 'attr-store' and e.attr == 'parent':
                ok = e.recv == tokp and isinstance(e.node, ast.Assign) and src(e.node.value) == f.params[0]
                ctx.ob(rid, key, e.loc, f'`{e.detail}` makes the list the parent of the inserted token', ok,
                       'the helper re-parents something other than the token it inserts')
            elif e.kind == 'list-mut' and e.attr in ('insert', 'append') and e.recv == f'{f.params[0]}.tokens':
                arg = e.node.args[-1]
                ok = isinstance(arg, ast.Name) and arg.id == tokp
                ins_nodes[id(e.node)] = e
                ctx.ob(rid, key, e.loc, f'`{e.detail}` puts the given token into the child list', ok,
                       f'inserted value `{src(arg)}` is not the parameter {tokp}')
            elif e.kind == 'list-mut' and e.attr == 'setitem' and _empty_slice_insert(e.node, tokp):
                ins_nodes[id(e.node)] = e
                ctx.ob(rid, key, e.loc, f'`{e.detail}` puts the given token into the child list (empty-slice assignment)', True)
            elif e.kind in ('list-mut', 'tokens-rebind', 'tree-api', 'item-store') or (e.kind == 'attr-store' and e.attr in ('value', 'ttype', 'normalized', 'tokens')):
                ctx.ob(rid, key, e.loc, f'TokenList.{name} only inserts: no other change of a child list or a token', False,
                       f'`{e.detail}` removes, replaces or rewrites tokens inside the helper every layout filter uses to add whitespace: '
                       f'a significant token (e.g. a comment next to the insertion point) can disappear from the formatted output')
            else:
                continue
            n += 1
        # exactly one insertion on every returning path
        for i, p in enumerate(enum_paths(f.node.body)):
            if p.exit == 'raise':
                continue
            cnt = 0
            for ev in p.events:
                node = ev[1] if ev[0] == 'stmt' else None
                if node is None:
                    continue
                cnt += sum(1 for c in ast.walk(node) if id(c) in ins_nodes)
            n += 1
            ctx.ob(rid, f'{name}:path{i}', loc0, f'path {i} of TokenList.{name} inserts the token exactly once', cnt == 1,
                   f'{cnt} insertions on the path with tests {[src(e[1]) + "=" + str(e[2]) for e in p.events if e[0] == "test"]}')
        # callees are look-ups
        for q in sorted(cg.reachable([f]) - {f.qname}):
            g = repo.funcs.get(q)
            if g is None:
                continue
            bad = [e for e in effects_of(g, cg) if e.kind in ('list-mut', 'tokens-rebind', 'tree-api') or
                   (e.kind == 'attr-store' and e.attr in ('value', 'ttype', 'normalized', 'tokens', 'parent') and g.name != '__init__')]
            n += 1
            ctx.ob(rid, f'{name}:callee:{g.short}', f'{g.mod.relpath}:{g.node.lineno}', f'{g.short} (called by TokenList.{name}) has no tree effect',
                   not bad, f'{[e.detail for e in bad][:3]}')
    ctx.need(n >= 8, f'tree API contract: only {n} obligations')


def check_handler_tables(ctx, rid, filters=('ReindentFilter', 'AlignedIndentFilter', 'StripWhitespaceFilter')):
    """A `_process_<cls>` / `_stripws_<cls>` handler receives groups of class <cls>; where it looks for the group's own
    delimiter with a literal (token_next_by(m=(T.Keyword, 'WHERE')), .match(T.Keyword, 'END')) the literal must name every
    word the class's M_OPEN / M_CLOSE table accepts -- otherwise groups opened by the other words fall through the handler's
    early exit and are left as they are.  Sibling tables of one interface must agree (reference to the class constant is
    agreement by construction)."""
    from .fold import NotConst, TT
    repo, folder = ctx.repo, ctx.folder
    cg = get_cg(ctx)
    sqlmod = repo.mod('sqlparse.sql')
    by_lower = {c.name.lower(): c for c in sqlmod.classes.values()}
    n = 0

    def words(v):
        if isinstance(v, str):
            return {v.upper()}
        if isinstance(v, (tuple, list, set, frozenset)):
            return {x.upper() for x in v if isinstance(x, str)}
        return None
    for q, d in cg.dispatch.items():
        if not any(q.startswith(filter_class(ctx, fc).qname + '.') for fc in filters):
            continue
        for m in d['targets']:
            suffix = m.name[len(d['prefix']):]
            c = by_lower.get(suffix)
            if c is None:
                continue
            tabs = {}
            for attr in ('M_OPEN', 'M_CLOSE'):
                node, owner = repo.lookup_class_attr(c, attr)
                if node is None:
                    continue
                try:
                    v = folder.eval(node, c.mod, None, owner or c)
                except NotConst:
                    continue
                if isinstance(v, tuple) and len(v) == 2 and isinstance(v[0], TT):
                    tabs[attr] = (v[0], words(v[1]))
            if not tabs:
                continue
            for node in own_nodes(m.node):
                lit = None
                if isinstance(node, ast.keyword) and node.arg == 'm' and isinstance(node.value, ast.Tuple) and len(node.value.elts) == 2:
                    lit = node.value.elts
                    where = node.value
                elif isinstance(node, ast.Call) and isinstance(node.func, ast.Attribute) and node.func.attr == 'match' and len(node.args) >= 2:
                    lit = node.args[:2]
                    where = node
                if lit is None:
                    continue
                try:
                    tt = folder.eval(lit[0], m.mod, None, None)
                    w = words(folder.eval(lit[1], m.mod, None, None))
                except NotConst:
                    continue
                if not w:
                    continue
                for attr, (ctt, cw) in tabs.items():
                    if cw and tt == ctt and (w & cw):
                        n += 1
                        ctx.ob(rid, f'{m.short}:{attr}:{"|".join(sorted(w))}', f'{m.mod.relpath}:{where.lineno}',
                               f'{m.short} looks for the delimiter of a {c.name} with {sorted(w)}; {c.name}.{attr} accepts {sorted(cw)}', cw <= w,
                               f'{c.name}.{attr} also accepts {sorted(cw - w)}: a {c.name} group delimited by that word is not recognised by its own '
                               f'handler (early exit / wrong anchor), so its clause keywords are not laid out')
    ctx.need(n >= 2, f'handler/table agreement: only {n} literal sites found')


def check_statement_edges(ctx, rid):
    """format() joins the formatted statements without a separator.  A layout filter that removes the first or last child of the
    *statement* (its trailing line break, say) therefore relies on the statement boundary having punctuation on one side.  The
    splitter ends a statement behind `;` -- and behind the word GO.  Every (edge removal) x (word boundary) pair is an
    obligation: it can only hold if the filter leaves a separator there."""
    repo = ctx.repo
    cg = get_cg(ctx)
    sp = repo.func('sqlparse.engine.statement_splitter.StatementSplitter.process')
    word_boundaries = sorted({n.value for n in own_nodes(sp.node) if isinstance(n, ast.Constant) and isinstance(n.value, str) and n.value.isalpha()
                              and n.value.isupper()})
    ctx.info['statement_boundaries_behind_a_word'] = word_boundaries
    n = 0
    for cname in LAYOUT:
        c = filter_class(ctx, cname)
        f = c.methods.get('process')
        if f is None:
            continue
        stmtp = next((p for p in f.params if p not in ('self', 'cls')), None)
        if stmtp is None:
            continue
        gd = Guards(f.node)
        for e in effects_of(f, cg):
            if e.kind != 'list-mut' or e.attr not in ('pop', 'del', 'remove') or e.recv != f'{stmtp}.tokens':
                continue
            if e.attr == 'pop':
                idx = src(e.node.args[0]) if e.node.args else '-1'
            elif e.attr == 'del':
                idx = src(e.node.targets[0].slice)
            else:
                idx = '?'
            if idx not in ('-1', '0'):
                continue
            edge = 'last' if idx == '-1' else 'first'
            # a replacement inserted at the same edge in the same block counts as keeping a separator
            blk = gd.stmt_of.get(id(e.node))
            n += 1
            if not word_boundaries:
                ctx.ob(rid, f'{f.short}:{edge}-child', e.loc, f'`{e.detail}` removes the {edge} child of the statement; every statement boundary has '
                       'punctuation on one side', True)
                continue
            for w in word_boundaries:
                ctx.ob(rid, f'{f.short}:{edge}-child:{w}', e.loc,
                       f'`{e.detail}` removes the {edge} child of the statement and the neighbouring statement cannot fuse with it across a {w} boundary',
                       False, f'the splitter ends a statement behind the word {w}; with its trailing whitespace removed and the statements joined without '
                       f'a separator, `select 1\\n{w}\\nselect 2` is formatted to `select 1 {w}select 2`: two tokens are fused and two statements become one')
    ctx.ob(rid, 'edges:inventory', 'sqlparse/filters', f'{n} statement-edge removal site(s) in the layout filters examined', True)


def check_operator_spacing_tokens(ctx, rid):
    """use_space_around_operators puts a blank on both sides of every Operator / Comparison token.  The blank must not change how
    the text lexes: for every operator character c (and every pair) that the table lexes as an operator, `c` followed by a blank is
    still that operator token, and it is still one when it follows a blank."""
    from .tables import get_tables
    from .fold import TT
    T = get_tables(ctx)
    OP, CMP = TT(('Operator',)), TT(('Operator', 'Comparison'))
    cands = [chr(i) for i in range(33, 127) if not chr(i).isalnum()]
    ops = []
    for c in cands:
        r, end, tt = T.lex_one(c + '1', 0)
        if isinstance(tt, TT) and OP.contains(tt) and end == 1:
            ops.append(c)
    words = ops + [a + b for a in ops for b in ops if T.lex_one(a + b + '1', 0)[1] == 2 and isinstance(T.lex_one(a + b + '1', 0)[2], TT)
                   and OP.contains(T.lex_one(a + b + '1', 0)[2])]
    ctx.need(len(ops) >= 8, f'only {len(ops)} operator characters found in the rule table')
    bad = {}
    for w in words:
        r0, e0, t0 = T.lex_one(w + '1', 0)
        r1, e1, t1 = T.lex_one(w + ' 1', 0)
        if (e1, t1) != (len(w), t0):
            bad.setdefault(r1.pattern if r1 is not None else '?', []).append((w, repr(t1), e1))
        r2, e2, t2 = T.lex_one(' ' + w + ' 1', 1)
        if (e2, t2) != (1 + len(w), t0) and (e1, t1) == (len(w), t0):
            bad.setdefault(r2.pattern if r2 is not None else '?', []).append((' ' + w, repr(t2), e2))
    kwloc = T.kwmod.relpath
    if not bad:
        ctx.ob(rid, 'operator-spacing', kwloc, f'{len(words)} operator spellings keep their token when a blank is put behind / in front of them', True)
    for pat, items in sorted(bad.items()):
        line = next((x.line for x in T.lex if x.pattern == pat), 0)
        ctx.ob(rid, f'operator-spacing:rule={rx.canon_pattern(pat)}', f'{kwloc}:{line}', 'an operator followed by a blank is still that operator', False,
               f'rule {pat!r} takes over for {[i[0] for i in items][:6]}: e.g. `1{items[0][0]}2` is formatted to `1 {items[0][0]} 2`, where '
               f'`{items[0][0]} 2` lexes as {items[0][1]} -- the operator and everything behind it on the line become another token')


def check_serializer_sim(ctx, rid):
    """Every formatted statement passes through SerializerUnicode.process last.  Interpreted on sample texts: it may normalise line
    ends (\\r\\n, \\r -> \\n) and strip blanks at line ends, and nothing else -- in particular the other characters str.splitlines()
    treats as line boundaries (VT, FF, FS, GS, RS, NEL, LS, PS) are ordinary characters of a comment or name."""
    from . import miniev as ME
    repo = ctx.repo
    f = repo.funcs.get('sqlparse.filters.others.SerializerUnicode.process')
    ctx.need(f is not None, 'SerializerUnicode.process not found')
    loc = f'{f.mod.relpath}:{f.node.lineno}'
    samples = ['select a from t', 'a\nb', 'a\r\nb', 'a\rb', 'a  \nb', "'a\nb' c", '"a\n b"', "x 'it''s' y\nz", '', '\n', 'a\n']
    for ch in ('\x0b', '\x0c', '\x1c', '\x1d', '\x1e', '\x85', ' ', ' '):
        samples += [f'select a -- x{ch}y\nfrom t', f'/* a{ch}b */ c', f'a{ch}b', f"a{ch}b 'q'"]
    bad = []
    params = [p_ for p_ in f.params if p_ not in ('self', 'cls')]
    for text in samples:
        ev = ME.Evaluator(ctx, f.mod, f.cls)
        ev.effects = True
        try:
            got = ME.run_function(ev, f.node, {params[0]: text}, max_steps=2000)
        except (ME.Unsupported, ME.Unknown) as e:
            ctx.ob(rid, 'serializer:simulation', loc, 'the serializer is evaluable on sample texts', None, f'{text!r}: {e}')
            return
        except ME.Crash as e:
            bad.append(f'{text!r}: {e}')
            continue
        # model: line ends outside '...' / "..." become \n, blanks in front of a line end or the end go
        import re as _re
        parts = _re.split(r"""("(?:[^"\\]|\\.)*"|'(?:[^'\\]|\\.)*')""", text)
        want_lines = ['']
        for i, p_ in enumerate(parts):
            if i % 2:
                want_lines[-1] += p_
            else:
                segs = _re.sub('\r\n|\r', '\n', p_).split('\n')
                want_lines[-1] += segs[0]
                for sg in segs[1:]:
                    want_lines.append(sg)
        want = '\n'.join(l_.rstrip() for l_ in want_lines)
        if got != want:
            bad.append(f'{text!r} -> {got!r}, expected {want!r}')
    ctx.ob(rid, 'serializer:simulation', loc,
           f'the serializer only turns unquoted \\\\r\\\\n / \\\\r into \\\\n and strips blanks at line ends ({len(samples)} sample texts, among them the eight other '
           'line-boundary characters of str.splitlines inside comments and names)', not bad, f'{len(bad)} sample(s) differ, e.g. {bad[:2]}')


def check_retained_statement(ctx, rid):
    """A postprocess filter may replace `stmt.tokens` by a one-shot generator (the output_format filters do).  A statement filter that
    keeps a reference to the statement it has processed (`self._last_stmt = stmt`) sees that object again while it handles the
    next statement -- after the postprocess filters ran on it.  Of such a retained statement only str() is safe: its `.tokens`
    may be an exhausted generator, so subscripts, len(), slicing or truthiness of it raise TypeError or lie."""
    repo = ctx.repo
    # 1. who turns .tokens into a generator
    gens = []
    for f in repo.funcs.values():
        if not f.mod.name.startswith('sqlparse.filters'):
            continue
        for n in own_nodes(f.node):
            if isinstance(n, ast.Assign) and any(isinstance(t, ast.Attribute) and t.attr == 'tokens' for t in n.targets) and isinstance(n.value, ast.Call):
                callee = None
                if isinstance(n.value.func, ast.Attribute) and is_name(n.value.func.value, 'self') and f.cls is not None:
                    callee = repo.lookup_method(f.cls, n.value.func.attr)
                    subs = [repo.lookup_method(c, n.value.func.attr) for c in repo.subclasses(f.cls)]
                    cands = [c for c in [callee] + subs if c is not None]
                    if any(c.is_generator() for c in cands):
                        gens.append(f'{f.short}:{n.lineno}')
    ctx.info['tokens_become_generator_at'] = gens
    n_ob = 0
    for c in repo.classes.values():
        if not c.mod.name.startswith('sqlparse.filters'):
            continue
        pr = c.methods.get('process')
        if pr is None:
            continue
        stmtp = next((p for p in pr.params if p not in ('self', 'cls')), None)
        kept = {t.attr for n in own_nodes(pr.node) if isinstance(n, ast.Assign) and is_name(n.value, stmtp) for t in n.targets
                if isinstance(t, ast.Attribute) and is_name(t.value, 'self')}
        for attr in sorted(kept):
            for m in c.methods.values():
                amap = alias_map(m.node)
                for n in own_nodes(m.node):
                    if isinstance(n, ast.Attribute) and n.attr == 'tokens' and canon_text(src(n.value), amap) == f'self.{attr}':
                        n_ob += 1
                        ctx.ob(rid, f'retained:{c.name}.{attr}:{m.name}:{n.lineno - m.node.lineno}', f'{m.mod.relpath}:{n.lineno}',
                               f'{c.name} keeps the previous statement in self.{attr}; only str() of it is used later', not gens,
                               f'`{src(n)}` reads the token list of the previous statement, which {gens[0] if gens else "?"} has replaced by a generator that is '
                               f'exhausted by then (output_format=python/php): subscript / len() / slicing of it raises TypeError, truthiness is always True')
    ctx.ob(rid, 'retained:inventory', 'sqlparse/filters', f'{n_ob} use(s) of the token list of a retained statement', True)


def check_fixed_tables(ctx, rid, reach=None):
    """A module- or class-level table of fixed length (a tuple/list/str literal, `tuple(f(i) for i in range(N))`, ...) that is
    indexed with a run-time quantity (an indentation width, a nesting depth, a token count) needs a bound on that index: nesting
    depth and widths grow with the input, and an IndexError is not a SQLParseError."""
    repo = ctx.repo
    tables = {}
    for mod in repo.mods.values() if hasattr(repo, 'mods') else []:
        pass
    for m in {f.mod for f in repo.funcs.values()}:
        for name, v in getattr(m, 'assigns', {}).items():
            if _fixed_len(v):
                tables[(m.name, name)] = v
    n_ob = 0
    for f in repo.funcs.values():
        if reach is not None and f.qname not in reach:
            continue
        gd = None
        for n in own_nodes(f.node):
            if not isinstance(n, ast.Subscript) or isinstance(n.slice, (ast.Slice, ast.Constant)) or (isinstance(n.slice, ast.UnaryOp) and isinstance(n.slice.operand, ast.Constant)):
                continue
            base = n.value
            while isinstance(base, ast.Subscript):
                base = base.value
            if not (isinstance(base, ast.Name) and (f.mod.name, base.id) in tables):
                continue
            if base is n.value and isinstance(tables[(f.mod.name, base.id)], (ast.Dict, ast.DictComp)):
                continue        # the dictionary level: a key lookup, not a position
            idx = n.slice
            if gd is None:
                gd = Guards(f.node)
            facts = [e for e, p in gd.facts(n) if e != '|']
            names = {x.id for x in ast.walk(idx) if isinstance(x, ast.Name)}
            bounded = any(('len(' in e or '<' in e or '>' in e) and any(nm in e for nm in names) for e in facts) or isinstance(idx, ast.BinOp) and isinstance(idx.op, ast.Mod)
            # the index variable clamped where it is defined: min(..., K)
            for nm in names:
                for d in local_defs(f.node).get(nm, []):
                    if isinstance(d, ast.AST) and any(isinstance(c, ast.Call) and is_name(c.func, 'min') for c in ast.walk(d)):
                        bounded = True
            n_ob += 1
            ctx.ob(rid, f'fixed-table:{f.short}:{src(n)}', f'{f.mod.relpath}:{n.lineno}',
                   f'`{src(n)}` indexes the fixed-length table {base.id} with a bounded position', bounded,
                   f'index `{src(idx)}` has no upper bound (guards: {facts}): when the quantity outgrows the table (deep nesting, wide indentation) IndexError escapes')
    ctx.ob(rid, 'fixed-table:inventory', 'sqlparse', f'{len(tables)} fixed-length module-level table(s), {n_ob} run-time indexed use(s)', True)


def _fixed_len(v):
    if isinstance(v, (ast.Tuple, ast.List)) or (isinstance(v, ast.Constant) and isinstance(v.value, str)):
        return True
    if isinstance(v, ast.Call) and is_name(v.func, 'tuple', 'list') and v.args and isinstance(v.args[0], (ast.GeneratorExp, ast.ListComp)):
        return _range_comp(v.args[0])
    if isinstance(v, (ast.ListComp,)):
        return _range_comp(v)
    if isinstance(v, ast.DictComp):
        return _fixed_len(v.value)
    if isinstance(v, ast.Dict):
        return any(_fixed_len(x) for x in v.values)
    return False


def _range_comp(c):
    return any(isinstance(g.iter, ast.Call) and is_name(g.iter.func, 'range') for g in c.generators)


def check_tight_delimiters(ctx, rid):
    """strip_whitespace (also under reindent / reindent_aligned) removes the whitespace behind "(", in front of ")" and in front of a
    comma.  That is only safe if the delimiter cannot join the token next to it: for every token x of a representative set,
    "(" x ")" and x "," written without blanks must lex to the same tokens as with blanks."""
    from .tables import get_tables
    T = get_tables(ctx)
    atoms = ['a', 'desc', 'select', '1', '1.5', '.', '=', '<', '<=', '*', '/', '-', '+', '||', '::', ':=', "'s'", '"n"', '`n`', '$1', ':p', '?', '%s', '@v', '#t', '[x]',
             '%', '^', '&', '|', '~', '!', '!=', 'é', '{', '}', '$$x$$', '0xFF', '1e3', '+1', '-1']
    kwloc = T.kwmod.relpath

    def toks(text):
        return [(repr(tt), v) for tt, v, _ in T.lex_all(text) if v.strip() != '' or True]

    def sig(text):
        return [(tt, v) for tt, v in toks(text) if v.strip() != '']
    bad = []
    n = 0
    for x in atoms:
        for tight, spaced in (('(' + x + ')', '( ' + x + ' )'), (x + ',', x + ' ,'), ('(' + x, '( ' + x), (x + ')', x + ' )'), ('(' + x + ',' + x + ')', '( ' + x + ' , ' + x + ' )')):
            n += 1
            a, b = sig(tight), sig(spaced)
            if a != b:
                bad.append(f'{spaced!r} lexes to {[v for _, v in b]} but {tight!r} to {[v for _, v in a]}')
    ctx.ob(rid, 'tight-delimiters', kwloc, f'removing the whitespace next to "(", ")" and "," never joins tokens ({n} combinations over {len(atoms)} token spellings, lexed with the table)',
           not bad, f'{len(bad)} combination(s), e.g. {bad[:2]}: strip_whitespace turns the spaced form into the tight one, so tokens are fused or re-typed by formatting')
