"""Rules on lexer.py: singleton lock, read-only request path, initialisation (C04, C14, C19, C20)."""
import ast

from .astutil import Guards, src, is_name, is_attr, enum_paths
from .model import own_nodes, AnalysisError

LEXER = 'sqlparse.lexer.Lexer'


def _loc(f, n):
    return f'{f.mod.relpath}:{n.lineno}'


def check_singleton_lock(ctx, rid):
    repo = ctx.repo
    c = repo.cls(LEXER)
    f = repo.func(LEXER + '.get_default_instance')
    clsname = f.params[0] if f.params else 'cls'
    # the lock: class-level object created at import
    lock_attr = None
    for name, v in c.attrs.items():
        if isinstance(v, ast.Call) and src(v.func) in ('Lock', 'threading.Lock', 'RLock', 'threading.RLock'):
            lock_attr = name
    ctx.ob(rid, 'lock:class-level', _loc(c, c.node), 'the lexer lock is a class-level Lock() created once at import', lock_attr is not None,
           'no class-level Lock()/RLock() attribute on Lexer: a lock created per call protects nothing')
    if lock_attr is None:
        return
    inst_attr = '_default_instance'
    ctx.need(inst_attr in c.attrs, 'Lexer._default_instance class attribute not found')
    # with-context of every node
    inside = set()
    withs = []

    def mark(stmts, locked):
        for s in stmts:
            if isinstance(s, ast.With):
                l2 = locked or any(is_attr(i.context_expr, lock_attr, clsname) or is_attr(i.context_expr, lock_attr, c.name)
                                   for i in s.items)
                if l2 and not locked:
                    withs.append(s)
                for n in ast.walk(s):
                    if l2:
                        inside.add(id(n))
                mark(s.body, l2)
            else:
                if locked:
                    for n in ast.walk(s):
                        inside.add(id(n))
                for fld in ('body', 'orelse', 'finalbody', 'handlers'):
                    sub = getattr(s, fld, None)
                    if isinstance(sub, list):
                        mark([x for x in sub if isinstance(x, ast.stmt)], locked)
                        for h in sub:
                            if isinstance(h, ast.ExceptHandler):
                                mark(h.body, locked)
    mark(f.node.body, False)
    accesses = [n for n in own_nodes(f.node) if isinstance(n, ast.Attribute) and n.attr == inst_attr
                and (is_name(n.value, clsname) or is_name(n.value, c.name))]
    inits = [n for n in own_nodes(f.node) if isinstance(n, ast.Call) and isinstance(n.func, ast.Attribute)
             and n.func.attr == 'default_initialization']
    # publication order: the class attribute receives a local object whose default_initialization() call has returned.  Then
    # whoever sees the attribute non-None sees a complete lexer, and a failure during initialisation (an exception unwinding
    # through the first call) leaves the attribute None for the next call to try again.
    stores = [n for n in own_nodes(f.node) if isinstance(n, ast.Assign) and any(isinstance(t, ast.Attribute) and t.attr == inst_attr and
              (is_name(t.value, clsname) or is_name(t.value, c.name)) for t in n.targets)]
    ctx.need(stores, 'get_default_instance never assigns the class attribute')
    published_complete = True
    for st in stores:
        v = st.value
        ok = False
        why = f'`{src(st)}` publishes the object before default_initialization() has run on it'
        if isinstance(v, ast.Name):
            prior = [i for i in inits if is_name(i.func.value, v.id) and (i.lineno, i.col_offset) < (st.lineno, st.col_offset)]
            # same straight-line block: the init call is an earlier statement of the block that contains the store
            blk = next((b_ for b_ in _blocks(f.node) if st in b_), [])
            ok = any(any(x is i for s_ in blk[:blk.index(st)] for x in ast.walk(s_)) for i in prior)
            if not ok:
                why = f'no `{v.id}.default_initialization()` precedes `{src(st)}` in its block'
        ctx.ob(rid, f'publish-after-init:L{st.lineno - f.node.lineno}', _loc(f, st),
               'the class attribute is assigned a local instance after default_initialization() returned on it', ok,
               why + ': another caller (an unlocked reader, or the next call after this one failed part-way, e.g. with a RecursionError) '
               'obtains a lexer with an empty or partial rule table and every character becomes an Error token')
        published_complete = published_complete and ok
    ctx.ob(rid, 'lock:acquired', _loc(f, f.node), f'get_default_instance takes `with {clsname}.{lock_attr}` (or publishes only complete instances)',
           bool(withs) or published_complete, 'the getter no longer acquires the class lock (the pre-0.5.0 race)')
    rets = [n for n in own_nodes(f.node) if isinstance(n, ast.Return)]
    final_ret = f.node.body[-1] if isinstance(f.node.body[-1], ast.Return) else None
    for a in accesses:
        in_final_return = final_ret is not None and any(x is a for x in ast.walk(final_ret))
        kind = 'write' if isinstance(a.ctx, ast.Store) else 'read'
        ok = id(a) in inside or (in_final_return and kind == 'read') or published_complete
        ctx.ob(rid, f'access:{kind}:L{a.lineno - f.node.lineno}:{a.col_offset}', _loc(f, a),
               f'{kind} of {clsname}.{inst_attr} happens under the lock, is the final return, or can only observe a complete instance', ok,
               f'{kind} of {clsname}.{inst_attr} at line {a.lineno} is outside `with {clsname}.{lock_attr}`: another thread can observe the '
               'instance between its creation and default_initialization() (unlocked fast path / double-checked locking)')
    ok = bool(inits) and (all(id(n) in inside for n in inits) or published_complete)
    ctx.ob(rid, 'init-under-lock', _loc(f, inits[0] if inits else f.node),
           'default_initialization() of the new instance runs before it is visible to others (inside the locked region / before publication)', ok,
           'the instance is published before/without being initialised under the lock')
    for r in rets:
        if r is not final_ret:
            ctx.ob(rid, f'return:L{r.lineno - f.node.lineno}', _loc(f, r), 'early return is inside the locked region or returns a complete instance',
                   id(r) in inside or published_complete, 'early return outside the lock')


def _blocks(fnode):
    out = []
    for n in ast.walk(fnode):
        for fld in ('body', 'orelse', 'finalbody'):
            b = getattr(n, fld, None)
            if isinstance(b, list) and b and isinstance(b[0], ast.stmt):
                out.append(b)
    return out


def check_request_path_readonly(ctx, rid):
    """R20.2 get_tokens / is_keyword: no store to self, no mutating call on the rule/keyword lists."""
    repo = ctx.repo
    for name in ('get_tokens', 'is_keyword'):
        f = repo.func(f'{LEXER}.{name}')
        bad = []
        for n in own_nodes(f.node):
            tg = []
            if isinstance(n, ast.Assign):
                tg = n.targets
            elif isinstance(n, (ast.AugAssign, ast.AnnAssign)):
                tg = [n.target]
            for t0 in tg:
                for t in ast.walk(t0):
                    if isinstance(t, (ast.Attribute, ast.Subscript)) and isinstance(t.ctx, ast.Store):
                        root = t
                        while isinstance(root, (ast.Attribute, ast.Subscript)):
                            root = root.value
                        if is_name(root, 'self', 'cls') or is_name(root, 'Lexer'):
                            bad.append((n, f'store `{src(n)}`'))
            if isinstance(n, ast.Call) and isinstance(n.func, ast.Attribute) and n.func.attr in (
                    'append', 'extend', 'insert', 'pop', 'remove', 'clear', 'update', 'setdefault', 'sort', 'reverse', '__setitem__'):
                root = n.func.value
                while isinstance(root, (ast.Attribute, ast.Subscript)):
                    root = root.value
                if is_name(root, 'self', 'cls'):
                    bad.append((n, f'mutating call `{src(n)}`'))
            if isinstance(n, ast.Call) and is_name(n.func, 'setattr') and n.args and is_name(n.args[0], 'self', 'cls'):
                bad.append((n, f'`{src(n)}`'))
            if isinstance(n, ast.NamedExpr):
                pass
        if bad:
            for n, d in bad:
                ctx.ob(rid, f'{name}:{d}', _loc(f, n), f'Lexer.{name} does not write lexer state', False,
                       f'{d}: the shared default lexer is modified while tokenising (result depends on call history / races between threads)')
        else:
            ctx.ob(rid, f'{name}:readonly', _loc(f, f.node), f'Lexer.{name} does not write lexer state', True)
        # reads of self.<x> only of configuration attributes
        reads = sorted({n.attr for n in own_nodes(f.node) if isinstance(n, ast.Attribute) and is_name(n.value, 'self')
                        and isinstance(n.ctx, ast.Load)})
        ctx.info.setdefault('lexer_state_reads', {})[name] = reads


def check_initialisation(ctx, rid, T):
    """R20.6/R14.3: clear() resets both lists; default_initialization = clear(); set_SQL_REGEX(keywords.SQL_REGEX);
    add_keywords(every module-level KEYWORDS* dict)."""
    repo = ctx.repo
    f = repo.func(LEXER + '.clear')
    stores = {}
    for s in f.node.body:
        if isinstance(s, ast.Assign) and is_attr(s.targets[0], None, 'self'):
            stores[s.targets[0].attr] = s.value
    for a in ('_SQL_REGEX', '_keywords'):
        v = stores.get(a)
        ok = isinstance(v, ast.List) and not v.elts
        ctx.ob(rid, f'clear:{a}', _loc(f, f.node), f'clear() rebinds self.{a} to a fresh empty list', ok,
               f'self.{a} is not reset by clear(): default_initialization() after a reconfiguration keeps stale entries')
    # any other instance attribute the lexer stores must also be reset by clear() (stale caches)
    c = repo.cls(LEXER)
    other = {}
    for m in c.methods.values():
        for n in own_nodes(m.node):
            tg = n.targets if isinstance(n, ast.Assign) else [n.target] if isinstance(n, (ast.AugAssign, ast.AnnAssign)) else []
            for t in tg:
                if is_attr(t, None, 'self') and t.attr not in ('_SQL_REGEX', '_keywords'):
                    other.setdefault(t.attr, (m, n))
    for a, (m, n) in sorted(other.items()):
        ctx.ob(rid, f'clear:{a}', _loc(m, n), f'lexer instance state self.{a} is reset by clear()', a in stores,
               f'self.{a} (stored in {m.name}) survives clear()/default_initialization(): results depend on earlier configuration/calls')
    d = repo.func(LEXER + '.default_initialization')
    # Where the source does not have the shape the next obligations read, the question they stand for is put to the interpretation:
    # every sequence of up to two reconfiguration steps followed by default_initialization() gives the default lexer again (no list is
    # shared with something a configuration method changes in place), and the rule table it installs is keywords.SQL_REGEX.
    rr = reconfiguration_result(ctx)
    sim_ok = rr['status'] is True
    o_, _why = default_lexer(ctx)
    try:
        same_rules = o_ is not None and [m.rx.pattern for m, _ in o_._SQL_REGEX] == [r.pattern for r in T.lex]
    except AttributeError:
        same_rules = False
    by_sim = ' (shape differs; confirmed by interpreting the configuration methods, see the reconfiguration rule)'
    # the two rule/dictionary lists are private to the instance: every binding is a fresh list (add_keywords appends in place)
    for m in c.methods.values():
        for n in own_nodes(m.node):
            if isinstance(n, ast.Assign) and len(n.targets) == 1 and is_attr(n.targets[0], None, 'self') and n.targets[0].attr in ('_SQL_REGEX', '_keywords'):
                v = n.value
                fresh = isinstance(v, (ast.List, ast.ListComp)) or (isinstance(v, ast.Call) and is_name(v.func, 'list')) \
                    or (isinstance(v, ast.BinOp) and isinstance(v.op, ast.Add)) \
                    or (isinstance(v, ast.Subscript) and isinstance(v.slice, ast.Slice)) \
                    or (isinstance(v, ast.Call) and isinstance(v.func, ast.Attribute) and v.func.attr == 'copy')
                ctx.ob(rid, f'fresh:{m.name}:{n.targets[0].attr}', _loc(m, n), f'{m.name} binds self.{n.targets[0].attr} to a list of its own' + ('' if fresh else by_sim), fresh or sim_ok,
                       f'`{src(n)}` shares the object `{src(v)}` with its owner: add_keywords()/set_SQL_REGEX() later modify it in place, so a '
                       'customisation leaks into the module-level default and survives clear()/default_initialization() and new Lexer instances')
    calls = [m for m, _ in T.kw_calls]
    ok = bool(calls) and calls[0] == 'clear'
    ctx.ob(rid, 'default_initialization:starts-with-clear', _loc(d, d.node), 'default_initialization() starts with self.clear()' + ('' if ok else by_sim), ok or sim_ok,
           f'call sequence: {calls[:3]}...')
    ok = T.regex_source is not None and T.regex_source.endswith('SQL_REGEX')
    ctx.ob(rid, 'default_initialization:regex', _loc(d, d.node), 'default_initialization() installs keywords.SQL_REGEX' + ('' if ok else by_sim), ok or (sim_ok and same_rules),
           f'set_SQL_REGEX argument: {T.regex_source}')
    registered = {name.split('.')[-1] for name, _ in T.kw}
    for name in sorted(T.all_dicts):
        if name.startswith('KEYWORDS'):
            ctx.ob(rid, f'default_initialization:add:{name}', _loc(d, d.node), f'keywords.{name} is registered by default_initialization()',
                   name in registered, f'{name} ({len(T.all_dicts[name])} words) is never registered: its words lex as Name')


def check_whole_text(ctx, rid):
    """The lexer sees the whole input at once: a stream is read completely with one read() before the
    scan, get_tokens has a single scan loop over enumerate(text) and never lexes a chunk/line on its own
    (no recursive get_tokens/tokenize call, no per-line iteration), and FilterStack.run tokenizes its
    `sql` argument once.  Otherwise a multi-line literal/comment/keyword that straddles a chunk boundary
    is cut into unrelated tokens."""
    repo = ctx.repo
    f = repo.func(LEXER + '.get_tokens')
    textv = f.params[1]
    loc = _loc(f, f.node)
    reads = [n for n in own_nodes(f.node) if isinstance(n, ast.Call) and isinstance(n.func, ast.Attribute)
             and n.func.attr in ('read', 'readline', 'readlines') and is_name(n.func.value, textv)]
    ok = len(reads) == 1 and reads[0].func.attr == 'read' and not reads[0].args and not reads[0].keywords
    ctx.ob(rid, 'get_tokens:read-once', loc, 'a text stream is read completely by a single argument-less read()', ok,
           f'stream reads: {[src(r) for r in reads]}: the stream is lexed block-wise/line-wise, so a token that spans a block boundary '
           '(multi-line string, comment, dollar body, ORDER\\nBY) is cut in two')
    rec = [n for n in own_nodes(f.node) if isinstance(n, ast.Call) and ((isinstance(n.func, ast.Attribute) and n.func.attr in ('get_tokens',))
                                                                     or is_name(n.func, 'tokenize'))]
    ctx.ob(rid, 'get_tokens:no-chunked-recursion', loc, 'get_tokens does not lex pieces of the input separately', not rec,
           f'`{src(rec[0]) if rec else ""}`: part of the input is lexed on its own')
    loops = [s for s in f.node.body if isinstance(s, ast.For) and any(isinstance(y, (ast.Yield, ast.YieldFrom)) for y in ast.walk(s))]
    ctx.ob(rid, 'get_tokens:single-scan-loop', loc, 'there is exactly one top-level scanning loop', len(loops) == 1, f'{len(loops)} yielding loops')
    # FilterStack.run: tokenize(sql, ...) exactly once, not per line
    from . import rules_stack as RK
    m = ctx.shared('runmodel', lambda: RK.RunModel(ctx))
    toks = [n for n in own_nodes(m.f.node) if isinstance(n, ast.Call) and RK.resolves_to(ctx, m.f, n.func, 'sqlparse.lexer.tokenize')]
    ok = len(toks) == 1 and toks[0].args and is_name(toks[0].args[0], m.sqlp)
    in_comp = any(isinstance(p_, (ast.GeneratorExp, ast.ListComp, ast.For)) and any(x is toks[0] for x in ast.walk(p_)) and p_ is not m.f.node
                  for p_ in ast.walk(m.f.node) if isinstance(p_, (ast.GeneratorExp, ast.ListComp))) if toks else False
    ctx.ob(rid, 'run:tokenize-whole-input', _loc(m.f, m.f.node), 'FilterStack.run tokenizes its whole `sql` argument with one call', ok and not in_comp,
           f'tokenize calls: {[src(t) for t in toks]}: the input is lexed piecewise')


def decode_sites(ctx):
    """(function, text variable, encoding variable, call-site guard facts) for Lexer.get_tokens and for a private
    helper that get_tokens hands (text, encoding) to (e.g. `text = self._decode(text, encoding)`)."""
    from .cg import get_cg
    repo = ctx.repo
    cg = get_cg(ctx)
    f = repo.func(LEXER + '.get_tokens')
    textv, encv = f.params[1], (f.params[2] if len(f.params) > 2 else None)
    g = Guards(f.node)
    out = [(f, textv, encv, [])]
    for call, callees in cg.sites.get(f.qname, []):
        if len(call.args) >= 1 and is_name(call.args[0], textv):
            for cq in callees:
                h = repo.funcs[cq]
                if h.cls is not None and h.cls.qname == LEXER and h.name != 'get_tokens':
                    ps = [p for p in h.params if p not in ('self', 'cls')]
                    enc_arg = None
                    for i, a in enumerate(call.args):
                        if is_name(a, encv) and i < len(ps):
                            enc_arg = ps[i]
                    for k in call.keywords:
                        if is_name(k.value, encv):
                            enc_arg = k.arg
                    callers = [c for c, sites in cg.sites.items() for _, cs in sites if cq in cs]
                    if set(callers) <= {f.qname} and ps:
                        out.append((h, ps[0], enc_arg, [a for a in g.facts(call) if a[0] != '|']))
    return out


def is_decode_helper(ctx, h, datap):
    """every return of the helper is `<data>.decode(...)` (or the data itself)"""
    rets = [n for n in own_nodes(h.node) if isinstance(n, ast.Return)]
    return bool(rets) and all(r.value is not None and ((isinstance(r.value, ast.Call) and is_attr(r.value.func, 'decode', datap)) or is_name(r.value, datap))
                              for r in rets)


def check_regex_table_ownership(ctx, rid):
    """The compiled rule table of a lexer is exactly what set_SQL_REGEX compiled from its argument: the only
    writers of self._SQL_REGEX are clear() (fresh empty list) and set_SQL_REGEX (one store of the comprehension
    over its parameter); default_initialization passes keywords.SQL_REGEX.  Any other writer (insert/append/
    extend/item store, derived rules) means the table the checks analyse is not the table that lexes."""
    repo = ctx.repo
    c = repo.cls(LEXER)
    n = 0
    for m in c.methods.values():
        for x in own_nodes(m.node):
            site = None
            if isinstance(x, ast.Assign) and any(is_attr(t, '_SQL_REGEX', 'self') for t in x.targets):
                site = ('store', x)
            elif isinstance(x, (ast.Assign, ast.AugAssign, ast.Delete)):
                tg = x.targets if isinstance(x, (ast.Assign, ast.Delete)) else [x.target]
                if any(isinstance(t, ast.Subscript) and is_attr(t.value, '_SQL_REGEX', 'self') for t in tg) or \
                        (isinstance(x, ast.AugAssign) and is_attr(x.target, '_SQL_REGEX', 'self')):
                    site = ('item-store', x)
            elif isinstance(x, ast.Call) and isinstance(x.func, ast.Attribute) and is_attr(x.func.value, '_SQL_REGEX', 'self') \
                    and x.func.attr in ('insert', 'append', 'extend', 'pop', 'remove', 'sort', 'reverse', 'clear', '__setitem__'):
                site = ('mutation', x)
            if site is None:
                continue
            n += 1
            kind, node = site
            ok = False
            if kind == 'store' and m.name == 'clear':
                ok = isinstance(node.value, ast.List) and not node.value.elts
            elif kind == 'store' and m.name == 'set_SQL_REGEX':
                v = node.value
                ok = isinstance(v, ast.ListComp) and len(v.generators) == 1 and is_name(v.generators[0].iter, m.params[1]) and not v.generators[0].ifs
            how = ''
            if not ok and kind == 'store' and _default_table_is_the_analysed_one(ctx):
                # another way of writing it (a helper that compiles, a cached default): what default_initialization() installs is, rule for rule,
                # keywords.SQL_REGEX compiled with the lexer's flags, and a table given to set_SQL_REGEX comes back as given
                ok, how = True, ' (shape differs; the interpreted configuration methods install exactly the analysed table)'
            ctx.ob(rid, f'{m.name}:{kind}:{src(node)[:50]}', _loc(m, node),
                   'self._SQL_REGEX is written only by clear() and by the single store in set_SQL_REGEX' + how, ok,
                   f'`{src(node)[:90]}` in Lexer.{m.name} changes the compiled rule table behind the analysed SQL_REGEX: rules that no check has '
                   'seen (width, ambiguity, precedence, extents) take part in lexing')
    # other classes/functions writing the table of a lexer object
    for f in repo.funcs.values():
        if f.cls is c:
            continue
        for x in own_nodes(f.node):
            if isinstance(x, ast.Attribute) and x.attr == '_SQL_REGEX' and isinstance(x.ctx, ast.Store):
                n += 1
                ctx.ob(rid, f'{f.short}:external-store', _loc(f, x), 'no code outside Lexer writes _SQL_REGEX', False, f'`{src(x)}` in {f.short}')
    ctx.need(n >= 2, 'Lexer no longer stores self._SQL_REGEX in clear()/set_SQL_REGEX')


def _default_table_is_the_analysed_one(ctx):
    def build():
        import re as _re
        from . import miniev as ME
        from .tables import get_tables
        from .fold import TT
        T = get_tables(ctx)
        o, _ = default_lexer(ctx)
        if o is None or reconfiguration_result(ctx)['status'] is not True:
            return False
        got = getattr(o, '_SQL_REGEX', None)
        if not isinstance(got, list) or len(got) != len(T.lex):
            return False
        for (m, a), r in zip(got, T.lex):
            if not isinstance(m, ME.RxBound) or m.key() != (r.pattern, _re.IGNORECASE | _re.UNICODE, 'match') or repr(a) != repr(r.action):
                return False
        # a custom table handed to set_SQL_REGEX is installed as given
        L = ctx.repo.classes.get(LEXER)
        o2 = ME.Obj(_cls=L)
        ev = ME.Evaluator(ctx, L.mod, L)
        ev.effects = True
        try:
            ev._obj_method(o2, 'set_SQL_REGEX')([('zz+', TT(('Name',))), ('q', TT(('Keyword',)))])
        except (ME.Unsupported, ME.Unknown, ME.Crash):
            return False
        g2 = getattr(o2, '_SQL_REGEX', None)
        return isinstance(g2, list) and [(x.key() if isinstance(x, ME.RxBound) else None, repr(y)) for x, y in g2] == \
            [(('zz+', _re.IGNORECASE | _re.UNICODE, 'match'), repr(TT(('Name',)))), (('q', _re.IGNORECASE | _re.UNICODE, 'match'), repr(TT(('Keyword',))))]
    return ctx.shared('default_table_is_the_analysed_one', build)


def lexer_state(o):
    from . import miniev as ME
    return ([(m.key() if isinstance(m, ME.RxBound) else repr(m), repr(t)) for m, t in (getattr(o, '_SQL_REGEX', None) or [])],
            [id(d) if isinstance(d, dict) else repr(d) for d in (getattr(o, '_keywords', None) or [])])


def default_lexer(ctx):
    """A record standing for a Lexer instance after default_initialization(), obtained by interpreting that method (and
    clear / set_SQL_REGEX / add_keywords) -- or None with the reason when the source is not evaluable."""
    from . import miniev as ME

    def build():
        L = ctx.repo.classes.get(LEXER)
        o = ME.Obj(_cls=L)
        ev = ME.Evaluator(ctx, L.mod, L)
        ev.effects = True
        try:
            ev._obj_method(o, 'default_initialization')()
        except (ME.Unsupported, ME.Unknown, ME.Crash) as e:
            return None, str(e)
        return o, ''
    return ctx.shared('default_lexer', build)


def _reconfiguration(ctx):
    """`lexer reconfiguration followed by default_initialization()` must leave the lexer exactly as a fresh default one: the
    configuration methods are interpreted on a Lexer record in every order of up to two reconfiguration steps, then
    default_initialization(), and the rule table and the keyword dictionaries are compared with those of a fresh instance."""
    from . import miniev as ME
    from .fold import TT
    import itertools
    L = ctx.repo.classes.get(LEXER)
    f = ctx.repo.func(LEXER + '.default_initialization')
    loc = f'{f.mod.relpath}:{f.node.lineno}'
    base, why = default_lexer(ctx)
    if base is None:
        return {'status': None, 'why': why, 'loc': loc}
    s0 = lexer_state(base)
    ctx.need(len(s0[0]) >= 20 and len(s0[1]) >= 2, f'default lexer has {len(s0[0])} rules / {len(s0[1])} dictionaries after interpretation')
    steps = {'add_keywords': lambda: ({'ZZTOP': TT(('Keyword',))},), 'clear': lambda: (), 'set_SQL_REGEX': lambda: ([('zz', TT(('Name',)))],)}
    bad = []
    n = 0
    for k in (1, 2):
        for seq in itertools.product(sorted(steps), repeat=k):
            o = ME.Obj(_cls=L)
            ev = ME.Evaluator(ctx, L.mod, L)
            ev.effects = True
            try:
                ev._obj_method(o, 'default_initialization')()
                for name in seq:
                    ev._obj_method(o, name)(*steps[name]())
                ev._obj_method(o, 'default_initialization')()
            except (ME.Unsupported, ME.Unknown) as e:
                return {'status': None, 'why': f'{seq}: {e}', 'loc': loc}
            except ME.Crash as e:
                bad.append(f'{" -> ".join(seq)} -> default_initialization(): {e}')
                continue
            n += 1
            s1 = lexer_state(o)
            if s1 != s0:
                what = []
                if s1[0] != s0[0]:
                    what.append(f'{len(s1[0])} rules instead of {len(s0[0])}' if len(s1[0]) != len(s0[0]) else 'rule table differs')
                if s1[1] != s0[1]:
                    what.append(f'{len(s1[1])} keyword dictionaries instead of {len(s0[1])}' if len(s1[1]) != len(s0[1]) else 'keyword dictionaries differ')
                bad.append(f'{" -> ".join(seq)} -> default_initialization(): {", ".join(what)}')
    return {'status': not bad, 'bad': bad, 'n': n, 'loc': loc}


def reconfiguration_result(ctx):
    return ctx.shared('reconfiguration_result', lambda: _reconfiguration(ctx))


def check_reconfiguration(ctx, rid):
    r = reconfiguration_result(ctx)
    if r['status'] is None:
        ctx.ob(rid, 'reconfiguration:simulation', r['loc'], 'the lexer configuration methods are evaluable', None, r['why'])
        return
    bad, n = r['bad'], r['n']
    ctx.ob(rid, 'reconfiguration:simulation', r['loc'],
           f'after any reconfiguration ({n} sequences of add_keywords / clear / set_SQL_REGEX) default_initialization() restores exactly the default rule table and dictionaries',
           not bad, f'{len(bad)} sequence(s) leave a different lexer, e.g. {bad[:2]}: every later parse/split/format in the process depends on that earlier call')


SCAN_ATOMS = ['a', 'desc', 'select', 'go', '1', ' ', '\n', '\t', '\xa0', ' ', '.', '=', '<', '(', ')', ',', ';', "'", '"', '`', '*', '/', '-', '+',
              '$', '#', ':', '::', '--', '/*', '*/', '**/', '\\', 'é', '\x00', '[', ']', '%s', '?', '@', '{']


def scan_texts(tier='quick'):
    import itertools
    texts = [''] + list(SCAN_ATOMS)
    texts += [a + b for a, b in itertools.product(SCAN_ATOMS, repeat=2)]
    # a few longer shapes: regions, multi-word keywords, names after a period, placeholders, dollar quoting
    texts += ["'a''b' c", '"a""b".c', '/* c **/ x', '/***/x', '/* a */ /*+ h */', '-- c\nx', '--+ h\nx', '# c\nx', 'order  by', 'order\nby x', 'end\tif;',
              'union all', 't.desc', 't.join x', 't . key', 'a.b.c', 'x::int', 'a := 1', '$a$ x $a$', '$$x$$;', '$1', ':name', '%(n)s', '1.5e3', '0xFF',
              'select(1)', 'f (x)', 'a=b', 'a==b', 'a<=b', 'a!=', 'x=', '= x', 'a =~ b', 'case when', 'left outer join', 'go 2', 'GO\n', 'create or replace',
              "at time zone 'utc'", 'x\xa0y', 'x　y', ';\xa0', 'é.ü', '[a b]', 'a[1]', 'a -- c', 'a #c', 'a # c', '1--2', "'unterminated", '"unterminated',
              '/* unterminated', 'a\r\nb', '﻿select']
    if tier == 'thorough':
        core = ['a', 'desc', '1', ' ', '\n', '\xa0', '.', '=', '(', "'", '*', '/', '-', '$', '--', '/*', '*/']
        texts += [a + b + c for a, b, c in itertools.product(core, repeat=3)]
    seen, out = set(), []
    for t in texts:
        if t not in seen:
            seen.add(t)
            out.append(t)
    return out


def check_scan_semantics(ctx, rid, table_agreement=True):
    """The rule modules reason about the lexer through its tables: `first row of SQL_REGEX that matches at the position wins, a
    PROCESS_AS_KEYWORD match is typed by the first dictionary that lists its upper-cased text, otherwise one Error character`.
    Whether Lexer.get_tokens really does that -- whatever fast paths, reduced tables or look-aheads it has grown -- is decided
    here by interpreting get_tokens (with the rule table and dictionaries default_initialization() installs, also interpreted)
    on ~1800 short texts and comparing token by token with that table model.  A crash counts: tokenizing never fails."""
    from . import miniev as ME
    from .tables import get_tables
    T = get_tables(ctx)
    f = ctx.repo.func(LEXER + '.get_tokens')
    L = ctx.repo.classes.get(LEXER)
    loc = f'{f.mod.relpath}:{f.node.lineno}'
    lx, why = default_lexer(ctx)
    if lx is None:
        ctx.ob(rid, 'scan:simulation', loc, 'the lexer is evaluable', None, why)
        return
    texts = scan_texts(ctx.tier)
    bad = {}
    n = 0
    for text in texts:
        ev = ME.Evaluator(ctx, f.mod, L)
        ev.effects = True
        out = []
        ev.on_yield = out.append
        env = {f.params[0]: lx, f.params[1]: text}
        for p_, d_ in zip(f.params[len(f.params) - len(f.node.args.defaults):], f.node.args.defaults):
            env[p_] = ev.ev(d_, {})
        try:
            ME.run_function(ev, f.node, env, max_steps=20000)
        except (ME.Unsupported, ME.Unknown) as e:
            ctx.ob(rid, 'scan:simulation', loc, 'Lexer.get_tokens is evaluable on short texts', None, f'{text!r}: {e}')
            return
        except ME.Crash as e:
            bad.setdefault('tokenizing fails', []).append(f'{text!r}: {e}')
            continue
        n += 1
        want = [(tt, v) for tt, v, _ in T.lex_all(text)]
        got = [(a, b) for a, b in out] if all(isinstance(x, tuple) and len(x) == 2 for x in out) else out
        if got != want:
            i = next((k for k, (x, y) in enumerate(zip(got, want)) if x != y), min(len(got), len(want)))
            g_, w_ = (got[i] if i < len(got) else None), (want[i] if i < len(want) else None)
            kind = 'the tokens do not add up to the text' if ''.join(v for _, v in got if isinstance(v, str)) != text else 'a token differs from what the rule table gives'
            bad.setdefault(kind, []).append(f'{text!r}: token #{i} is {g_!r}, the table gives {w_!r}')
    ctx.info['scan_semantics_texts'] = n
    if not bad:
        ctx.ob(rid, 'scan:simulation', loc, f'Lexer.get_tokens applies the rule table as the table model says: first matching row wins, keywords by dictionary order, '
               f'Error character otherwise ({n} short texts interpreted)', True)
    for kind, items in sorted(bad.items()):
        if kind.startswith('a token differs') and not table_agreement:
            # lossless all the same: not this property's business (the properties that read the tables include the agreement)
            ctx.note(f'{rid}: Lexer.get_tokens departs from the rule-table model on {len(items)} short text(s), e.g. {items[0]} (the token values still add up)')
            ctx.ob(rid, 'scan:simulation', loc, f'Lexer.get_tokens is total and lossless on {n} short texts', True)
            continue
        ctx.ob(rid, f'scan:{kind}', loc, f'Lexer.get_tokens agrees with the table model on {len(texts)} short texts', False,
               f'{len(items)} text(s): {kind}, e.g. {items[:3]}')


def check_who_reconfigures(ctx, rid, entries):
    """The default lexer is process-wide.  Its configuration methods (add_keywords, clear, set_SQL_REGEX, default_initialization and
    any other Lexer method that stores to self) may be called by user code -- that is the documented extension point -- but never
    by the library's own request path: a call of parse/split/format/the command line that reconfigures the shared lexer changes
    the result of every later call in the process."""
    from .cg import get_cg
    repo = ctx.repo
    cg = get_cg(ctx)
    L = repo.classes.get(LEXER)
    ctx.need(L is not None, 'Lexer class not found')
    config = set()
    for m in L.methods.values():
        if m.name in ('__init__', 'get_default_instance'):
            continue
        stores = any(isinstance(t, (ast.Attribute, ast.Subscript)) and isinstance(t.ctx, ast.Store) and is_name(_root(t), 'self')
                     for n in own_nodes(m.node) if isinstance(n, (ast.Assign, ast.AugAssign)) for t0 in (n.targets if isinstance(n, ast.Assign) else [n.target])
                     for t in ast.walk(t0))
        mutates = any(isinstance(n, ast.Call) and isinstance(n.func, ast.Attribute) and n.func.attr in ('append', 'extend', 'insert', 'pop', 'remove', 'clear', 'update')
                      and is_name(_root(n.func.value), 'self') for n in own_nodes(m.node))
        calls_config = False
        if stores or mutates:
            config.add(m.qname)
    # transitive: a method that calls a configuration method on self
    changed = True
    while changed:
        changed = False
        for m in L.methods.values():
            if m.qname in config or m.name in ('__init__', 'get_default_instance'):
                continue
            if any(c in config for c in cg.edges.get(m.qname, ())):
                config.add(m.qname)
                changed = True
    ctx.info['lexer_configuration_methods'] = sorted(q.rsplit('.', 1)[1] for q in config)
    allowed_caller = f'{LEXER}.get_default_instance'
    reach = set()
    for q in entries:
        reach |= cg.reachable([q])
    n = 0
    for q in sorted(reach):
        if q == allowed_caller or q in config:
            continue
        f = repo.funcs.get(q)
        if f is None:
            continue
        for call, callees in cg.sites.get(q, []):
            hit = [c for c in callees if (c if isinstance(c, str) else getattr(c, 'qname', None)) in config]
            # also by name: <anything>.add_keywords(...) on an object obtained from get_default_instance()
            byname = isinstance(call.func, ast.Attribute) and call.func.attr in {x.rsplit('.', 1)[1] for x in config} and 'get_default_instance' in src(call.func.value)
            if hit or byname:
                n += 1
                ctx.ob(rid, f'reconfigures:{f.short}:{src(call)[:60]}', f'{f.mod.relpath}:{call.lineno}',
                       'the request path does not reconfigure the process-wide lexer', False,
                       f'`{src(call)[:80]}` in {f.short} (reachable from the entry points) changes the rule table / keyword dictionaries of the shared default '
                       f'lexer and never restores them: every later parse/split/format in the process lexes differently')
    ctx.ob(rid, 'reconfigures:inventory', 'sqlparse/lexer.py', f'{len(config)} configuration methods of Lexer; {len(reach)} functions reachable from the entry points examined, '
           f'{n} call(s) found', True)


def _root(e):
    while isinstance(e, (ast.Attribute, ast.Subscript, ast.Call)):
        e = e.func if isinstance(e, ast.Call) else e.value
    return e
