"""Region extents (R14.1/R14.2, shared with C05): for every region kind and every
body over the full alphabet, the rule that wins at the opener is of the expected
type family and its leftmost-first match ends exactly at the terminator."""
import re
import re._constants as sc

from . import rx
from .fold import TT
from .tables import get_tables

STR_SINGLE = TT(('Literal', 'String', 'Single'))
STR_SYMBOL = TT(('Literal', 'String', 'Symbol'))
NAME = TT(('Name',))
LITERAL = TT(('Literal',))
C_MULTI = TT(('Comment', 'Multiline'))
C_MULTI_HINT = TT(('Comment', 'Multiline', 'Hint'))
C_SINGLE = TT(('Comment', 'Single'))
C_SINGLE_HINT = TT(('Comment', 'Single', 'Hint'))

BLOCK_BODY = r'([^*]|\*+[^*/])*\*+/'


def region_table(tier):
    R = []
    R.append(dict(id='single-quoted string', spec=r"'([^'\\]|'')*'", bad_right=r"'", exact=STR_SINGLE))
    R.append(dict(id='double-quoted name', spec=r'"([^"\\]|"")*"', bad_right=r'"', exact=STR_SYMBOL))
    R.append(dict(id='backtick name', spec=r'`([^`]|``)*`', bad_right=r'`', exact=NAME))
    R.append(dict(id='block comment', spec=r'/\*(\*+/|([^*+]|\*+[^*/])' + BLOCK_BODY + ')', exact=C_MULTI))
    R.append(dict(id='block comment hint', spec=r'/\*\+' + BLOCK_BODY, exact=C_MULTI_HINT))
    for op, opname in (('--', 'dash'), ('# ', 'hash')):
        for hint in (False, True):
            body0 = r'\+' if hint else r'([^+\r\n][^\r\n]*)?'
            body = (r'\+[^\r\n]*' if hint else r'([^+\r\n][^\r\n]*)?')
            fam = C_SINGLE_HINT if hint else C_SINGLE
            nm = f'{opname} line comment' + (' hint' if hint else '')
            R.append(dict(id=nm + ' ended by \\n or \\r\\n', spec=re.escape(op) + body + r'(\r\n|\n)', exact=fam))
            R.append(dict(id=nm + ' ended by \\r', spec=re.escape(op) + body + r'\r', bad_right='\n', exact=fam))
            R.append(dict(id=nm + ' ended by end of text', spec=re.escape(op) + body, exact=fam, only_end=True))
    tags = ['', 'a', '_t1'] if tier == 'quick' else ['', 'a', 'B', '_t1', 'É', 'ab', 'a1', '_', 'tag_2', 'Z9_']
    for t in tags:
        R.append(dict(id=f'dollar-quoted body ${t}$', dollar=t, exact=LITERAL))
    return R


def dfa_only_suffix(term, atoms):
    """DFA of words that contain `term` only as a suffix:  Sigma* term  minus  Sigma* term Sigma+"""
    any_ = r'[\s\S]*'
    a = rx.DFA.from_pattern(any_ + re.escape(term), atoms)
    b = rx.DFA.from_pattern(any_ + re.escape(term) + r'[\s\S]+', atoms)
    return a.minus(b)


def first_char_set(spec_pattern):
    fs, nullable = rx.first_set(rx.parse(spec_pattern, re.UNICODE), re.UNICODE)
    return fs


def check_regions(ctx, rid, quick=True):
    T = get_tables(ctx)
    tier = 'quick' if quick else ctx.tier
    nstates = 0
    for reg in region_table(tier):
        nstates += check_one_region(ctx, rid, T, reg)
    ctx.info['extent_product_states'] = ctx.info.get('extent_product_states', 0) + nstates


def _expected_rule(T, reg, opener_first):
    for r in T.lex:
        if isinstance(r.action, TT) and tuple(r.action) == tuple(reg['exact']):
            fs, _ = rx.first_set(r.tree)
            if fs & opener_first:
                return r
    return None


def check_one_region(ctx, rid, T, reg):
    kwloc = T.kwmod.relpath
    rid_key = f'region:{reg["id"]}'
    n_total = 0
    if 'dollar' in reg:
        tag = reg['dollar']
        opener = f'${tag}$'
        opener_first = rx.bit('$')
    else:
        opener_first = first_char_set(reg['spec'])
    E = _expected_rule(T, reg, opener_first)
    if E is None:
        ctx.ob(rid, rid_key + ':rule', kwloc, f'a rule typed {reg["exact"]!r} starts at the opener of a {reg["id"]}', False,
               f'no rule of SQL_REGEX with action {reg["exact"]!r} can start with the opener: the region is not lexed as one token of that type')
        return 0
    loc = f'{kwloc}:{E.line}'
    # --- build rule program / spec
    try:
        if 'dollar' in reg:
            tag = reg['dollar']
            # the tag must be in the language of the tag pattern and the look-behind must hold in the left contexts
            tree = E.tree
            grp = next((av for op, av in tree if op is sc.SUBPATTERN and av[0] == 1), None)
            if grp is None:
                ctx.ob(rid, rid_key + ':shape', loc, 'dollar rule has the shape (tag)[body]\\1', None, 'group 1 not found')
                return 0
            lb = [(op, av) for op, av in grp[3] if op is sc.ASSERT_NOT and av[0] < 0]
            tagseq = [(op, av) for op, av in grp[3] if not (op in (sc.ASSERT, sc.ASSERT_NOT))]
            tagprog = rx.Prog(None, rx.LEXFLAGS, tree=_mk(tagseq, tree))
            lit = [(sc.LITERAL, ord(c)) for c in f'${tag}$']
            # tag accepted by the opener pattern?
            atoms0 = rx.atoms_of(tagprog.charsets() + [rx.bit(c) for c in f'${tag}$'])
            okt = _accepts(tagprog, f'${tag}$')
            ctx.ob(rid, rid_key + ':tag', loc, f'the opener pattern accepts the tag {opener!r}', okt, 'tag not matched by the opener pattern')
            if not okt:
                return 0
            # left contexts: start, whitespace, ( , = : none may satisfy the look-behind class
            for (op, av) in lb:
                cls = 0
                for o2, a2 in av[1]:
                    if o2 in rx.CHAR_OPS:
                        cls |= rx.charset(o2, a2, rx.LEXFLAGS)
                left = rx.cls(r'\s') | rx.bits_of('(,=')
                ctx.ob(rid, rid_key + ':left-context', loc, 'the look-behind of the dollar rule holds after whitespace, "(", "," and "="',
                       not (cls & left), f'look-behind class excludes {rx.chars_of(cls & left, 5)}')
            rule_prog = rx.Prog(None, rx.LEXFLAGS, tree=E.tree, group_subst={1: lit}, drop_lookbehind=True)
            # spec: $t$ B $t$ with B.$t$ containing $t$ only as suffix
            atoms = rx.atoms_of(rule_prog.charsets() + [rx.bit(c) for c in f'${tag}$'] + [rx.bit('\n')])
            tail = dfa_only_suffix(f'${tag}$', atoms)
            spec = _concat_literal_dfa(f'${tag}$', tail, atoms)
            right_ok, allow_end = rx.ALL, True
        else:
            rule_prog = rx.Prog(E.pattern, rx.LEXFLAGS)
            specprog = rx.Prog(reg['spec'], re.UNICODE)
            bad = rx.cls(reg['bad_right'], re.UNICODE) if reg.get('bad_right') else 0
            atoms = rx.atoms_of(rule_prog.charsets() + specprog.charsets() + [bad, rx.bit('\n'), rx.bit('\r')])
            spec = rx.DFA.from_pattern(reg['spec'], atoms, re.UNICODE)
            right_ok = 0 if reg.get('only_end') else (rx.ALL & ~bad)
            allow_end = True
    except rx.Unsupported as e:
        ctx.ob(rid, rid_key + ':analysable', loc, f'rule #{E.index} {E.pattern!r} analysable by the extent automaton', None, str(e))
        return 0
    # --- precedence: earlier rules that can start at the opener must never match on words of the spec
    for r in T.lex:
        if r.index >= E.index:
            break
        fs, _ = rx.first_set(r.tree)
        if not (fs & opener_first):
            continue
        try:
            rp = rx.Prog(r.pattern, rx.LEXFLAGS, drop_lookbehind=True)
            atoms2 = rx.atoms_of([a for a in atoms] + rp.charsets())
            if 'dollar' in reg:
                tail2 = dfa_only_suffix(f'${reg["dollar"]}$', atoms2)
                spec2 = _concat_literal_dfa(f'${reg["dollar"]}$', tail2, atoms2)
            else:
                spec2 = rx.DFA.from_pattern(reg['spec'], atoms2, re.UNICODE)
            viol, n = rx.check_never_matches(rp, spec2, atoms2, right_ok, allow_end)
            n_total += n
        except rx.Unsupported as e:
            if 'dollar' in reg:
                ctx.ob(rid, rid_key + f':earlier:{r.pattern}', f'{kwloc}:{r.line}', 'earlier rule analysable', None, str(e))
                continue
            nw, bv = bounded_region(T, reg)
            ctx.ob(rid, rid_key + f':earlier:{rx.canon_pattern(r.pattern)}', f'{kwloc}:{r.line}',
                   f'rule #{r.index} {r.pattern!r} (before the {reg["id"]} rule; not analysable as an automaton: {e}) never takes a {reg["id"]}: '
                   f'{nw} lexemes up to 5 characters in 8 right contexts lexed with the whole table', not bv,
                   (f'{bv[0][0]!r} is lexed as {bv[0][1]!r} typed {bv[0][2]} by rule {bv[0][3]!r}' if bv else '') + f': the region is not one {reg["exact"]!r} token that ends at its terminator')
            continue
        ctx.ob(rid, rid_key + f':earlier:{r.pattern}', f'{kwloc}:{r.line}',
               f'rule #{r.index} {r.pattern!r} (before the {reg["id"]} rule) never matches at the opener of a {reg["id"]}', not viol,
               (f'it matches on {viol[0][1]!r}' if viol else '') + f': that rule, typed {r.action_src}, wins over rule #{E.index} and the region is not one {reg["exact"]!r} token')
    # --- extent
    try:
        viol, n = rx.check_extent(rule_prog, spec, atoms, right_ok=right_ok, allow_end=allow_end)
        n_total += n
    except rx.Unsupported as e:
        if 'dollar' in reg:
            ctx.ob(rid, rid_key + ':extent', loc, 'extent decidable', None, str(e))
            return n_total
        nw, bv = bounded_region(T, reg)
        ctx.ob(rid, rid_key + ':extent', loc,
               f'rule #{E.index} {E.pattern!r} (not analysable as an automaton: {e}): {nw} {reg["id"]} lexemes up to 5 characters in 8 right contexts, lexed with the whole '
               'table, are one token that ends at the terminator', not bv,
               (f'{bv[0][0]!r} is lexed as {bv[0][1]!r} typed {bv[0][2]} by rule {bv[0][3]!r}' if bv else ''))
        return n_total
    ctx.ob(rid, rid_key + ':extent', loc,
           f'for every {reg["id"]} lexeme and every right context the match of rule #{E.index} {E.pattern!r} ends exactly at the terminator '
           f'({n} product states)', not viol,
           (f'{viol[0][0]} on the word {viol[0][1]!r}' if viol else '') + ': the body is cut short or runs past its terminator, so its contents '
           '(";" included) reach the splitter as separate tokens / swallow following text')
    return n_total


def bounded_region(T, reg, maxlen=5):
    """Fallback when a rule cannot be put into the extent automaton (look-around in a region rule): every lexeme of the region's
    specification up to `maxlen` characters over a small alphabet, in a handful of right contexts (among them another lexeme of
    the same kind), is lexed with the whole table (first matching row wins); it must come out as one token of the expected type
    that ends at its terminator.  -> (number of lexemes, violations)"""
    import itertools
    spec = re.compile(reg['spec'], re.UNICODE)
    first = {c for c in "'\"`/-#$" if spec.match(c + c + c + c) or spec.match(c + 'a' + c) or spec.match(c + '*a*' + c[::-1]) or spec.match(c + c) or c in reg['spec'][:4]}
    alpha = sorted(first | set("a ;\n'\"*/-\\"))
    bad_right = re.compile(reg['bad_right'], re.UNICODE) if reg.get('bad_right') else None
    words = []
    for n_ in range(1, maxlen + 1):
        for p in itertools.product(alpha, repeat=n_):
            w = ''.join(p)
            if spec.fullmatch(w):
                words.append(w)
    viol = []
    sample = words[:4] + words[-4:]
    for w in words:
        suffixes = [''] if reg.get('only_end') else ['', ' x', ';', ')', '\n', ', ' + w] + [', ' + v for v in sample[:3]]
        for sfx in suffixes:
            if sfx and bad_right is not None and bad_right.match(sfx):
                continue
            r, end, tt = T.lex_one(w + sfx, 0)
            if not (end == len(w) and isinstance(tt, TT) and tuple(tt) == tuple(reg['exact'])):
                viol.append((w + sfx, (w + sfx)[:end], repr(tt), r.pattern if r is not None else None))
                break
        if len(viol) >= 20:
            break
    return len(words), viol


def _mk(seq, like):
    import re._parser as sp
    p = sp.SubPattern(like.state, list(seq))
    return p


def _accepts(prog, word):
    ex = rx.Extent(rx.Prog(None, prog.flags, tree=prog.tree, drop_lookbehind=True)) if prog.has('look') else rx.Extent(prog)
    raw, prevw = (0,), False
    W = rx.word_set()
    for i, ch in enumerate(word):
        b = rx.bit(ch)
        lst = ex.closure(raw, prevw, bool(b & W), False, False, i == 0)
        raw = tuple(pc + 1 for pc in lst if ex.ins[pc][0] == 'char' and ex.ins[pc][1] & b)
        prevw = bool(b & W)
        if not raw:
            return False
    m, _ = ex.cut(ex.closure(raw, prevw, False, True, True, False))
    return m


def _concat_literal_dfa(lit, tail, atoms):
    """DFA for  lit . L(tail)"""
    n = len(tail.delta)
    dead = n + len(lit)
    delta = [list(row) for row in tail.delta]
    for i, ch in enumerate(lit):
        row = []
        b = rx.bit(ch)
        for a in atoms:
            if a & b and a == b or (a & b and (a & ~b) == 0):
                row.append(n + i + 1 if i + 1 < len(lit) else tail.start)
            elif a & b:
                # atom not fine enough
                raise rx.Unsupported('atoms do not separate the tag characters')
            else:
                row.append(dead)
        delta.append(row)
    delta.append([dead] * len(atoms))
    return rx.DFA(atoms, delta, n, set(tail.accept))


# ---------------------------------------------------------------------------
# R14.6 quoted sub-pattern agreement

QUOTES = {"'": ('single-quoted string', STR_SINGLE), '"': ('double-quoted name', STR_SYMBOL), '`': ('backtick name', NAME)}


def quoted_subpatterns(tree):
    """(quote char, [LITERAL q, REPEAT(body), LITERAL q] sub-sequence) found anywhere in the tree"""
    out = []

    def rec(seq):
        items = list(seq)
        for i in range(len(items) - 2):
            (o1, a1), (o2, a2), (o3, a3) = items[i], items[i + 1], items[i + 2]
            if o1 is sc.LITERAL and o3 is sc.LITERAL and a1 == a3 and chr(a1) in QUOTES and o2 in (sc.MAX_REPEAT, sc.MIN_REPEAT):
                out.append((chr(a1), items[i:i + 3], len(items) == 3))
        for op, av in items:
            if op is sc.BRANCH:
                for a in av[1]:
                    rec(a)
            elif op is sc.SUBPATTERN:
                rec(av[3])
            elif op in (sc.MAX_REPEAT, sc.MIN_REPEAT):
                rec(av[2])
    rec(tree)
    return out


def check_quote_agreement(ctx, rid):
    """every rule that embeds a quoted region q body q agrees with the dedicated rule of that quote kind:
    same language, and the same leftmost-first extents on the specification language."""
    T = get_tables(ctx)
    kwloc = T.kwmod.relpath
    ref = {}
    for q, (name, tt) in QUOTES.items():
        for r in T.lex:
            if isinstance(r.action, TT) and tuple(r.action) == tuple(tt):
                subs = [s for s in quoted_subpatterns(r.tree) if s[0] == q and s[2]]
                if subs:
                    ref[q] = (r, subs[0][1])
                    break
    n = 0
    for r in T.lex:
        for q, seq, whole in quoted_subpatterns(r.tree):
            if q not in ref or ref[q][0] is r:
                continue
            n += 1
            R, rseq = ref[q]
            loc = f'{kwloc}:{r.line}'
            key = f'quoted:{q}:{rx.canon_pattern(r.pattern)}'
            try:
                p1 = rx.Prog(None, rx.LEXFLAGS, tree=_mk(seq, r.tree))
                p2 = rx.Prog(None, rx.LEXFLAGS, tree=_mk(rseq, R.tree))
                atoms = rx.atoms_of(p1.charsets() + p2.charsets())
                d1 = _dfa_of_prog(p1, atoms)
                d2 = _dfa_of_prog(p2, atoms)
                w1 = d1.minus(d2).witness()
                w2 = d2.minus(d1).witness()
            except rx.Unsupported as e:
                ctx.ob(rid, key, loc, 'embedded quoted region analysable', None, str(e))
                continue
            ok = w1 is None and w2 is None
            ctx.ob(rid, key, loc,
                   f'the {QUOTES[q][0]} embedded in rule #{r.index} {r.pattern!r} has the same lexeme language as the dedicated rule #{R.index}', ok,
                   f'languages differ: {w1!r} only in rule #{r.index}, {w2!r} only in rule #{R.index} {R.pattern!r}: a literal ends at a different place '
                   f'when it is lexed through rule #{r.index} (escapes / doubled quotes handled differently)')
    ctx.info['embedded_quoted_regions'] = n
    if n == 0:
        ctx.ob(rid, 'quoted:none', kwloc, 'no rule other than the dedicated ones embeds a quoted region', True)


def _dfa_of_prog(prog, atoms):
    ins = prog.ins

    def clo(pcs):
        out, seen, st = set(), set(), list(pcs)
        while st:
            pc = st.pop()
            if pc in seen:
                continue
            seen.add(pc)
            i = ins[pc]
            if i[0] == 'split':
                st += [i[1], i[2]]
            elif i[0] == 'jmp':
                st.append(i[1])
            elif i[0] in ('at', 'look'):
                st.append(pc + 1)
            else:
                out.add(pc)
        return frozenset(out)
    start = clo([0])
    ids = {start: 0}
    delta, accept, work = [], set(), [start]
    while work:
        s = work.pop()
        while len(delta) <= ids[s]:
            delta.append(None)
        if any(ins[pc][0] == 'match' for pc in s):
            accept.add(ids[s])
        row = []
        for a in atoms:
            t = clo([pc + 1 for pc in s if ins[pc][0] == 'char' and ins[pc][1] & a])
            if t not in ids:
                ids[t] = len(ids)
                work.append(t)
            row.append(ids[t])
        delta[ids[s]] = row
    return rx.DFA(atoms, delta, 0, accept)


# ---------------------------------------------------------------------------
# left contexts: no other rule may consume the opener of a region that begins after the rule's own start

OPENERS = [
    ('dash line comment', '--', ' x; y\n', ('Comment', 'Single')),
    ('block comment', '/*', ' x; y */', ('Comment', 'Multiline')),
    ('single-quoted string', "'", "x; y'", ('Literal', 'String', 'Single')),
    ('double-quoted name', '"', 'x; y"', ('Literal', 'String', 'Symbol')),
    ('backtick name', '`', 'x; y`', ('Name',)),
]
REGION_TYPES = (('Comment',), ('Literal', 'String'), ('Literal',))


def _words(dfa, limit):
    """accepted words in order of length (breadth first over the DFA, one representative character per atom)"""
    live = dfa.live_states()
    if dfa.start not in live:
        return
    work = [(dfa.start, '')]
    n = 0
    depth = 0
    while work and n < limit and depth < 8:
        nxt = []
        for s_, w in work:
            if s_ in dfa.accept and w:
                n += 1
                yield w
                if n >= limit:
                    return
            for k, t in enumerate(dfa.delta[s_]):
                if t in live:
                    nxt.append((t, w + rx.rep(dfa.atoms[k])))
        # keep the frontier small: one word per state and length is enough to reach every shape
        seen, work = set(), []
        for t, w in nxt:
            if (t, w[:2], w[-2:]) not in seen:
                seen.add((t, w[:2], w[-2:]))
                work.append((t, w))
        depth += 1


def check_opener_left_contexts(ctx, rid):
    """The region rules decide the extent of a comment/literal once the lexer *starts* a token at its opener (R14.1).  This rule
    closes the other half: for every rule R that is not itself a region rule, L(R) and the words `u o z` (u non-empty, o an
    opener) are intersected as automata; a non-empty intersection is a candidate left context, confirmed by lexing the witness
    followed by a region body with the table (regex constants on a string constant).  If the token boundary does not fall in
    front of the opener, the body -- semicolons, keywords, quotes -- is lexed as ordinary SQL."""
    T = get_tables(ctx)
    import re as _re
    n = 0
    for r in T.lex:
        act = tuple(r.action) if isinstance(r.action, TT) else ()
        if any(act[:len(t)] == t for t in REGION_TYPES) or r.pattern[:1] in ('`', '´', '"', "'"):
            continue
        try:
            prog = rx.Prog(None, rx.LEXFLAGS, tree=r.tree)
        except rx.Unsupported as e:
            ctx.ob(rid, f'left:{r.index}', f'{T.kwmod.relpath}:{r.line}', 'rule compilable to an automaton', None, str(e))
            continue
        for name, op, body, fam in OPENERS:
            atoms = rx.atoms_of(prog.charsets() + [rx.bit(c) for c in op])
            d = _dfa_of_prog(prog, atoms)
            # words of L(R) that end with a non-empty prefix of the opener (the rule has eaten into the opener) or contain it entirely
            alts = '|'.join(_re.escape(op[:i]) for i in range(len(op), 0, -1))
            pat = r'[\s\S]+(?:' + _re.escape(op) + r'[\s\S]*|' + alts + ')'
            inter = d.intersect(rx.DFA.from_pattern(pat, atoms))
            n += 1
            key = f'left:{name}:rule{r.index}'
            loc = f'{T.kwmod.relpath}:{r.line}'
            # a rule that spells the opener out as a literal matches that text on purpose (embedded literals: R14.6)
            outside = _re.sub(r'\\.|\[(?:\\.|[^\]])*\]', '', r.pattern)
            if op.strip() in outside and not op.strip().isalnum():
                ctx.ob(rid, key, loc, f'rule #{r.index} spells {op!r} out itself (embedded delimiter, see the quote-agreement rule)', True)
                continue
            # candidate left contexts: shortest words of the intersection for which the table really selects rule r at position 0
            w = None
            for cand in _words(inter, 400):
                # complete the opener behind the candidate
                if op in cand[1:]:
                    k0 = cand.rfind(op)
                else:
                    plen = max(i for i in range(1, len(op) + 1) if cand.endswith(op[:i]))
                    k0 = len(cand) - plen
                    cand = cand + op[plen:]
                r0, end0, _ = T.lex_one(cand + body + ' z', 0)
                if r0 is r and end0 > k0 > 0:
                    w = cand
                    break
            if w is None:
                ctx.ob(rid, key, loc, f'rule #{r.index} {r.pattern[:40]!r} cannot run into the opener {op!r} of a {name}', True)
                continue
            # confirm on the table: left context = the part of the witness in front of the (last) opener occurrence
            k = w.rfind(op)
            left = w[:k]
            text = left + op + body + ' z'
            toks = T.lex_all(text)
            pos, hit = 0, None
            for (tt, val) in [(t[0], t[1]) for t in toks]:
                if pos == len(left):
                    hit = (tt, val)
                    break
                if pos > len(left):
                    break
                pos += len(val)
            ok = hit is not None and isinstance(hit[0], TT) and tuple(hit[0])[:len(fam)] == fam and hit[1].startswith(op)
            ctx.ob(rid, key, loc, f'after a token matched by rule #{r.index} the opener {op!r} still starts a {name} token', ok,
                   f'in {text!r} rule #{r.index} {r.pattern!r} consumes {w!r}: the {name} that starts right after {left!r} is not recognised and its body '
                   f'is lexed as SQL (tokens: {[(repr(t[0]), t[1]) for t in toks][:5]})')
    ctx.need(n >= 100, f'only {n} rule x opener pairs analysed')
