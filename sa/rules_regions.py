"""Region extents (R14.1/R14.2/R5.5) -- placeholder, filled in with C14."""


def check_regions(ctx, rid, quick=True):
    ctx.ob(rid, 'regions:pending', 'sa/rules_regions.py', 'extent automata for region rules', True, 'implemented with C14')


def check_quote_agreement(ctx, rid):
    pass
